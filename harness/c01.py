"""C01 — incommensurable quantities are never silently combined.

Enumerated correspondence between the compiled Lean model (`drv_c01`: `Ufunc.dispatch`,
`ArrayChecks.*`) and unyt, plus the direct oracle on the real library:
  "a commensurability-requiring operation returned a value although the operands' dimensions
   differ and no documented exception applies", or "an operand changed".

Parts:  0 translator cross-check (dump opcodes vs live objects)
        1 ufuncs: every registry entry x call forms x ordered pairs of operand kinds x
          dimension families x shapes
        2 helpers of the array-function handlers (model vs real helper)
        3 array functions with >= 2 value operands (direct oracle + reference rows)
        4 __setitem__ / .to()
        5 witnesses of the counterexample theorems, replayed on the real code
"""
import itertools
import json
import operator
import os
from fractions import Fraction

import numpy as np

import core
import gen

PROOF_MODULES = ["UnytProofs.C01", "UnytProofs.C01History", "UnytProofs.C01State"]

ENV_SRC = ("import numpy as np, unyt, operator\n"
           "from unyt import unyt_array, unyt_quantity, Unit\n")

MODEL_ERRS = {"UnitOperationError", "UnitConversionError", "InvalidUnitOperation", "IterableUnitCoercionError",
              "UnitInconsistencyError", "TypeError", "ValueError", "RuntimeError", "KeyError", "UnitParseError"}

# dimension families: (uA, uA2 same dimension other unit, uB other dimension)
FAMILIES_QUICK = [
    ("m", "cm", "s"),
    ("kg", "g", "m"),
    ("J", "N*m", "W"),           # uA2 is an equal unit spelled differently
    ("K", "degC", "m"),          # temperature: K/R refusal, offset guard
    ("rad", "degree", "s"),      # angle
    ("dimensionless", "percent", "m"),  # the first operand itself dimensionless
    ("delta_degF", "degC", "m"),  # temperature difference + point of another scale: the first operand is rescaled
]

VALS = {
    ("a", "s"): "2.5", ("a", "v"): "[1.5, 2.5, 4.0]", ("a", "m"): "[[1.5], [3.0]]",
    ("b", "s"): "0.5", ("b", "v"): "[0.5, 3.0, 2.0]", ("b", "m"): "[[0.5], [2.0]]",
}
ZERO = {"s": "0.0", "v": "[0.0, 0.0, 0.0]", "m": "[[0.0], [0.0]]"}
# partly zero: some but not all elements zero (the boundary of the documented zero exception)
PARTZERO = {"v": "[0.0, 3.0, 2.0]", "m": "[[0.0], [2.0]]"}
INTS = {("a", "s"): "3", ("a", "v"): "[3, 5, 8]", ("a", "m"): "[[3], [5]]",
        ("b", "s"): "2", ("b", "v"): "[2, 7, 4]", ("b", "m"): "[[2], [7]]"}

# operand kinds (the nine of the property, with the variants that reach different code)
KINDS = ["same", "samedim", "diffdim", "dimless", "percent", "scalar", "barearr",
         "zero_scalar", "zero_arr", "zero_list", "listq", "listq_other", "listq_zero_other",
         "zero_unyt", "zero_unyt_other", "barelist", "same_int", "other_int",
         "partzero_arr", "partzero_list", "partzero_int", "listq_partzero_other", "listq_partzero", "partzero_unyt_other"]
MAIN9 = ["same", "samedim", "diffdim", "dimless", "percent", "scalar", "barearr", "zero_arr", "listq"]


def operand_src(kind, which, shape, fam):
    """python source of one operand; None when the kind has no such shape"""
    uA, uA2, uB = fam
    v = VALS[(which, shape)]
    z = ZERO[shape]

    def ua(vals, unit, dtype=None):
        dt = f", dtype='{dtype}'" if dtype else ""
        if shape == "s":
            return f"unyt_quantity({vals}, {unit!r}{dt})"
        return f"unyt_array(np.array({vals}{dt}), {unit!r})"

    if kind == "same":
        return ua(v, uA)
    if kind == "samedim":
        return ua(v, uA2)
    if kind == "diffdim":
        return ua(v, uB)
    if kind == "dimless":
        return ua(v, "dimensionless")
    if kind == "percent":
        return ua(v, "percent")
    if kind == "scalar":
        return VALS[(which, "s")]
    if kind == "barearr":
        return f"np.array({v})"
    if kind == "zero_scalar":
        return "0"
    if kind == "zero_arr":
        return f"np.array({z})"
    if kind == "zero_list":
        return z if shape != "s" else None
    if kind == "barelist":
        return v if shape != "s" else None
    if kind in ("partzero_arr", "partzero_list", "partzero_int", "partzero_unyt_other"):
        if shape == "s":
            return None
        pz = PARTZERO[shape]
        if kind == "partzero_arr":
            return f"np.array({pz})"
        if kind == "partzero_int":
            return "np.arange(3)" if shape == "v" else "np.array([[0], [2]])"
        if kind == "partzero_unyt_other":
            return ua(pz, uB)
        return pz
    if kind == "zero_unyt":
        return ua(z, uA)
    if kind == "zero_unyt_other":
        return ua(z, uB)
    if kind == "same_int":
        return ua(INTS[(which, shape)], uA, "int64")
    if kind == "other_int":
        return ua(INTS[(which, shape)], uB, "int64")
    if shape != "v":
        return None
    items = VALS[(which, "v")]
    if kind == "listq":
        return f"[unyt_quantity(_v, {uA!r}) for _v in {items}]"
    if kind == "listq_other":
        return f"[unyt_quantity(_v, {uB!r}) for _v in {items}]"
    if kind == "listq_zero_other":
        return f"[unyt_quantity(0.0, {uB!r}) for _v in {items}]"
    if kind == "listq_partzero_other":
        return f"[unyt_quantity(_v, {uB!r}) for _v in {PARTZERO['v']}]"
    if kind == "listq_partzero":
        return f"[unyt_quantity(_v, {uA!r}) for _v in {PARTZERO['v']}]"
    raise KeyError(kind)


# ----------------------------------------------------------------------------------------
# descriptors of real objects for the model


class Env:
    def __init__(self):
        import unyt
        from unyt import Unit, unyt_array, unyt_quantity

        self.unyt = unyt
        self.ns = {"np": np, "unyt": unyt, "operator": operator, "unyt_array": unyt_array,
                   "unyt_quantity": unyt_quantity, "Unit": Unit}
        self.unyt_array = unyt_array
        self.unyt_quantity = unyt_quantity
        self._uw = {}

    def ev(self, src):
        return eval(src, self.ns)

    def unit_wire(self, u):
        k = id(u)
        key = (str(u.expr), u.base_value, u.base_offset)
        r = self._uw.get(key)
        if r is None:
            r = gen.unit_wire_fields(u) + [repr(u)]
            self._uw[key] = r
        return r


def data_fields(arr, raw=None):
    arr = np.asarray(arr)
    kind = arr.dtype.kind if arr.dtype.kind in "fiucb" else "o"
    try:
        z = int(np.count_nonzero(raw if raw is not None else arr) == 0)
    except Exception:
        z = 0
    const, first = 1, "0"
    if arr.size and kind in "fiub":
        try:
            const = int(np.ptp(arr) == 0)
            fv = float(arr.reshape(-1)[0])
            fr = Fraction(str(fv)).limit_denominator()
            first = f"{fr.numerator}/{fr.denominator}" if fr.denominator != 1 else str(fr.numerator)
        except Exception:
            pass
    return [",".join(str(d) for d in arr.shape), str(z), kind, str(arr.dtype.itemsize), str(const), first]


def operand_wire(E, obj):
    ua = E.unyt_array
    if isinstance(obj, ua):
        cls = "q" if isinstance(obj, E.unyt_quantity) else "a"
        return ["U", cls] + E.unit_wire(obj.units) + data_fields(obj.view(np.ndarray))
    if isinstance(obj, (list, tuple)) and any(isinstance(o, ua) for o in obj):
        items = []
        vals = []
        for o in obj:
            if hasattr(o, "units"):
                items += ["u"] + E.unit_wire(o.units)
                vals.append(np.asarray(o))
            else:
                items.append("-")
                vals.append(o)
        return ["S", str(len(obj))] + items + data_fields(np.array(vals), raw=obj)
    return ["B"] + data_fields(np.asarray(obj), raw=obj)


def out_wire(E, out):
    if out is None:
        return ["N"]
    if isinstance(out, tuple):
        f = ["M", str(len(out))]
        for o in out:
            f += ["-"] if o is None else ["o", "1" if isinstance(o, E.unyt_array) else "0", "1" if o.dtype.kind in "ui" else "0"]
        return f
    return ["O", "1" if isinstance(out, E.unyt_array) else "0", "1" if out.dtype.kind in "ui" else "0"]


def strip(E, obj):
    """the plain numbers of an operand, as the dispatcher hands them to NumPy"""
    if isinstance(obj, E.unyt_array):
        return np.array(obj.view(np.ndarray))
    if isinstance(obj, (list, tuple)) and any(isinstance(o, E.unyt_array) for o in obj):
        return np.array([np.asarray(o.view(np.ndarray)) if isinstance(o, E.unyt_array) else o for o in obj])
    return obj


def snap(E, obj):
    """(bytes, dtype, unit, shape) of an array operand; lists: per item"""
    if isinstance(obj, np.ndarray):
        u = None
        if isinstance(obj, E.unyt_array):
            u = (str(obj.units.expr), obj.units.base_value, obj.units.base_offset, str(obj.units.dimensions))
        return ("arr", np.asarray(obj).tobytes(), str(obj.dtype), u, obj.shape)
    if isinstance(obj, (list, tuple)):
        return ("seq", tuple(snap(E, o) for o in obj))
    return ("py", repr(obj))


def values_of(snapshot):
    if snapshot[0] != "arr":
        return None
    return np.frombuffer(snapshot[1], dtype=snapshot[2]).reshape(snapshot[4])


def dims_of(E, obj):
    """set of dimension strings an operand carries ('1' for bare numbers)"""
    if isinstance(obj, E.unyt_array):
        return {str(obj.units.dimensions)}
    if isinstance(obj, (list, tuple)) and any(hasattr(o, "units") for o in obj):
        return {str(o.units.dimensions) if hasattr(o, "units") else "1" for o in obj}
    return {"1"}


def is_bare(E, obj):
    if isinstance(obj, E.unyt_array):
        return False
    if isinstance(obj, (list, tuple)) and any(hasattr(o, "units") for o in obj):
        return False
    return True


def all_zero(obj):
    try:
        return np.count_nonzero(np.asarray(obj, dtype=float)) == 0
    except Exception:
        try:
            return all(float(o) == 0 for o in obj)
        except Exception:
            return False


# ----------------------------------------------------------------------------------------
# Part 1: ufuncs

OPS = {
    "add": ("add", "iadd"), "subtract": ("sub", "isub"), "multiply": ("mul", "imul"),
    "divide": ("truediv", "itruediv"), "floor_divide": ("floordiv", "ifloordiv"),
    "remainder": ("mod", "imod"), "less": ("lt", None), "less_equal": ("le", None),
    "greater": ("gt", None), "greater_equal": ("ge", None), "equal": ("eq", None),
    "not_equal": ("ne", None), "divmod": ("divmod", None), "matmul": ("matmul", "imatmul"),
    "bitwise_and": ("and_", "iand"), "bitwise_or": ("or_", "ior"), "bitwise_xor": ("xor", "ixor"),
    "left_shift": ("lshift", "ilshift"), "right_shift": ("rshift", "irshift"),
}
MIRROR = {"less": "greater", "greater": "less", "less_equal": "greater_equal", "greater_equal": "less_equal",
          "equal": "equal", "not_equal": "not_equal"}
ORDERING = {"less", "less_equal", "greater", "greater_equal"}
CMP = ORDERING | {"equal", "not_equal"}


def route(E, uname, a, b):
    """which ufunc call Python's operator dispatch makes for `a OP b`: (ufunc, swapped, eq/ne wrapper)"""
    wrap = {"equal": "eq", "not_equal": "ne"}.get(uname, "-")
    if uname not in CMP:
        return uname, False, "-"
    if isinstance(a, E.unyt_array):
        return uname, False, wrap
    if isinstance(a, np.ndarray):
        if uname in ("equal", "not_equal"):
            return uname, True, wrap
        return uname, False, "-"
    return MIRROR[uname], True, wrap


# the calls made before the call under test in a history case: (ufunc, first operand, second operand) over the
# operands a, b of the case and a bare zero — every one of them is allowed to raise
HISTORY_CALLS = [(f, x, y) for f in ("less", "greater_equal", "equal", "not_equal", "multiply", "divide", "logical_and")
                 for x, y in (("a", "b"), ("b", "a"))] + [("add", "a", "0"), ("add", "0", "b"), ("less", "a", "0"), ("maximum", "0", "b")]
HISTORY_SRC = ("for _f, _x, _y in " + repr(HISTORY_CALLS) + ":\n"
               "    try:\n"
               "        getattr(np, _f)(*[a if _v == 'a' else (b if _v == 'b' else 0.0) for _v in (_x, _y)])\n"
               "    except Exception:\n"
               "        pass\n")


class Case:
    __slots__ = ("key", "src", "setup", "ufunc", "method", "ops", "out", "kw", "wrap", "form", "kinds", "fam",
                 "shape", "real", "snaps", "model_line", "initial", "meta")


def py_call_src(form, uname, has_out, initial=None):
    """python expression of the call, over the names a, b, o"""
    if form == "call":
        return f"np.{uname}(a, b)"
    if form == "call1":
        return f"np.{uname}(a)"
    if form == "out":
        return f"np.{uname}(a, b, out=o)"
    if form == "out1":
        return f"np.{uname}(a, out=o)"
    if form == "outer":
        return f"np.{uname}.outer(a, b)"
    if form == "reduce":
        return f"np.{uname}.reduce(a)" if initial is None else f"np.{uname}.reduce(a, initial=b)"
    if form == "accumulate":
        return f"np.{uname}.accumulate(a)"
    if form == "operator":
        opn = OPS[uname][0]
        return f"divmod(a, b)" if opn == "divmod" else f"operator.{opn}(a, b)"
    if form == "inplace":
        return f"operator.{OPS[uname][1]}(a, b)"
    if form == "reduceat":
        return f"np.{uname}.reduceat(a, b)"
    if form == "at":
        return f"np.{uname}.at(a, [0], b)"
    raise KeyError(form)


def rule_caches(E):
    """the memoised unit rules of unyt.array (functions carrying `cache_clear` / `cache_info`)"""
    import sys
    mod = sys.modules[E.unyt_array.__module__]
    return {n: f for n, f in vars(mod).items() if callable(getattr(f, "cache_clear", None)) and callable(getattr(f, "cache_info", None))}


def run_real(E, setup_src, call_src, history_src="", probe=None):
    """execute on the real library: (status, exc name or result, {name: (before, after)}); `history_src` = the
    calls made before the call under test (they may not change the operands either)"""
    ns = dict(E.ns)
    pf = None
    if history_src:
        # a history case starts from empty rule memos, like the model's `runHistory` from the empty state
        caches = rule_caches(E)
        for f in caches.values():
            f.cache_clear()
        pf = caches.get(probe)
    exec(setup_src, ns)
    objs = {n: ns[n] for n in ("a", "b", "o") if n in ns}
    before = {n: snap(E, v) for n, v in objs.items()}
    if history_src:
        with np.errstate(all="ignore"):
            exec(history_src, ns)
    n0 = pf.cache_info().currsize if pf is not None else None
    try:
        with np.errstate(all="ignore"):
            res = eval(call_src, ns)
        st = ("ok", res)
    except Exception as e:  # noqa: BLE001
        st = ("err", e)
    E.last_rule_delta = None if pf is None else pf.cache_info().currsize - n0
    after = {n: snap(E, v) for n, v in objs.items()}
    return st, objs, before, after


def classify_exc(e):
    n = type(e).__name__
    return n if n in MODEL_ERRS else "Other"


def unit_tuple(u):
    return (float(u.base_value), float(u.base_offset), gen.dim_vec(u.dimensions))


def kernel_values(E, case, objs, factor, fsz, mul):
    """what NumPy computes on the stripped operands with the model's factor and multiplier"""
    uf = getattr(np, case["ufunc"])
    a = strip(E, objs["a"])
    form = case["form"]
    if case.get("retyped") and form == "inplace":
        a = a.astype(f"f{a.dtype.itemsize}")      # the in-place target was made a float array first
    with np.errstate(all="ignore"):
        if case["nin"] == 1:
            if factor is not None:
                a = np.asarray(a) * factor
            if form in ("reduce",):
                if case.get("initial"):
                    ini = np.asarray(strip(E, objs["b"])).item()
                    if case.get("finit") is not None:
                        ini = ini * case["finit"]          # initial.to_value(u)
                    r = uf.reduce(a, initial=ini)
                else:
                    r = uf.reduce(a)
            elif form == "accumulate":
                r = uf.accumulate(a)
            else:
                r = uf(a)
        else:
            b = strip(E, objs["b"])
            if case.get("swapped"):
                a, b = b, a
            if case.get("factor0") is not None:
                a = np.asarray(a) * case["factor0"]
            if factor is not None:
                b = np.asarray(b, dtype=f"f{fsz}") * np.dtype(f"f{fsz}").type(factor)
            if form == "outer":
                r = uf.outer(a, b)
            elif form == "reduceat":
                r = uf.reduceat(a, b)
            else:
                r = uf(a, b)
    if isinstance(r, tuple):
        return tuple(np.asarray(x) * mul if mul != 1 else np.asarray(x) for x in r)
    return np.asarray(r) * mul if mul != 1 else np.asarray(r)


def probe_kernel(E, case, objs):
    """NumPy's own verdict on the stripped call: (error class name or None, result shape)"""
    uf = getattr(np, case["ufunc"])
    form = case["form"]
    try:
        with np.errstate(all="ignore"):
            a = strip(E, objs["a"])
            kw = {}
            o = None
            if form in ("out", "out1") or case.get("with_out"):
                o = objs["o"]
            elif form == "inplace":
                o = objs["a"]
            if case.get("initial"):
                kw["initial"] = np.asarray(strip(E, objs["b"])).item()
            if o is not None:
                so = np.array(np.asarray(o))
                if so.dtype.kind in "ui" and uf.nout == 1:
                    so = so.astype(f"f{so.dtype.itemsize}")
                kw["out"] = so
            if case["nin"] == 1:
                if form == "reduce":
                    r = uf.reduce(a, **kw)
                elif form == "accumulate":
                    r = uf.accumulate(a, **kw)
                else:
                    r = uf(a, **kw)
            else:
                b = strip(E, objs["b"])
                if case.get("swapped"):
                    a, b = b, a
                if case.get("conv_fsz"):
                    b = np.asarray(b, dtype=f"f{case['conv_fsz']}")
                if form == "outer":
                    r = uf.outer(a, b, **kw)
                elif form == "reduceat":
                    r = uf.reduceat(a, b, **kw)
                elif form == "at":
                    r = uf.at(np.array(a), [0], b)
                else:
                    r = uf(a, b, **kw)
        r0 = r[0] if isinstance(r, tuple) else r
        return None, ",".join(str(d) for d in np.shape(r0))
    except Exception as e:  # noqa: BLE001
        return classify_exc(e), ""


def near(a, b, rtol=1e-9):
    a = np.asarray(a)
    b = np.asarray(b)
    if a.shape != b.shape:
        try:
            b = np.broadcast_to(b, a.shape)   # results delivered through a larger `out=`
        except ValueError:
            return False
    if a.dtype.kind == "b" or b.dtype.kind == "b":
        return bool(np.array_equal(a, b))
    with np.errstate(all="ignore"):
        a = a.astype(complex) if a.dtype.kind == "c" or b.dtype.kind == "c" else a.astype(float)
        b = b.astype(a.dtype)
        fin = np.isfinite(a) & np.isfinite(b)
        ok_nf = np.all((a == b) | (np.isnan(a) & np.isnan(b)) | fin)
        d = np.abs(a - b)[fin]
        m = np.maximum(np.abs(a), np.abs(b))[fin]
        return bool(ok_nf and np.all(d <= rtol * m + 1e-300))


def parse_effects(s):
    out = []
    for t in s.split(";") if s else []:
        if t == "R":
            out.append(("R",))
        elif t == "S":
            out.append(("S",))
        elif t.startswith("W"):
            out.append(("W", int(t[1:])))
        elif t.startswith("U"):
            i, sc, off, dim = t[1:].split(":")
            out.append(("U", int(i), core.b2f(sc), core.b2f(off), dim))
    return out


class Ufuncs:
    """enumeration, execution and comparison of the ufunc cases"""

    def __init__(self, chk, E, X, tier, seed, ref_ufuncs):
        self.chk, self.E, self.X, self.tier, self.seed = chk, E, X, tier, seed
        self.ref = set(ref_ufuncs)          # NumPy public names
        self.ref_canon = {X["aliases"].get(n, n) for n in ref_ufuncs}
        self.registry = X["registry"]
        self.cases = []

    # -- enumeration ---------------------------------------------------------------------
    def shapes_for(self, idx):
        combos = [("v", "v"), ("s", "s"), ("m", "v"), ("v", "s"), ("s", "v")]
        return combos[idx % len(combos)]

    def enumerate(self):
        X = self.X
        fams = list(FAMILIES_QUICK)
        binary = [n for n, r in X["registry_rows_d"].items() if r["ufunc"] and r["nin"] == 2]
        unary = [n for n, r in X["registry_rows_d"].items() if r["ufunc"] and r["nin"] == 1]
        thorough = self.tier == "thorough"
        counter = 0
        for uname in binary:
            checked = uname in self.ref_canon
            forms = ["call", "out", "outer"]
            if uname in OPS:
                forms.append("operator")
                if OPS[uname][1]:
                    forms.append("inplace")
            for form in forms:
                for ka, kb in itertools.product(KINDS, KINDS):
                    main = ka in MAIN9 and kb in MAIN9
                    if form == "inplace" and ka not in ("same", "samedim", "diffdim", "dimless", "percent", "barearr", "zero_arr",
                                                        "zero_unyt", "zero_unyt_other", "same_int", "other_int",
                                                        "partzero_arr", "partzero_int", "partzero_unyt_other"):
                        continue
                    if form in ("inplace", "out") and not (main or "int" in ka or "int" in kb or "zero" in ka + kb or "listq" in ka + kb):
                        continue
                    if form == "outer" and not (main or "partzero" in ka + kb):
                        continue
                    if ("same_int" in (ka, kb) or "other_int" in (ka, kb)) and form not in ("inplace", "out", "call"):
                        continue
                    # which families / shapes
                    if thorough and (checked or main):
                        sel = [(f, s) for f in range(len(fams)) for s in range(3)]
                    elif thorough:
                        sel = [(f, (counter + f) % 3) for f in range(len(fams))]
                    elif checked and form in ("call", "operator", "inplace", "out", "outer") and "partzero" in ka + kb and (ka in MAIN9 or kb in MAIN9):
                        sel = [(f, (counter + f + self.seed) % 3) for f in range(len(fams))]
                    elif checked and main and form in ("call", "operator"):
                        sel = [(f, (counter + f + self.seed) % 3) for f in range(len(fams))]
                    else:
                        sel = [((counter + self.seed) % len(fams), (counter // len(fams) + self.seed) % 3)]
                    counter += 1
                    for fi, si in sel:
                        self.add_binary(uname, form, ka, kb, fams[fi], self.shapes_for(si))
            # reduce / accumulate / reduceat on the unit-carrying kinds, and reduce(initial=)
            for ka in ("same", "zero_unyt", "same_int", "dimless"):
                for form in ("reduce", "accumulate"):
                    for fi in range(len(fams)) if (thorough or checked) else [counter % len(fams)]:
                        self.add_unary(uname, form, ka, fams[fi], "v")
                        self.add_unary(uname, form, ka, fams[fi], "v", with_out=True)
                counter += 1
            for kb in ("same", "samedim", "diffdim", "dimless", "scalar", "zero_scalar"):
                for fi in range(len(fams)) if (thorough or checked) else [counter % len(fams)]:
                    self.add_binary(uname, "reduce", "same", kb, fams[fi], ("v", "s"), initial=True)
                counter += 1
            for fi in [counter % len(fams)]:
                self.add_binary(uname, "reduceat", "same", "barearr", fams[fi], ("v", "v"), reduceat=True)
                for kb in ("same", "diffdim", "scalar"):
                    self.add_binary(uname, "at", "same", kb, fams[fi], ("v", "s"))
        for uname in unary:
            for ka in ("same", "samedim", "dimless", "percent", "zero_unyt", "same_int"):
                for form in ("call1", "out1"):
                    for fi in range(len(fams)) if thorough else [(counter + self.seed) % len(fams), 4]:
                        self.add_unary(uname, form, ka, fams[fi], "v" if counter % 2 else "s")
                counter += 1
        # ufuncs of NumPy that the registry does not know
        for n, (nin, _nout) in sorted(X["meta"].items()):
            if n not in self.registry and nin == 2:
                self.add_binary(n, "call", "same", "same", fams[0], ("v", "v"))
                self.add_binary(n, "call", "same", "diffdim", fams[0], ("v", "v"))
            elif n not in self.registry and nin == 1:
                self.add_unary(n, "call1", "same", fams[0], "v")
        self.enumerate_histories()
        if thorough:
            self.enumerate_dimension_pairs()

    def enumerate_histories(self):
        """programs: the call is made AFTER other calls on the same operands (same ordered pairs of units) in
        the same interpreter — the documented exceptions (ordering comparisons, == / !=, zero partners) and
        unchecked rules (multiply, divide, logical_*), in both operand orders.  The model evaluates the whole
        history (`c01.history`: `History.runHistory` under the regenerated memo configuration); the direct
        oracle judges the last call exactly like a call in a fresh interpreter."""
        fams = list(FAMILIES_QUICK)
        thorough = self.tier == "thorough"
        pairs = [("same", "diffdim"), ("diffdim", "same"), ("same", "dimless"), ("dimless", "same"), ("same", "percent"),
                 ("percent", "same"), ("same", "scalar"), ("scalar", "same"), ("same", "barearr"), ("barearr", "same"),
                 ("same", "listq_other"), ("same", "partzero_arr"), ("same", "samedim"), ("samedim", "same"),
                 ("diffdim", "percent"), ("dimless", "diffdim")]
        unames = [n for n in sorted(self.ref_canon) if n in self.registry and self.X["registry_rows_d"][n]["ufunc"]
                  and self.X["registry_rows_d"][n]["nin"] == 2]
        counter = 0
        for uname in unames:
            forms = ["call", "out"]
            if uname in OPS:
                forms.append("operator")
                if OPS[uname][1]:
                    forms.append("inplace")
            for form in forms:
                for ka, kb in pairs:
                    if form == "inplace" and ka not in ("same", "samedim", "diffdim", "dimless", "percent"):
                        continue
                    if thorough or form == "call":
                        sel = [(f, (counter + f + self.seed) % 3) for f in range(len(fams))]
                    else:
                        sel = [((counter + self.seed) % len(fams), (counter // len(fams) + self.seed) % 3)]
                    counter += 1
                    for fi, si in sel:
                        n0 = len(self.cases)
                        self.add_binary(uname, form, ka, kb, fams[fi], self.shapes_for(si))
                        for c in self.cases[n0:]:
                            c["history"] = HISTORY_SRC
                            c["prefix"] = HISTORY_CALLS

    def history_lines(self, pre):
        """descriptors of the calls of HISTORY_SRC that reach `__array_ufunc__`, in execution order"""
        E = self.E
        out = []
        for uname, xa, xb in HISTORY_CALLS:
            x = pre["a"] if xa == "a" else (pre["b"] if xa == "b" else 0.0)
            y = pre["a"] if xb == "a" else (pre["b"] if xb == "b" else 0.0)
            if not any(isinstance(v, E.unyt_array) for v in (x, y)):
                continue
            try:
                ksh = ",".join(str(d) for d in np.broadcast(np.asarray(strip(E, x)), np.asarray(strip(E, y))).shape)
                ke = "-"
            except Exception:  # noqa: BLE001
                ksh, ke = "", "ValueError"
            out.append([uname, "__call__", "2"] + operand_wire(E, x) + operand_wire(E, y) + ["-", "N", "-", ke, ksh, "-"])
        return out

    def enumerate_dimension_pairs(self):
        """thorough: every ordered pair of distinct dimensions present in the registry"""
        bydim = gen.names_by_dim()
        lut = gen.extract()["lut"]
        reps = {}
        for d, names in bydim.items():
            good = [n for n in names if lut[n][1] == 0] or names
            reps[d] = good[0]
        dims = sorted(reps)
        kinds = [("same", "diffdim"), ("diffdim", "same"), ("same", "listq_other"), ("listq_other", "same"),
                 ("zero_unyt", "diffdim"), ("same", "other_int"), ("same", "listq_partzero_other"),
                 ("listq_partzero_other", "same"), ("same", "partzero_arr"), ("partzero_list", "same")]
        unames = sorted(self.ref_canon & set(self.registry))
        for da in dims:
            for db in dims:
                if da == db:
                    continue
                fam = (reps[da], reps[da], reps[db])
                for uname in unames:
                    for ka, kb in kinds:
                        self.add_binary(uname, "call", ka, kb, fam, ("v", "v"))
                    if uname in OPS:
                        self.add_binary(uname, "operator", "same", "diffdim", fam, ("v", "v"))
                        if OPS[uname][1]:
                            self.add_binary(uname, "inplace", "same", "diffdim", fam, ("v", "v"))
                    self.add_binary(uname, "out", "same", "diffdim", fam, ("v", "v"))
                    self.add_binary(uname, "outer", "same", "diffdim", fam, ("v", "v"))

    def add_binary(self, uname, form, ka, kb, fam, shp, initial=False, reduceat=False):
        if getattr(np, uname).signature is not None and form in ("outer", "reduce", "accumulate", "reduceat", "inplace", "at"):
            return  # NumPy has no such method for generalised ufuncs
        if form == "at" and getattr(np, uname).nout != 1:
            return  # NumPy: "Only single output ufuncs supported" (raised before dispatch)
        sa = operand_src(ka, "a", shp[0], fam)
        sb = operand_src(kb, "b", shp[1], fam)
        if sa is None or sb is None:
            return
        if reduceat:
            sb = "np.array([0, 1])"
        setup = f"a = {sa}\nb = {sb}\n"
        if form == "out":
            # a float out array of the broadcast shape, labelled with an unrelated unit
            oshape = {("v", "v"): "(3,)", ("s", "s"): "()", ("m", "v"): "(2, 3)", ("v", "s"): "(3,)", ("s", "v"): "(3,)"}[shp]
            if (ka == "same_int" or kb == "other_int"):
                setup += f"o = unyt_array(np.full({oshape}, 9, dtype='int64'), 'A')\n"
            else:
                setup += f"o = unyt_array(np.full({oshape}, 9.0), 'A')\n"
        self.cases.append({"ufunc": uname, "form": form, "ka": ka, "kb": kb, "fam": fam, "shp": shp,
                           "setup": setup, "call": py_call_src(form, uname, form == "out", initial=True if initial else None),
                           "nin": 1 if initial else 2, "initial": initial})

    def add_unary(self, uname, form, ka, fam, shape, with_out=False):
        if getattr(np, uname).signature is not None and form in ("reduce", "accumulate"):
            return
        sa = operand_src(ka, "a", shape, fam)
        if sa is None:
            return
        setup = f"a = {sa}\n"
        call = py_call_src(form, uname, False)
        if form == "out1":
            setup += "o = unyt_array(np.full(np.shape(a), 9.0), 'A')\n"
        if with_out:
            oshape = "()" if form == "reduce" else "np.shape(a)"
            setup += f"o = unyt_array(np.full({oshape}, 9.0), 'A')\n"
            call = call[:-1] + ", out=o)"
        self.cases.append({"ufunc": uname, "form": form, "ka": ka, "kb": "-", "fam": fam, "shp": (shape, "-"),
                           "setup": setup, "call": call, "nin": 1, "initial": False, "with_out": with_out})

    # -- execution -----------------------------------------------------------------------
    def execute(self, part=0, nparts=1, batch=15000):
        """run the cases of this worker's share (every nparts-th case), in batches"""
        mine = self.cases[part::nparts]
        self.cases = []
        for i in range(0, len(mine), batch):
            self.execute_batch(mine[i:i + batch])

    def execute_batch(self, cases):
        E, chk = self.E, self.chk
        lines = []
        for c in cases:
            pre = self.fresh(c)                      # operands as they are before the call
            a = pre["a"]
            b = pre.get("b")
            uname, swapped, wrap = c["ufunc"], False, "-"
            form = c["form"]
            if form == "operator":
                uname, swapped, wrap = route(E, c["ufunc"], a, b)
            c["dispatch_ufunc"], c["swapped"], c["wrap"] = uname, swapped, wrap
            c["reaches_unyt"] = any(isinstance(x, E.unyt_array) for x in (a, b, pre.get("o")))
            method = {"call": "__call__", "call1": "__call__", "out": "__call__", "out1": "__call__", "operator": "__call__",
                      "inplace": "__call__", "outer": "outer", "reduce": "reduce", "accumulate": "accumulate",
                      "reduceat": "reduceat", "at": "at"}[form]
            if form == "at":
                # ufunc.at(a, indices, b): three inputs reach __array_ufunc__
                ops = operand_wire(E, a) + operand_wire(E, [0]) + operand_wire(E, b)
                nin = 3
            elif c["nin"] == 1:
                ops = operand_wire(E, a)
                nin = 1
            else:
                x, y = (b, a) if swapped else (a, b)
                ops = operand_wire(E, x) + operand_wire(E, y)
                nin = 2
            out = None
            if form in ("out", "out1") or c.get("with_out"):
                out = pre["o"]
            elif form == "inplace":
                out = a
            ow = out_wire(E, out)
            iw = ["I"] + operand_wire(E, b) if c["initial"] else ["-"]
            c["line_head"] = ["c01.dispatch", uname, method, str(nin)] + ops + iw + ow + ["-"]
            c2 = dict(c)
            c2["ufunc"] = uname
            ke, ksh = probe_kernel(E, c2, self.fresh(c))
            c["kernel_err"], c["kernel_shape"] = ke or "-", ksh
            c["hist_head"] = []
            if c.get("prefix"):
                for hl in self.history_lines(pre):
                    c["hist_head"] += hl + ["##"]
            lines.append(self.model_line(c))
            st, objs, before, after = run_real(E, c["setup"], c["call"], c.get("history", ""), self.registry.get(uname))
            c["rule_delta"] = E.last_rule_delta if c.get("history") else None
            c["st"], c["objs"], c["before"], c["after"] = st, objs, before, after
        replies = self.ask(lines)
        # second pass: cases in which NumPy itself refuses the stripped call
        redo = []
        for c, rep in zip(cases, replies):
            rep = self.split_state(c, rep)
            c["rep"] = rep
            if rep[0] == "ok" and rep[5] != "none":
                # the second operand is cast to a float dtype before the kernel runs: ask NumPy again
                c["conv_fsz"] = int(rep[5])
                c2 = dict(c)
                c2["ufunc"] = c["dispatch_ufunc"]
                ke, ksh = probe_kernel(E, c2, self.fresh(c))
                if (ke or "-") != c["kernel_err"] or ksh != c["kernel_shape"]:
                    c["kernel_err"], c["kernel_shape"] = ke or "-", ksh
                    redo.append(c)
        if redo:
            reps2 = self.ask([self.model_line(c) for c in redo])
            for c, rep in zip(redo, reps2):
                c["rep"] = self.split_state(c, rep)
        for c in cases:
            self.compare(c)
            self.oracle(c)

    def split_state(self, c, rep):
        """`c01.history` appends `rs=<n0>,<n1>`: entries of the model's unit-rule table before / after the last call"""
        c["model_rs"] = None
        if rep and rep[-1].startswith("rs="):
            n0, n1 = rep[-1][3:].split(",")
            c["model_rs"] = (int(n0), int(n1))
            rep = rep[:-1]
        return rep

    def compare_state(self, c, where):
        """the model's unit-rule table against the real `lru_cache` of the rule function of the call under test:
        did the call add an entry (a miss whose result was stored) or not (a hit, a raise, or the rule never reached).
        `_difference_units` calls the memoised `_preserve_units` itself (entries the model does not count): its own
        cache is the one looked at."""
        if c.get("rule_delta") is None or c.get("model_rs") is None:
            return
        self.chk.count("history:rule-memo-compared")
        md = c["model_rs"][1] - c["model_rs"][0]
        if md != c["rule_delta"]:
            self.chk.disagree("c01.history.state", f"{where}: the call added {c['rule_delta']} entries to the rule memo of "
                              f"{self.registry.get(c['dispatch_ufunc'])}, the model's table grew by {md} (sizes {c['model_rs']})")
        else:
            self.chk.count(f"history:rule-memo-{'miss' if md else 'hit-or-unreached'}")

    def model_line(self, c):
        tail = c["line_head"][1:] + [c["kernel_err"], c["kernel_shape"], c["wrap"]]
        if c.get("prefix"):
            return "\t".join(["c01.history"] + c["hist_head"] + tail)
        return "\t".join(["c01.dispatch"] + tail)

    def fresh(self, c):
        ns = dict(self.E.ns)
        exec(c["setup"], ns)
        return {n: ns[n] for n in ("a", "b", "o") if n in ns}

    def ask(self, lines):
        # identical descriptors are asked once
        uniq = {}
        for l in lines:
            uniq.setdefault(l, None)
        keys = list(uniq)
        try:
            reps = core.Model("drv_c01").ask(keys)
        except Exception as e:  # noqa: BLE001
            self.chk.disagree("driver", repr(e))
            reps = [["driver-failed"]] * len(keys)
        for k, r in zip(keys, reps):
            uniq[k] = r
        self.chk.count("model:distinct-dispatch-descriptors", len(keys))
        return [uniq[l] for l in lines]

    # -- comparison with the model -------------------------------------------------------
    def replay(self, c, assertion):
        r = {"python": ENV_SRC + c["setup"] + c.get("history", "") + assertion, "call": c["call"], "family": list(c["fam"]),
             "kinds": [c["ka"], c["kb"]], "model": c.get("rep")}
        if c.get("history"):
            r["history"] = "the call is made after " + ", ".join(f"np.{f}({x}, {y})" for f, x, y in HISTORY_CALLS) + " in the same interpreter"
        return r

    def compare(self, c):
        chk, E = self.chk, self.E
        rep = c["rep"]
        st = c["st"]
        tag = f"{c['ufunc']}|{c['form']}|{c['ka']}|{c['kb']}" + ("|after-history" if c.get("history") else "")
        if c.get("history"):
            chk.count("history:cases")
        chk.case((c["ufunc"], c["form"], c["ka"], c["kb"], c["fam"], c["shp"], c.get("with_out", False), c["initial"], bool(c.get("history"))),
                 {"call": c["call"], "setup": c["setup"], "model": rep[:3]} if len(chk.samples) < 8 and c["kb"] == "diffdim" else None)
        chk.count("form:" + c["form"])
        if not c["reaches_unyt"]:
            chk.count("no-unyt-operand (NumPy only)")
            return
        if rep[0] not in ("ok", "err"):
            chk.disagree("c01.dispatch", f"{tag}: model reply {rep}")
            return
        chk.count("model:" + (rep[0] if rep[0] == "ok" else "err:" + rep[1]))
        where = f"{tag} fam={c['fam']} shp={c['shp']} call={c['call']!r} setup={c['setup']!r}"
        if c.get("history"):
            self.compare_state(c, where)
        if rep[0] == "err":
            if st[0] != "err":
                chk.disagree("c01.dispatch", f"{where}: model raises {rep[1]}, implementation returned {str(st[1])[:60]!r}")
                return
            if classify_exc(st[1]) != rep[1]:
                chk.disagree("c01.dispatch", f"{where}: model raises {rep[1]}, implementation raised {type(st[1]).__name__}: {str(st[1])[:80]}")
                return
            effects = parse_effects(rep[2])
            self.compare_effects(c, effects, None, where)
            return
        # model: ok
        if st[0] != "ok":
            chk.disagree("c01.dispatch", f"{where}: model returns, implementation raised {type(st[1]).__name__}: {str(st[1])[:80]}")
            return
        res = st[1]
        unit = None if rep[1] == "none" else (core.b2f(rep[1]), core.b2f(rep[2]), rep[3])
        factor0 = None
        if rep[4].startswith("first:"):
            factor0, factor = core.b2f(rep[4][6:]), None
        else:
            factor = None if rep[4] == "none" else core.b2f(rep[4])
        fsz = None if rep[5] == "none" else int(rep[5])
        mul = core.b2f(rep[6])
        early = rep[7]
        effects = parse_effects(rep[8])
        finit = None if len(rep) < 10 or rep[9] == "none" else core.b2f(rep[9])
        first = res[0] if isinstance(res, tuple) else res
        if early != "none":
            want = early == "1"
            arr = np.asarray(first)
            if c["form"] in ("out",):
                arr = np.asarray(c["objs"]["o"]) != 0
            if arr.dtype.kind not in "bf" or not np.all(arr == want):
                chk.disagree("c01.dispatch", f"{where}: model says all-{want}, implementation returned {str(res)[:60]!r}")
            self.compare_effects(c, effects, None, where)
            return
        has_units = hasattr(first, "units")
        if (unit is not None) != has_units:
            chk.disagree("c01.dispatch", f"{where}: model unit {unit}, implementation returned {type(first).__name__} {str(first)[:50]!r}")
            return
        try:
            c2 = dict(c)
            c2["ufunc"] = c["dispatch_ufunc"]
            c2["retyped"] = ("R",) in effects
            c2["factor0"] = factor0
            c2["finit"] = finit
            fr = self.fresh(c)
            if c["initial"] and getattr(getattr(fr.get("b"), "units", None), "base_offset", 0):
                raise LookupError("offset-initial")   # affine conversion of the start value: C03/C08's business
            want_vals = kernel_values(E, c2, fr, factor, fsz, mul)
        except Exception as e:  # noqa: BLE001
            chk.count("kernel-values-unavailable:" + type(e).__name__)
            want_vals = None
        if unit is not None:
            ru = unit_tuple(first.units)
            rule = self.registry.get(c["dispatch_ufunc"], "")
            if ru[2] != unit[2]:
                chk.disagree("c01.dispatch", f"{where}: result dimension model {unit[2]} implementation {ru[2]}")
                return
            if rule not in ("_multiply_units", "_divide_units", "_floor_divide_units"):
                if not (core.close(ru[0], unit[0], 1e-9) and core.close(ru[1], unit[1], 1e-9)):
                    chk.disagree("c01.dispatch", f"{where}: result unit model {unit} implementation {ru}")
                    return
            if want_vals is not None and ru[1] == 0 and unit[1] == 0:
                got = res if isinstance(res, tuple) else (res,)
                want = want_vals if isinstance(want_vals, tuple) else (want_vals,)
                for g, w in zip(got, want):
                    gu = unit_tuple(g.units)[0] if hasattr(g, "units") else 1.0
                    if not near(np.asarray(g) * gu, np.asarray(w) * unit[0]):
                        chk.disagree("c01.dispatch", f"{where}: values differ: implementation {np.asarray(g).tolist()} x {gu}, model factor={factor} mul={mul} -> {np.asarray(w).tolist()} x {unit[0]}")
                        break
        elif want_vals is not None:
            if isinstance(want_vals, tuple) and not isinstance(res, tuple):
                want_vals = np.array(want_vals)     # `np.array(out_arr)` stacks a tuple of outputs
            got = res if isinstance(res, tuple) else (res,)
            want = want_vals if isinstance(want_vals, tuple) else (want_vals,)
            for g, w in zip(got, want):
                if not near(np.asarray(g), np.asarray(w)):
                    chk.disagree("c01.dispatch", f"{where}: values differ: implementation {np.asarray(g).tolist()}, model factor={factor} -> {np.asarray(w).tolist()}")
                    break
        self.compare_effects(c, effects, res, where)

    def compare_effects(self, c, effects, res, where):
        """the model's effect list against the before/after snapshots of every operand"""
        chk = self.chk
        form = c["form"]
        outname = None
        if form in ("out", "out1") or c.get("with_out"):
            outname = "o"
        elif form == "inplace":
            outname = "a"
        for n in c["before"]:
            b, a = c["before"][n], c["after"][n]
            if n != outname:
                if b != a:
                    chk.disagree("c01.effects", f"{where}: operand {n} changed although the model has no effect on it")
                continue
            if b[0] != "arr":
                continue
            want_dtype = b[2]
            if ("R",) in effects:
                want_dtype = f"float{np.dtype(b[2]).itemsize * 8}"
            wrote = any(e[0] == "W" for e in effects)
            scaled = ("S",) in effects
            us = [e for e in effects if e[0] == "U"]
            if a[2] != want_dtype and not wrote:
                chk.disagree("c01.effects", f"{where}: out dtype {b[2]} -> {a[2]}, model says {want_dtype} (effects {effects})")
            if not wrote and not scaled:
                if not near(values_of(b), values_of(a), 0.0):
                    chk.disagree("c01.effects", f"{where}: out numbers changed, model has no write effect (effects {effects})")
            if us:
                u = us[-1]
                if a[3] is None or not (core.close(a[3][1], u[2], 1e-9) and core.close(a[3][2], u[3], 1e-9)
                                        and gen.dim_vec(self.E.unyt.Unit(a[3][0]).dimensions) == u[4]):
                    # multiply/divide results are compared by dimension only (simplification coefficient)
                    rule = self.registry.get(c["dispatch_ufunc"], "")
                    if not (rule in ("_multiply_units", "_divide_units", "_floor_divide_units") and a[3] is not None
                            and gen.dim_vec(self.E.unyt.Unit(a[3][0]).dimensions) == u[4]):
                        chk.disagree("c01.effects", f"{where}: out unit after = {a[3]}, model sets {u[2:]}")
            else:
                if a[3] != b[3]:
                    chk.disagree("c01.effects", f"{where}: out unit {b[3]} -> {a[3]}, model sets no unit (effects {effects})")

    # -- direct oracle (never consults the model) ----------------------------------------
    def oracle(self, c):
        chk, E = self.chk, self.E
        if not c["reaches_unyt"]:
            return
        uname = c["ufunc"]
        if uname not in self.ref_canon:
            return
        objs = self.fresh(c)
        a, b = objs["a"], objs.get("b")
        form = c["form"]
        st = c["st"]
        if c["nin"] == 1 and not c["initial"]:
            return  # a single operand: nothing to be incommensurable with
        da, db = dims_of(E, a), dims_of(E, b)
        differ = len(da | db) > 1
        if not differ:
            return
        chk.count("oracle:dimensions-differ")
        zero_bare = (is_bare(E, a) and all_zero(a)) or (is_bare(E, b) and all_zero(b))
        dimless = da == {"1"} or db == {"1"}
        is_cmp = uname in CMP
        eqne = uname in ("equal", "not_equal")
        documented = None
        if zero_bare:
            documented = "zero"
        elif is_cmp and dimless and not c["initial"]:
            documented = "dimensionless-comparison"
        elif eqne:
            documented = "eqne"
        changed = [n for n in c["before"] if c["before"][n] != c["after"][n]]
        out_name = "o" if (form in ("out", "out1") or c.get("with_out")) else ("a" if form == "inplace" else None)
        if documented is None:
            if st[0] == "ok":
                key = self.classify(c, a, b)
                chk.count("oracle:FAIL " + key)
                chk.fail(key, f"{c['call']} returned {str(st[1])[:50]!r} for operands of dimensions {sorted(da)} and {sorted(db)}",
                         self.replay(c, "try:\n    r = " + c["call"] + "\nexcept Exception:\n    r = None\nelse:\n    raise AssertionError(f'returned {r!r} although the dimensions differ')\n"))
                return
            # raised: every operand must be what it was
            for n in changed:
                b4, af = c["before"][n], c["after"][n]
                vals_same = b4[0] == "arr" and af[0] == "arr" and b4[3] == af[3] and near(values_of(b4), values_of(af), 0.0)
                mech = self.classify(c, a, b)
                if vals_same:
                    key = "raised-but-operand-retyped"
                    what = f"{c['call']} raised {type(st[1]).__name__} but operand {n} changed dtype {b4[2]} -> {af[2]} (numbers and unit intact)"
                elif mech in ("ufunc|zero-unyt-operand", "ufunc|zero-quantity-list", "table|divmod"):
                    key = mech
                    what = f"{c['call']} went past the dimension check, wrote operand {n} and then raised {type(st[1]).__name__}"
                else:
                    key = f"raised-but-operand-changed|{uname}|{form}"
                    what = f"{c['call']} raised {type(st[1]).__name__} but operand {n} changed"
                chk.count("oracle:FAIL " + key)
                nm = n
                chk.fail(key, what, self.replay(c, f"import copy\n_b = (np.asarray({nm}).tobytes(), str(np.asarray({nm}).dtype), str(getattr({nm}, 'units', None)))\ntry:\n    " + c["call"]
                                                + f"\nexcept Exception:\n    pass\n_a = (np.asarray({nm}).tobytes(), str(np.asarray({nm}).dtype), str(getattr({nm}, 'units', None)))\nassert _a == _b, (_b[1:], _a[1:])\n"))
            return
        # a documented exception applies
        if documented == "eqne" and st[0] == "ok":
            first = st[1]
            arr = np.asarray(first) if out_name is None else np.asarray(c["objs"][out_name]) != 0
            want = uname == "not_equal"
            if not np.all(arr == want):
                key = self.classify(c, a, b)
                if key not in ("ufunc|zero-unyt-operand", "ufunc|zero-quantity-list"):
                    key = f"eqne-not-constant|{form}"
                chk.fail(key, f"{c['call']} between incommensurable operands answered {str(first)[:40]!r}, not all-{want}",
                         self.replay(c, f"r = {c['call']}\nassert np.all(np.asarray(r) == {want}), r\n"))
        if documented == "zero" and st[0] == "ok" and not is_cmp and not c["initial"]:
            # the all-zero bare operand takes the unit of its partner: the result keeps that dimension
            partner = b if (is_bare(E, a) and all_zero(a)) else a
            pd = dims_of(E, partner)
            first = st[1][0] if isinstance(st[1], tuple) else st[1]
            rd = {str(first.units.dimensions)} if hasattr(first, "units") else {"1"}
            if uname != "arctan2" and len(pd) == 1 and rd != pd:
                key = self.classify(c, a, b)
                chk.count("oracle:FAIL " + key)
                chk.fail(key, f"{c['call']}: bare zero combined with {sorted(pd)} gave a result of dimension {sorted(rd)}",
                         self.replay(c, f"r = {c['call']}\nr = r[0] if isinstance(r, tuple) else r\nassert str(getattr(r, 'units', Unit()).dimensions) == {sorted(pd)[0]!r}, r\n"))
        if st[0] == "err" and changed:
            pass  # exceptions are allowed to raise too; mutation on a refused call is C18's business

    def classify(self, c, a, b):
        """seed-independent key of a failing call: by mechanism where one is recognisable"""
        E = self.E
        uname, form = c["ufunc"], c["form"]
        if c["initial"]:
            return "reduce|initial|" + ("bare" if is_bare(E, b) else "quantity")
        if uname == "divmod":
            return "table|divmod"
        for x, y in ((a, b), (b, a)):
            if isinstance(x, E.unyt_array) and all_zero(x) and not isinstance(y, E.unyt_array):
                return "ufunc|zero-unyt-operand"
        for x in (a, b):
            if isinstance(x, (list, tuple)) and any(hasattr(o, "units") for o in x) and all_zero([float(o) for o in x]):
                return "ufunc|zero-quantity-list"
        return f"ufunc|{uname}|{form}" + ("|after-history" if c.get("history") else "")


# ----------------------------------------------------------------------------------------
# Part 2: helper functions of the array-function handlers


def obj_wire(E, o):
    if isinstance(o, np.ndarray):
        if isinstance(o, E.unyt_array):
            return ["A"] + E.unit_wire(o.units)
        return ["A-"]
    if isinstance(o, (int, float, complex, np.number)) and not isinstance(o, np.ndarray):
        return ["N"]
    out = ["["]
    for x in o:
        out += obj_wire(E, x)
    return out + ["]"]


def helper_cases(E, tier):
    """object trees for _validate_units_consistency(_v2) and unit pairs for _array_comp_helper"""
    U = ["m", "cm", "s", "J", "N*m", "dimensionless", "percent", "K", "degC", "kg*m**2/s**2", "rad"]
    leaves = ["np.array([1.0, 2.0])", "2.5", "0", "np.zeros(2)"] + [f"unyt_array([1.0, 2.0], {u!r})" for u in U] + \
             [f"unyt_quantity(3.0, {u!r})" for u in U[:6]]
    trees = []
    for x, y in itertools.product(leaves, leaves):
        trees.append(f"({x}, {y})")
    for x, y, z in itertools.product(leaves[4:9], leaves[:8], leaves[4:10]):
        trees.append(f"({x}, [{y}, {z}])")
        trees.append(f"[[{x}, {y}], [{z}]]")
    if tier == "quick":
        trees = trees[:: 3]
    # longer collections: the odd one out in every position
    for n in (4, 5, 7):
        for odd in range(n):
            for base, other in (("m", "s"), ("J", "dimensionless"), ("dimensionless", "percent")):
                items = [f"unyt_array([1.0, 2.0], {(other if i == odd else base)!r})" for i in range(n)]
                trees.append("(" + ", ".join(items) + ")")
                trees.append("[" + ", ".join(items[:2]) + ", [" + ", ".join(items[2:]) + "]]")
    return U, leaves, trees


def run_helpers(chk, E, tier):
    import unyt._array_functions as af

    U, leaves, trees = helper_cases(E, tier)
    lines, exp = [], []
    for t in trees:
        objs = E.ev(t)
        try:
            r = ("ok", af._validate_units_consistency(objs))
        except Exception as e:  # noqa: BLE001
            r = ("err", classify_exc(e))
        lines.append("\t".join(["c01.validate"] + [f for o in objs for f in obj_wire(E, o)]))
        exp.append(("validate", t, r))
        # direct oracle on the helper: different dimensions among the units must be refused
        dims = {str(u.dimensions) for u in af.get_units(objs)}
        chk.case(("validate", t))
        if len(dims) > 1 and r[0] == "ok":
            chk.fail("helper|validate", f"_validate_units_consistency{t} accepted units of different dimension",
                     {"python": ENV_SRC + f"import unyt._array_functions as af\ntry:\n    af._validate_units_consistency({t})\nexcept Exception:\n    pass\nelse:\n    raise AssertionError('accepted')\n"})
    for ref in ("m", "s", "dimensionless"):
        for x in leaves:
            for extra in (None, "2.5", "unyt_quantity(1.0, 's')"):
                args = [x] if extra is None else [x, extra]
                src = f"af._validate_units_consistency_v2(Unit({ref!r}), {', '.join(args)})"
                objs = [E.ev(a) for a in args]
                try:
                    af._validate_units_consistency_v2(E.unyt.Unit(ref), *objs)
                    r = ("ok", None)
                except Exception as e:  # noqa: BLE001
                    r = ("err", classify_exc(e))
                lines.append("\t".join(["c01.validate_v2"] + E.unit_wire(E.unyt.Unit(ref)) + [f for o in objs for f in obj_wire(E, o)]))
                exp.append(("validate_v2", src, r))
                chk.case(("validate_v2", src))
    for x, y in itertools.product([None] + U, [None] + U):
        a = E.ev(f"unyt_array([1.0, 2.0], {x!r})") if x else np.array([1.0, 2.0])
        b = E.ev(f"unyt_array([1.0, 2.0], {y!r})") if y else np.array([1.0, 2.0])
        try:
            ra, rb = af._array_comp_helper(a, b)
            r = ("ok", (ra, rb))
        except Exception as e:  # noqa: BLE001
            r = ("err", classify_exc(e))
        lines.append("\t".join(["c01.comp"] + (["u"] + E.unit_wire(a.units) if x else ["-"]) + (["u"] + E.unit_wire(b.units) if y else ["-"])))
        exp.append(("comp", (x, y), r))
        chk.case(("comp", x, y))
        if x and y and str(a.units.dimensions) != str(b.units.dimensions) and r[0] == "ok" and "1" not in (str(a.units.dimensions), str(b.units.dimensions)):
            chk.fail("helper|comp", f"_array_comp_helper accepted {x} against {y}", {"python": ENV_SRC + f"import unyt._array_functions as af\ntry:\n    af._array_comp_helper(unyt_array([1.0], {x!r}), unyt_array([1.0], {y!r}))\nexcept Exception:\n    pass\nelse:\n    raise AssertionError('accepted')\n"})
    try:
        reps = core.Model("drv_c01").ask(lines)
    except Exception as e:  # noqa: BLE001
        chk.disagree("driver", repr(e))
        return
    for rep, (op, what, r) in zip(reps, exp):
        chk.count("model:" + op)
        if rep[0] == "err":
            if r[0] != "err" or r[1] != rep[1]:
                chk.disagree("c01." + op, f"{what}: model raises {rep[1]}, implementation {r}")
            continue
        if rep[0] != "ok" or r[0] != "ok":
            chk.disagree("c01." + op, f"{what}: model {rep}, implementation {r}")
            continue
        if op == "validate":
            ru = unit_tuple(r[1])
            if not (core.close(ru[0], core.b2f(rep[1]), 1e-9) and ru[2] == rep[3]):
                chk.disagree("c01.validate", f"{what}: model unit {rep[1:]}, implementation {ru}")
        if op == "comp":
            ra, rb = r[1]
            x, y = what
            if any(u and E.unyt.Unit(u).base_offset for u in (x, y)):
                continue  # offset units: the affine part is C03/C08's business
            if rep[1] == "convert":
                f = core.b2f(rep[2])
                if not near(np.asarray(rb), np.array([1.0, 2.0]) * f):
                    chk.disagree("c01.comp", f"{what}: model factor {f}, implementation {rb}")
            else:
                if not near(np.asarray(rb), np.array([1.0, 2.0])):
                    chk.disagree("c01.comp", f"{what}: model {rep[1]}, implementation rescaled b to {rb}")


# ----------------------------------------------------------------------------------------
# Part 3: array functions with >= 2 value operands

# (function, {argument name: role}, call template over P (primary, unit-carrying) and S (secondary),
#  group of argument names whose values meet (as in Ref.C01.mergingFunctions), family: merge|compare)
AF = [
    ("concatenate", "np.concatenate([P, S])", ["arrays"], "merge"),
    ("concatenate", "np.concatenate([P, P, P, P, S])", ["arrays"], "merge"),
    ("concatenate", "np.concatenate([P, S, P, P, P])", ["arrays"], "merge"),
    ("stack", "np.stack([P, S])", ["arrays"], "merge"),
    ("vstack", "np.vstack([P, P, P, S, P])", ["tup"], "merge"),
    ("where", "np.where([True, False, True], S, P)", ["x", "y"], "merge"),
    ("vstack", "np.vstack([P, S])", ["tup"], "merge"),
    ("hstack", "np.hstack([P, S])", ["tup"], "merge"),
    ("dstack", "np.dstack([P, S])", ["tup"], "merge"),
    ("column_stack", "np.column_stack([P, S])", ["tup"], "merge"),
    ("block", "np.block([P, S])", ["arrays"], "merge"),
    ("where", "np.where([True, False, True], P, S)", ["x", "y"], "merge"),
    ("choose", "np.choose([0, 1, 0], [P, S])", ["choices"], "merge"),
    ("select", "np.select([np.array([True, False, False])], [P], default=Sq)", ["choicelist", "default"], "merge"),
    ("select", "np.select([np.array([True, False, False]), np.array([False, True, False])], [P, S], default=P[0])", ["choicelist"], "merge"),
    ("insert", "np.insert(P, 0, Sq)", ["arr", "values"], "merge"),
    ("insert", "np.insert(P, [0, 1, 2], S)", ["arr", "values"], "merge"),
    ("union1d", "np.union1d(P, S)", ["ar1", "ar2"], "merge"),
    ("intersect1d", "np.intersect1d(P, S)", ["ar1", "ar2"], "merge"),
    ("setdiff1d", "np.setdiff1d(P, S)", ["ar1", "ar2"], "merge"),
    ("isin", "np.isin(P, S)", ["element", "test_elements"], "merge"),
    ("searchsorted", "np.searchsorted(P, S)", ["a", "v"], "merge"),
    ("searchsorted", "np.searchsorted(P, Sq)", ["a", "v"], "merge"),
    ("clip", "np.clip(P, Sq, None)", ["a", "a_min", "a_max"], "merge"),
    ("clip", "np.clip(P, Sq, Sq * 3)", ["a", "a_min", "a_max"], "merge"),
    ("clip", "np.clip(P, S, None)", ["a", "a_min", "a_max"], "merge"),
    ("fill_diagonal", "(lambda d: (np.fill_diagonal(d, Sq), d)[1])(np.outer(P, [1.0, 1.0, 1.0]))", ["a", "val"], "merge"),
    ("place", "(lambda d: (np.place(d, [True, False, False], S), d)[1])(P)", ["arr", "vals"], "merge"),
    ("put", "(lambda d: (np.put(d, [0], Sq), d)[1])(P)", ["a", "v"], "merge"),
    ("put", "(lambda d: (np.put(d, [0, 1, 2], S), d)[1])(P)", ["a", "v"], "merge"),
    ("putmask", "(lambda d: (np.putmask(d, [True, False, False], S), d)[1])(P)", ["a", "values"], "merge"),
    ("put_along_axis", "(lambda d: (np.put_along_axis(d, np.array([0]), Sq, 0), d)[1])(P)", ["arr", "values"], "merge"),
    ("copyto", "(lambda d: (np.copyto(d, S, where=[True, False, False]), d)[1])(P)", ["dst", "src"], "merge"),
    ("linspace", "np.linspace(P[0], Sq, 3)", ["start", "stop"], "merge"),
    ("geomspace", "np.geomspace(P[0], Sq, 3)", ["start", "stop"], "merge"),
    ("interp", "np.interp(S, P, np.array([1.0, 2.0, 3.0]))", ["x", "xp"], "merge"),
    ("interp", "np.interp(np.array([-1.0, 2.0]), np.array([1.0, 2.0, 3.0]), P, left=Sq)", ["fp", "left"], "merge"),
    ("interp", "np.interp(np.array([2.0, 9.0]), np.array([1.0, 2.0, 3.0]), P, right=Sq)", ["fp", "right"], "merge"),
    ("histogram", "np.histogram(P, bins=2, range=(Sq * 0, Sq * 9))", ["a", "range"], "merge"),
    ("histogram", "np.histogram(P, bins=np.sort(S))", ["a", "bins"], "merge"),
    ("histogram2d", "np.histogram2d(P, P, bins=2, range=[[Sq * 0, Sq * 9], [Sq * 0, Sq * 9]])", ["x", "y", "range"], "merge"),
    ("histogram2d", "np.histogram2d(P, P, bins=[np.sort(S), np.sort(S)])", ["x", "y", "bins"], "merge"),
    ("histogramdd", "np.histogramdd([P, P], bins=[np.sort(S), np.sort(S)])", ["sample", "bins"], "merge"),
    ("histogramdd", "np.histogramdd([P, P], bins=2, range=[[Sq * 0, Sq * 9], [Sq * 0, Sq * 9]])", ["sample", "range"], "merge"),
    ("histogram_bin_edges", "np.histogram_bin_edges(P, bins=2, range=(Sq * 0, Sq * 9))", ["a", "range"], "merge"),
    ("histogram_bin_edges", "np.histogram_bin_edges(P, bins=np.sort(S))", ["a", "bins"], "merge"),
    ("diff", "np.diff(P, prepend=Sq)", ["a", "prepend"], "merge"),
    ("diff", "np.diff(P, append=Sq)", ["a", "append"], "merge"),
    ("ediff1d", "np.ediff1d(P, to_begin=Sq)", ["ary", "to_begin"], "merge"),
    ("ediff1d", "np.ediff1d(P, to_end=Sq)", ["ary", "to_end"], "merge"),
    ("pad", "np.pad(P, 1, constant_values=Sq)", ["array", "constant_values"], "merge"),
    ("pad", "np.pad(P, 1, mode='linear_ramp', end_values=Sq)", ["array", "end_values"], "merge"),
    ("isclose", "np.isclose(P, S)", ["a", "b"], "compare"),
    ("allclose", "np.allclose(P, S)", ["a", "b"], "compare"),
    ("array_equal", "np.array_equal(P, S)", ["a1", "a2"], "equal"),
    ("array_equiv", "np.array_equiv(P, S)", ["a1", "a2"], "equal"),
    # default-path functions and ndarray methods (no handler of unyt's): outside the table obligation
    ("append", "np.append(P, S)", ["arr", "values"], "merge"),
    ("setxor1d", "np.setxor1d(P, S)", ["ar1", "ar2"], "merge"),
    ("digitize", "np.digitize(P, np.sort(S))", ["x", "bins"], "merge"),
    ("nan_to_num", "np.nan_to_num(P * np.array([1.0, np.nan, 1.0]), nan=Sq)", ["x", "nan"], "merge"),
    ("method.put", "(lambda d: (d.put([0], Sq), d)[1])(P)", ["self", "values"], "merge"),
    ("method.fill", "(lambda d: (d.fill(Sq), d)[1])(P)", ["self", "value"], "merge"),
    ("method.searchsorted", "P.searchsorted(S)", ["self", "v"], "merge"),
    ("method.clip", "P.clip(Sq, None)", ["self", "min"], "merge"),
    # both bounds given: the three-input `clip` ufunc path of __array_ufunc__ (dead while `unyt.array.clip` is the
    # array function; seeded change C01-c revives it) — quantity, array and LIST-of-quantities bounds
    ("method.clip", "P.clip(Sq, Sq * 3)", ["self", "min", "max"], "merge"),
    ("method.clip", "P.clip(S, S * 3)", ["self", "min", "max"], "merge"),
    ("method.clip", "P.clip([Sq, Sq, Sq], (Sq * 3, Sq * 3, Sq * 3))", ["self", "min", "max"], "merge"),
    ("method.clip", "P.clip(list(S), list(S * 3))", ["self", "min", "max"], "merge"),
    ("method.clip", "P[0].clip([Sq], [Sq * 3])", ["self", "min", "max"], "merge"),
    ("clip", "np.clip(P, [Sq, Sq, Sq], [Sq * 3, Sq * 3, Sq * 3])", ["a", "a_min", "a_max"], "merge"),
    ("clip", "np.clip(P, list(S), list(S * 3))", ["a", "a_min", "a_max"], "merge"),
    ("method.flat-assign", "(lambda d: (d.flat.__setitem__(0, Sq), d)[1])(P)", ["self", "value"], "merge"),
    ("unyt.uconcatenate", "unyt.uconcatenate([P, S])", ["arrs"], "merge"),
    ("unyt.uvstack", "unyt.uvstack([P, S])", ["arrs"], "merge"),
    ("unyt.uhstack", "unyt.uhstack([P, S])", ["arrs"], "merge"),
    ("unyt.ustack", "unyt.ustack([P, S])", ["arrs"], "merge"),
    ("unyt.uunion1d", "unyt.uunion1d(P, S)", ["arr1", "arr2"], "merge"),
    ("unyt.uintersect1d", "unyt.uintersect1d(P, S)", ["arr1", "arr2"], "merge"),
]

# handlers that check with _validate_units_consistency_v2 (plain numbers pass unchecked)
V2_FUNCS = {"clip", "fill_diagonal", "insert", "place", "put", "put_along_axis", "putmask", "searchsorted", "select"}

AF_KINDS = ["same", "samedim", "diffdim", "dimless", "percent", "scalar", "barearr", "zero_arr", "zero_scalar", "listq_other",
            "partzero_arr", "partzero_unyt_other", "listq_partzero_other"]


def run_array_functions(chk, E, tier, seed, handled):
    fams = FAMILIES_QUICK if tier == "thorough" else [FAMILIES_QUICK[i] for i in (0, 2, 3)]
    for fname, tmpl, group, family in AF:
        for fam in fams:
            uA, uA2, uB = fam
            for kind in AF_KINDS:
                for swap in (False, True):
                    P = operand_src("same", "a", "v", fam)
                    S = operand_src(kind, "b", "v", fam)
                    Sq = operand_src(kind, "b", "s", fam)
                    if kind in ("barearr", "zero_arr"):
                        Sq = "0.5" if kind == "barearr" else "0.0"
                    if kind == "partzero_arr":
                        Sq = "np.array([0.0, 3.0, 2.0])"      # an array-valued side argument that contains a zero
                    if kind == "partzero_unyt_other":
                        Sq = f"unyt_array(np.array([0.0, 3.0, 2.0]), {uB!r})"
                    if S is None or (Sq is None and "Sq" in tmpl):
                        continue
                    if Sq is None:
                        Sq = "None"
                    if swap:
                        # the unit-carrying primary in the secondary's place: only for symmetric templates
                        if "Sq" in tmpl or "P[0]" in tmpl or "lambda d" in tmpl or "np.sort(S)" in tmpl or "list(S" in tmpl or ".clip(S" in tmpl or kind in ("scalar", "zero_scalar"):
                            continue
                        setup = f"P = {S}\nS = {P}\nSq = None\n"
                    else:
                        setup = f"P = {P}\nS = {S}\nSq = {Sq}\n"
                    uses_sq = "Sq" in tmpl
                    ns = dict(E.ns)
                    exec(setup, ns)
                    sec = ns["Sq"] if uses_sq else ns["S"]
                    prim = ns["P"]
                    before = (snap(E, ns["P"]), snap(E, ns["S"]))
                    da, db = dims_of(E, prim), dims_of(E, sec)
                    try:
                        with np.errstate(all="ignore"):
                            res = eval(tmpl, ns)
                        st = ("ok", res)
                    except Exception as e:  # noqa: BLE001
                        st = ("err", e)
                    chk.case(("af", fname, tmpl, kind, fam, swap),
                             {"call": tmpl, "setup": setup, "outcome": st[0] if st[0] == "ok" else type(st[1]).__name__} if len(chk.samples) < 12 and kind == "diffdim" else None)
                    chk.count("af:" + ("returned" if st[0] == "ok" else type(st[1]).__name__))
                    if len(da | db) <= 1:
                        continue
                    zero_bare = (is_bare(E, sec) and all_zero(sec)) or (is_bare(E, prim) and all_zero(prim))
                    dimless = da == {"1"} or db == {"1"}
                    if zero_bare:
                        continue  # documented exception (whether it raises or adopts)
                    if family == "compare" and dimless:
                        continue
                    if family == "equal":
                        if st[0] == "ok" and st[1] is not False and st[1] is not np.False_:
                            chk.fail(f"arrayfunc|{fname}|equal-true", f"{tmpl} answered {st[1]!r} for operands of different dimension",
                                     {"python": ENV_SRC + setup + f"assert not {tmpl}\n"})
                        continue
                    if st[0] == "ok":
                        argname = group[-1]
                        skind = "bare" if is_bare(E, sec) else "quantity"
                        if any(isinstance(x_, (list, tuple)) and not is_bare(E, x_) for x_ in (prim, sec)):
                            skind = "quantity-list"
                        key = f"arrayfunc|{fname}|{argname}|{skind}"
                        if fname in V2_FUNCS and isinstance(sec, (int, float)):
                            # one defect: _validate_units_consistency_v2 takes plain numbers to carry the reference unit
                            key = "arrayfunc|validate_v2|bare-number"
                        chk.count("oracle:FAIL " + key)
                        chk.fail(key, f"{tmpl} with operands of dimensions {sorted(da)} and {sorted(db)} returned {str(st[1])[:40]!r}",
                                 {"python": ENV_SRC + setup + "try:\n    r = " + tmpl + "\nexcept Exception:\n    r = None\nelse:\n    raise AssertionError(f'returned {r!r} although the dimensions differ')\n",
                                  "function": fname, "argument": argname})
                    else:
                        after = (snap(E, ns["P"]), snap(E, ns["S"]))
                        if after != before:
                            key = f"arrayfunc|{fname}|raised-but-operand-changed"
                            chk.fail(key, f"{tmpl} raised {type(st[1]).__name__} but an operand changed",
                                     {"python": ENV_SRC + setup + "_b = (np.asarray(P).tobytes(), str(getattr(P, 'units', None)))\ntry:\n    " + tmpl + "\nexcept Exception:\n    pass\nassert (np.asarray(P).tobytes(), str(getattr(P, 'units', None))) == _b\n"})


# ----------------------------------------------------------------------------------------
# Part 4: __setitem__ and .to()

EM_PAIRS = {("C", "statC"), ("A", "statA"), ("T", "G"), ("V", "statV"), ("ohm", "statohm"), ("Wb", "Mx")}


def run_setitem_to(chk, E, tier, seed):
    bydim = gen.names_by_dim()
    lut = gen.extract()["lut"]
    reps = []
    for d, names in sorted(bydim.items()):
        good = [n for n in names if lut[n][1] == 0] or names
        reps.append(good[0])
        if len(good) > 1:
            reps.append(good[1])
    extra = ["dimensionless", "percent", "degC", "degF", "K", "J", "N*m", "m/m", "rad", "degree"]
    units = reps + extra
    if tier == "quick":
        rng = chk.rng
        pairs = [(a, b) for a in units[:: 2] for b in units[1:: 3]] + [(a, b) for a in extra for b in extra]
    else:
        pairs = list(itertools.product(units, units))
    import unyt.dimensions as ud

    em_dims = set()
    for a, b in EM_PAIRS:
        em_dims.add(frozenset((str(E.unyt.Unit(a).dimensions), str(E.unyt.Unit(b).dimensions))))
    lines, exp = [], []
    for a, b in pairs:
        ua, ub = E.unyt.Unit(a), E.unyt.Unit(b)
        da, db = str(ua.dimensions), str(ub.dimensions)
        em = frozenset((da, db)) in em_dims
        # __setitem__: x[0] = quantity(b); x[:] = array(b); bare values
        for form, vsrc in (("scalar", f"unyt_quantity(5.0, {b!r})"), ("slice", f"unyt_array([5.0, 6.0, 7.0], {b!r})")):
            setup = f"x = unyt_array([1.0, 2.0, 3.0], {a!r})\nv = {vsrc}\n"
            stmt = "x[0] = v" if form == "scalar" else "x[:] = v"
            ns = dict(E.ns)
            exec(setup, ns)
            before = snap(E, ns["x"])
            try:
                exec(stmt, ns)
                st = ("ok", None)
            except Exception as e:  # noqa: BLE001
                st = ("err", e)
            after = snap(E, ns["x"])
            chk.case(("setitem", form, a, b))
            chk.count("setitem:" + ("stored" if st[0] == "ok" else type(st[1]).__name__))
            if not em:
                lines.append("\t".join(["c01.setitem"] + E.unit_wire(ua) + ["u"] + E.unit_wire(ub)))
                exp.append(("setitem", (a, b, form), st, before, after))
            if da != db and not em:
                if st[0] == "ok":
                    if ub == E.unyt.Unit():       # compares equal to NULL_UNIT: the documented-in-code shortcut
                        key = "setitem|dimensionless-quantity"
                    else:
                        key = f"setitem|quantity|{form}" + ("|dimensionless-scaled" if db == "1" else "")
                    chk.count("oracle:FAIL " + key)
                    chk.fail(key, f"x[{a}] {stmt} with v in {b}: stored although the dimensions differ",
                             {"python": ENV_SRC + setup + "try:\n    " + stmt + "\nexcept Exception:\n    pass\nelse:\n    raise AssertionError(f'stored: {x!r}')\n"})
                elif after != before:
                    chk.fail("setitem|raised-but-changed", f"x[{a}] {stmt} raised but x changed",
                             {"python": ENV_SRC + setup + "_b = x.tobytes()\ntry:\n    " + stmt + "\nexcept Exception:\n    pass\nassert x.tobytes() == _b and str(x.units) == " + repr(str(ua)) + "\n"})
        # .to()
        setup = f"x = unyt_array([1.0, 2.0, 3.0], {a!r})\n"
        ns = dict(E.ns)
        exec(setup, ns)
        before = snap(E, ns["x"])
        res = {}
        for rn, call in (("to", f"x.to({b!r})"), ("in_units", f"x.in_units({b!r})"), ("to_value", f"x.to_value({b!r})"),
                         ("convert_to_units", f"x.copy().convert_to_units({b!r})")):
            try:
                res[rn] = ("ok", eval(call, ns))
            except Exception as e:  # noqa: BLE001
                res[rn] = ("err", e)
            chk.case(("to", rn, a, b))
            if da != db and not em and res[rn][0] == "ok":
                chk.fail(f"to|{rn}", f"{call} from {a} returned although the dimensions differ",
                         {"python": ENV_SRC + setup + "try:\n    r = " + call + "\nexcept Exception:\n    pass\nelse:\n    raise AssertionError(f'returned {r!r}')\n"})
        if snap(E, ns["x"]) != before:
            chk.fail("to|operand-changed", f"x.to({b!r}) changed x", {"python": ENV_SRC + setup + f"_b = x.tobytes()\ntry:\n    x.to({b!r})\nexcept Exception:\n    pass\nassert x.tobytes() == _b\n"})
        if not em:
            lines.append("\t".join(["c01.to"] + E.unit_wire(ua) + E.unit_wire(ub)))
            exp.append(("to", (a, b), res["to"], None, None))
    # bare values into a dimensional array
    for a in ("m", "K", "dimensionless"):
        for vsrc, vk in (("7.0", "bare-nonzero"), ("0.0", "bare-zero"), ("np.array([7.0, 8.0, 9.0])", "bare-nonzero"),
                         ("np.array([0.0, 8.0, 9.0])", "bare-nonzero"), ("np.array([0.0, 0.0, 0.0])", "bare-zero")):
            setup = f"x = unyt_array([1.0, 2.0, 3.0], {a!r})\nv = {vsrc}\n"
            stmt = "x[:] = v" if "array" in vsrc else "x[0] = v"
            ns = dict(E.ns)
            exec(setup, ns)
            try:
                exec(stmt, ns)
                stored = True
            except Exception:  # noqa: BLE001
                stored = False
            chk.case(("setitem-bare", a, vsrc))
            if stored and a != "dimensionless" and vk == "bare-nonzero":
                chk.count("oracle:FAIL setitem|bare-nonzero")
                chk.fail("setitem|bare-nonzero", f"x[{a}] {stmt} with v = {vsrc}: a non-zero bare number was stored into a dimensional array",
                         {"python": ENV_SRC + setup + "try:\n    " + stmt + "\nexcept Exception:\n    pass\nelse:\n    raise AssertionError(f'stored: {x!r}')\n"})
    try:
        reps_ = core.Model("drv_c01").ask(lines)
    except Exception as e:  # noqa: BLE001
        chk.disagree("driver", repr(e))
        return
    for rep, (op, what, st, before, after) in zip(reps_, exp):
        chk.count("model:" + op)
        if rep[0] == "err":
            if st[0] != "err" or classify_exc(st[1]) != rep[1]:
                chk.disagree("c01." + op, f"{what}: model raises {rep[1]}, implementation {'returned' if st[0] == 'ok' else type(st[1]).__name__}")
            continue
        if st[0] != "ok":
            chk.disagree("c01." + op, f"{what}: model {rep}, implementation raised {type(st[1]).__name__}")
            continue
        if op == "setitem":
            a, b, form = what
            got = values_of(after)
            src = np.array([5.0, 6.0, 7.0]) if form == "slice" else np.array([5.0])
            f = 1.0 if rep[1] == "raw" else core.b2f(rep[2])
            ub = E.unyt.Unit(b)
            ua = E.unyt.Unit(a)
            want = src * f
            if ub.base_offset or ua.base_offset:
                continue  # offset units: the affine part is C03/C08's business
            n = len(src)
            if not near(got[:n], want):
                chk.disagree("c01.setitem", f"{what}: model stores {rep[1:]} -> {want.tolist()}, implementation stored {got[:n].tolist()}")
        if op == "to":
            a, b = what
            ua, ub = E.unyt.Unit(a), E.unyt.Unit(b)
            if ua.base_offset or ub.base_offset:
                continue
            if not near(np.asarray(st[1]), np.array([1.0, 2.0, 3.0]) * core.b2f(rep[1])):
                chk.disagree("c01.to", f"{what}: model factor {core.b2f(rep[1])}, implementation {st[1]}")


# ----------------------------------------------------------------------------------------
# Part 0: translator cross-check; reference rows; Unit + Unit


def crosscheck_tables(chk, E, X, XH):
    import unyt.array as ua
    import unyt._array_functions as af

    M = core.Model("drv_c01")
    reg = ua.unyt_array._ufunc_registry
    keys = [getattr(k, "__name__", repr(k)) for k in reg]
    reps = M.ask([f"c01.dump.rule\t{k}" for k in keys] + ["c01.dump.sets"])
    rule_names = {"_preserve_units": "preserve", "_difference_units": "difference", "_multiply_units": "multiply",
                  "_divide_units": "divide", "_return_without_unit": "return_without_unit", "_passthrough_unit": "passthrough",
                  "_power_unit": "power", "_sqrt_unit": "sqrt", "_cbrt_unit": "cbrt", "_square_unit": "square",
                  "_reciprocal_unit": "reciprocal", "_arctan2_unit": "arctan2", "_comparison_unit": "comparison",
                  "_invert_units": "invert", "_bitop_units": "bitop", "_floor_divide_units": "floor_divide"}
    for (k, v), rep in zip(reg.items(), reps):
        kn = getattr(k, "__name__", repr(k))
        want = rule_names.get(v.__name__, "other:" + v.__name__)
        chk.case(("dump.rule", kn))
        if rep != ["ok", want]:
            chk.disagree("c01.dump.rule", f"{kn}: generated table says {rep}, live registry {v.__name__}")
    sets = reps[-1]
    live = [",".join(o.__name__ for o in ua.trigonometric_operators),
            ",".join(f"{k.__name__}:{v}" for k, v in ua.multiple_output_operators.items()),
            ",".join(f"{k.__name__}:{f(0)}:{f(1)}" for k, f in ua.POWER_MAPPING.items()),
            ",".join(getattr(ua, n).__name__ for n in ("multiply", "divide", "power", "equal", "not_equal", "clip", "modf", "divmod_")),
            "1" if isinstance(ua.clip, np.ufunc) else "0",
            ",".join(o.__name__ for o in ua.unary_operators), ",".join(o.__name__ for o in ua.binary_operators)]
    if sets[1:] != live:
        chk.disagree("c01.dump.sets", f"generated operator sets {sets[1:]} differ from the live ones {live}")
    # handler checks: the ast table against behaviour — a function the table calls checked must
    # refuse a mismatch at those arguments (done by the array-function enumeration); here: names
    handled = sorted(XH["handled"])
    reps = M.ask([f"c01.dump.checks\t{h}" for h in handled])
    for h, rep in zip(handled, reps):
        want = ";".join(k + ":" + ",".join(ns) + ":" + ("1" if b else "0") + ("1" if t else "0") for k, ns, b, t in XH["checks"].get(h, []))
        chk.case(("dump.checks", h))
        if rep[0] != "ok" or (rep[1] if len(rep) > 1 else "") != want:
            chk.disagree("c01.dump.checks", f"{h}: driver {rep}, translator {want}")
    # the ast facts about the dispatcher's source (write sites, input aliases, branch tuples)
    try:
        XW = json.load(open(os.path.join(core.BUILD, "extract_c01_writes.json"), encoding="utf-8"))
        rep = M.ask(["c01.dump.writes"])[0]
        want = [";".join(f"{k}:{b}" for _l, k, b, _e in XW["dispatcher_sites"]), ",".join(XW["dispatcher_aliases"]),
                ",".join(X["rescale_tuple"]), ";".join(f"{a}>{b}" for a, b in X["mismatch_fallback"])]
        chk.case(("dump.writes",))
        if rep[1:] != want:
            chk.disagree("c01.dump.writes", f"driver {rep[1:]} differs from the translator's {want}")
        live_tuple = [f.__name__ for f in (ua._preserve_units, ua._comparison_unit, ua._arctan2_unit, ua._difference_units)]
        if not set(live_tuple) <= set(X["rescale_tuple"]):
            chk.count("rescale-tuple-lacks-a-checked-rule")
    except Exception as e:  # noqa: BLE001
        chk.disagree("c01.dump.writes", repr(e))
    # the process-wide state of the dispatcher (memo rows) regenerated from the source; and, independently of the
    # ast pass, the live module: containers of unyt.array whose contents change while ufuncs are being dispatched
    try:
        XS = json.load(open(os.path.join(core.BUILD, "extract_c01_state.json"), encoding="utf-8"))
        rep = M.ask(["c01.dump.state"])[0]
        want = [";".join(f"{n}:{b}:{','.join(fs)}:{mx}" for n, b, fs, mx in XS["memos"]), ",".join(XS["unmodelled"])]
        chk.case(("dump.state",))
        if rep[1:3] != want:
            chk.disagree("c01.dump.state", f"driver {rep[1:3]} differs from the translator's {want}")
        if rep[3:] != ["1"]:
            chk.disagree("c01.dump.state", f"the dispatcher keeps process-wide state whose key does not determine what it stands for: {want}")
        import copy
        import types

        def census():
            out = {}
            for n, v in vars(ua).items():
                if isinstance(v, (dict, list, set)) and not n.startswith("__"):
                    try:
                        out[n] = (len(v), repr(sorted(map(repr, v)))[:20000])
                    except Exception:  # noqa: BLE001
                        out[n] = (len(v), "")
            return out
        before = census()
        x, y, z = E.unyt_array([1.0, 2.0], "km"), E.unyt_quantity(3.0, "hr"), E.unyt_quantity(2.0, "dimensionless")
        for f in (np.less, np.equal, np.multiply, np.add, np.maximum, np.arctan2):
            for p_, q_ in ((x, z), (z, x), (x, y), (x, x), (x, 0.0)):
                try:
                    f(p_, q_)
                except Exception:  # noqa: BLE001
                    pass
        after = census()
        grew = sorted(n for n in after if after[n] != before.get(n))
        chk.case(("live-state-census", len(after)))
        if set(grew) - {n for n, _b, _f, _m in XS["memos"]} - set(XS["unmodelled"]):
            chk.disagree("c01.dump.state", f"module-level containers of unyt.array changed while ufuncs were dispatched but the ast pass did not report them: {grew}")
    except Exception as e:  # noqa: BLE001
        chk.disagree("c01.dump.state", repr(e))
    live_handled = sorted((("linalg." if (f.__module__ or "").startswith("numpy.linalg") else "fft." if (f.__module__ or "").startswith("numpy.fft") else "") + f.__name__) for f in af._HANDLED_FUNCTIONS)
    if live_handled != handled:
        chk.disagree("c01.handled", "handled-function list differs from the live _HANDLED_FUNCTIONS")
    # Unit + Unit, Unit - Unit always raise (unit_object.py:341-361)
    U = E.unyt.Unit
    for a, b in (("m", "m"), ("m", "s"), ("dimensionless", "m")):
        for opn in ("add", "sub", "iadd", "isub"):
            chk.case(("unit-op", opn, a, b))
            try:
                getattr(operator, opn)(U(a), U(b))
                chk.fail(f"unit|{opn}", f"Unit({a!r}) {opn} Unit({b!r}) returned", {"python": ENV_SRC + f"try:\n    operator.{opn}(Unit({a!r}), Unit({b!r}))\nexcept Exception:\n    pass\nelse:\n    raise AssertionError('returned')\n"})
            except Exception:  # noqa: BLE001
                pass
    return M


def check_reference_rows(chk, M):
    """the exclusion lists of the Lean reference and the known-findings list must correspond"""
    rep = M.ask(["c01.ref.unchecked", "c01.ref.merging", "c01.ref.ufuncs"])
    rows = [r for r in rep[0][1].split(";") if r]
    ufs = [u for u in (rep[0][2] if len(rep[0]) > 2 else "").split(",") if u]
    known = {k["key"] for k in core.load_known() if k["property"] == "C01" and k.get("status") == "known"}
    for r in rows:
        fn, args = r.split(":")
        arg = args.split(",")[-1]
        if not any(k.startswith(f"arrayfunc|{fn}|{arg}|") for k in known):
            chk.disagree("c01.ref.unchecked", f"excluded row {r} has no known finding arrayfunc|{fn}|{arg}|…")
    for u in ufs:
        if f"table|{u}" not in known:
            chk.disagree("c01.ref.unchecked", f"excluded ufunc {u} has no known finding table|{u}")
    return rep[2][1].split(","), [r.split(":") for r in rep[1][1].split(";")]


WITNESSES = [
    ("reduce|initial|bare", "reduce_initial_bare_counterexample",
     "r = np.add.reduce(unyt_array([1.0, 2.0, 3.0], 'm'), initial=1.0)\n"),
    ("table|divmod", "unchecked_ufuncs_counterexample",
     "r = np.divmod(unyt_array([1.0, 2.0, 3.0], 'm'), unyt_quantity(2.0, 's'))\n"),
    ("setitem|dimensionless-quantity", "C01_setitem_counterexample",
     "x = unyt_array([1.0, 2.0, 3.0], 'm')\nx[0] = unyt_quantity(5.0, 'dimensionless')\nr = x\n"),
    ("arrayfunc|validate_v2|bare-number", "C01_validateV2_counterexample",
     "r = np.clip(unyt_array([1.0, 2.0, 3.0], 'm'), 1.5, 2.5)\n"),
]


def run_witnesses(chk, E):
    """the witnesses of the counterexample theorems, on the real code"""
    for key, thm, body in WITNESSES:
        ns = dict(E.ns)
        chk.case(("witness", thm))
        try:
            exec(body, ns)
            returned = True
        except Exception:  # noqa: BLE001
            returned = False
        if returned:
            chk.fail(key, f"witness of {thm}: {body.strip().splitlines()[-1]} returned {str(ns.get('r'))[:40]!r}",
                     {"python": ENV_SRC + "try:\n" + "".join("    " + l + "\n" for l in body.splitlines()) + "except Exception:\n    pass\nelse:\n    raise AssertionError(f'returned {r!r}')\n", "theorem": thm})
        else:
            # the model's counterexample no longer reproduces: model and code have drifted apart
            chk.disagree("witness", f"{thm}: the real code now raises on the theorem's witness")


def _ufunc_worker(args):
    """one share of the ufunc enumeration in a forked worker; returns what the main check merges"""
    tier, seed, part, nparts, ref_ufuncs = args
    core.quiet_numpy()
    chk = core.Check("C01", tier, seed)
    E = Env()
    X = json.load(open(os.path.join(core.BUILD, "extract_c01_ufuncs.json"), encoding="utf-8"))
    X["registry_rows_d"] = {r[0]: {"rule": r[1], "ufunc": r[2], "nin": r[3], "nout": r[4]} for r in X["registry_rows"]}
    uf = Ufuncs(chk, E, X, tier, seed, ref_ufuncs)
    uf.enumerate()
    try:
        uf.execute(part, nparts)
    except Exception as e:  # noqa: BLE001
        import traceback
        chk.disagree("harness", f"ufunc worker {part} crashed: {traceback.format_exc()[-800:]}")
    # one failure per key is enough for the report (the first in enumeration order)
    fails = {}
    for key, what, replay in chk.failures:
        fails.setdefault(key, (key, what, replay))
    return {"evaluations": chk.evaluations, "nontrivial": chk.nontrivial, "hist": chk.hist, "samples": chk.samples,
            "failures": list(fails.values()), "disagreements": chk.disagreements[:200], "ndis": len(chk.disagreements)}


def run_ufuncs_parallel(chk, tier, seed, ref_ufuncs, nproc=4):
    import multiprocessing as mp

    ctx = mp.get_context("fork")
    with ctx.Pool(nproc) as pool:
        results = pool.map(_ufunc_worker, [(tier, seed, i, nproc, ref_ufuncs) for i in range(nproc)])
    for r in results:                      # merged in worker order: deterministic
        chk.evaluations += r["evaluations"]
        chk.nontrivial |= r["nontrivial"]
        for k, v in r["hist"].items():
            chk.count(k, v)
        for s_ in r["samples"]:
            if len(chk.samples) < 12:
                chk.samples.append(s_)
        chk.failures += r["failures"]
        chk.disagreements += r["disagreements"]
        if r["ndis"] > len(r["disagreements"]):
            chk.count("disagreements-not-listed", r["ndis"] - len(r["disagreements"]))


def run(tier, seed):
    chk = core.Check("C01", tier, seed)
    chk.proof = core.prove("C01", PROOF_MODULES, extra_targets=("drv_c01",), tier=tier)
    E = Env()
    try:
        X = json.load(open(os.path.join(core.BUILD, "extract_c01_ufuncs.json"), encoding="utf-8"))
        XH = json.load(open(os.path.join(core.BUILD, "extract_c01_handlers.json"), encoding="utf-8"))
    except Exception as e:  # noqa: BLE001
        chk.disagree("translator", f"translator output unreadable: {e!r}")
        return chk.finish("(translator output missing)")
    X["registry_rows_d"] = {r[0]: {"rule": r[1], "ufunc": r[2], "nin": r[3], "nout": r[4]} for r in X["registry_rows"]}
    try:
        M = crosscheck_tables(chk, E, X, XH)
        ref_ufuncs, ref_rows = check_reference_rows(chk, M)
    except Exception as e:  # noqa: BLE001
        chk.disagree("driver", repr(e))
        ref_ufuncs, ref_rows = ["add", "subtract", "less", "greater", "less_equal", "greater_equal", "equal", "not_equal", "maximum",
                                "minimum", "fmax", "fmin", "hypot", "remainder", "mod", "fmod", "divmod", "arctan2", "nextafter"], []
    # the reference rows must be among the catalogue's templates (so each row is exercised)
    cat = {(f, tuple(g)) for f, _t, g, _fam in AF}
    for fn, args in ref_rows:
        if (fn, tuple(args.split(","))) not in cat:
            chk.disagree("c01.ref.merging", f"reference row {fn}:{args} has no call template in the harness catalogue")
    run_ufuncs_parallel(chk, tier, seed, ref_ufuncs)
    run_helpers(chk, E, tier)
    run_array_functions(chk, E, tier, seed, XH["handled"])
    run_setitem_to(chk, E, tier, seed)
    run_witnesses(chk, E)
    rule = ("enumerated: every _ufunc_registry entry x {__call__, out=, outer, operator, in-place operator, reduce, accumulate, "
            "reduce(initial=), reduceat} x ordered pairs of 24 operand kinds (the property's nine and variants incl. partly-zero bare arrays, lists and lists of quantities) x 6 dimension "
            "families x 5 shape combinations (quick: one family/shape per combination, all families for the "
            "commensurability-requiring ufuncs on the nine main kinds; thorough: all, plus every ordered pair of distinct "
            "registry dimensions); histories: every binary commensurability-requiring ufunc x {call, out=, operator, in-place} x 16 "
            "ordered kind pairs x families, the call made after 18 earlier calls (comparisons, ==/!=, multiply, divide, logical_and, "
            "zero partners; both operand orders) on the same operands in one interpreter, model = runHistory under the regenerated "
            "memo configuration, rule-memo growth compared with lru_cache cache_info; array functions with >= 2 value operands x 10 operand kinds; __setitem__/.to() over unit "
            "pairs; helper functions over object trees. distinct = distinct (operation, form, kinds, family, shape); every "
            "case executes the real library")
    chk.assumptions = [
        "NumPy's kernels and Python's operator dispatch are outside the model: the harness supplies whether NumPy refuses the stripped call and which ufunc an operator form reaches",
        "comparisons (ordering, ==, !=, isclose/allclose) with a dimensionless operand are treated as the documented 'dimensionless operand' exception",
        "electromagnetic CGS<->SI pairs are commensurable for .to()/__setitem__ (documented conversion; C03 covers it)",
        "history theorems assume exact dictionary-key equality (KeyEqExact: one registry, Unit.__eq__/__hash__ identify only equal units); which process-wide state exists is read from unyt/array.py by ast (state kept in other modules is exercised by the history cases only)",
    ]
    return chk.finish(rule)
