"""C19 — unit-checking helpers decide by physical equality, not by spelling.

Three things happen here (see design.d/C19.md):
  * the Lean theorems about `UnytModel/Testing.lean` are (re)built and audited (`core.prove`);
  * correspondence: every generated call is executed on the real library and on the compiled
    model (`drv_c19`), outcomes are compared (verdict / exception class / per-element booleans);
  * direct oracle: the documented contract evaluated with exact rationals (`fractions`) on the very
    inputs given to the real library, plus refusal/invariance/decorator predicates; it never
    consults the model.
"""
import itertools
import json
import os
from fractions import Fraction as F

import numpy as np

import core
import gen

PROOF_MODULES = ["UnytProofs.C19", "UnytProofs.Real.C19Allclose", "UnytProofs.Real.C19Affine", "UnytProofs.Real.C19AffineUnits", "UnytProofs.C19CompHelper"]

# relative safety margin around the tolerance threshold: cases closer than this (in exact
# arithmetic) are "borderline" — their verdict legitimately depends on floating-point rounding
BORDER = F(1, 10 ** 10)


# --------------------------------------------------------------------------------------
# argument descriptors: build the Python object, its source text, and its model wire form


class U:
    """a unit string with the data the oracle and the wire need (read once from the library)"""

    _cache = {}

    def __new__(cls, name):
        if name in cls._cache:
            return cls._cache[name]
        import unyt

        self = super().__new__(cls)
        u = unyt.Unit(name)
        self.name = name
        self.unit = u
        self.scale = float(u.base_value)
        self.offset = float(u.base_offset)
        self.dim = gen.dim_vec(u.dimensions)
        cls._cache[name] = self
        return self

    def wire(self):
        return f"{core.f2b(self.scale)}~{core.f2b(self.offset)}~{self.dim}"


def vals_wire(vals):
    return " ".join(str(core.f2b(v)) for v in vals)


class Arg:
    """kind ∈ qarr, qscalar, bare_list, bare_arr, bare_scalar, qlist, qtuple"""

    def __init__(self, kind, vals, unit=None, units=None):
        self.kind = kind
        self.vals = [float(v) for v in vals]
        self.unit = unit  # U or None
        self.units = units  # list of U for qlist

    def build(self):
        from unyt import unyt_array, unyt_quantity

        k = self.kind
        if k == "qarr":
            return unyt_array(np.array(self.vals, dtype="float64"), self.unit.name)
        if k == "qscalar":
            return unyt_quantity(self.vals[0], self.unit.name)
        if k == "bare_list":
            return list(self.vals)
        if k == "bare_arr":
            return np.array(self.vals, dtype="float64")
        if k == "bare_scalar":
            return self.vals[0]
        if k in ("qlist", "qtuple"):
            seq = [unyt_quantity(v, u.name) for v, u in zip(self.vals, self.units)]
            return seq if k == "qlist" else tuple(seq)
        raise ValueError(k)

    def expr(self):
        k = self.kind
        if k == "qarr":
            return f"unyt_array(np.array({self.vals!r}, dtype='float64'), {self.unit.name!r})"
        if k == "qscalar":
            return f"unyt_quantity({self.vals[0]!r}, {self.unit.name!r})"
        if k == "bare_list":
            return repr(self.vals)
        if k == "bare_arr":
            return f"np.array({self.vals!r}, dtype='float64')"
        if k == "bare_scalar":
            return repr(self.vals[0])
        items = ", ".join(f"unyt_quantity({v!r}, {u.name!r})" for v, u in zip(self.vals, self.units))
        return f"[{items}]" if k == "qlist" else f"({items},)"

    def wire(self):
        k = self.kind
        if k in ("qarr", "qscalar"):
            return f"Q~{1 if k == 'qscalar' else 0}~{vals_wire(self.vals)}~{self.unit.wire()}"
        if k in ("bare_list", "bare_arr", "bare_scalar"):
            return f"B~{1 if k == 'bare_scalar' else 0}~{vals_wire(self.vals)}"
        return "L~" + "|".join(f"{core.f2b(v)};{core.f2b(u.scale)};{core.f2b(u.offset)};{u.dim}" for v, u in zip(self.vals, self.units))

    # what the contract sees: (dimension, [exact SI magnitudes]).  A unit is (base_value s, base_offset o):
    # the reading v denotes the SI magnitude (v - o) * s (o = 0 for all but the temperature scales:
    # 0 degC = (0 + 273.15) * 1 K, 32 degF = (32 + 459.67) * 5/9 K)
    def si(self):
        if self.kind in ("qarr", "qscalar"):
            return self.unit.dim, [(F(v) - F(self.unit.offset)) * F(self.unit.scale) for v in self.vals]
        if self.kind in ("qlist", "qtuple"):
            dims = {u.dim for u in self.units}
            if len(dims) != 1:
                return None, None
            return dims.pop(), [(F(v) - F(u.offset)) * F(u.scale) for v, u in zip(self.vals, self.units)]
        return DIMLESS, [F(v) for v in self.vals]

    def has_offset(self):
        us = [self.unit] if self.unit else (self.units or [])
        return any(u.offset != 0 for u in us)

    def unit_for_bare_tol(self):
        """(dim, scale) of the unit a bare tolerance is read in when this is `desired`"""
        if self.kind in ("qarr", "qscalar"):
            return self.unit.dim, F(self.unit.scale)
        if self.kind in ("qlist", "qtuple"):
            return self.units[0].dim, F(self.units[0].scale)
        return DIMLESS, F(1)

    def is_scalar(self):
        return self.kind in ("qscalar", "bare_scalar")

    def shape_kind(self):
        return "0d" if self.is_scalar() else f"1d"


DIMLESS = "0,0,0,0,0,0,0,0"


class Tol:
    """a tolerance: bare number or quantity"""

    def __init__(self, val, unit=None):
        self.val = float(val)
        self.unit = unit

    def build(self):
        from unyt import unyt_quantity

        return self.val if self.unit is None else unyt_quantity(self.val, self.unit.name)

    def expr(self):
        return repr(self.val) if self.unit is None else f"unyt_quantity({self.val!r}, {self.unit.name!r})"

    def wire(self):
        return f"b~{core.f2b(self.val)}" if self.unit is None else f"q~{core.f2b(self.val)}~{self.unit.wire()}"

    def kind(self):
        if self.unit is None:
            return "bare"
        if self.unit.dim == DIMLESS:
            return "dimensionless" if self.unit.scale == 1.0 else "scaled-dimensionless"
        return "qty"


def broadcast(a, b):
    if len(a) == 1:
        return [(a[0], y) for y in b]
    if len(b) == 1:
        return [(x, b[0]) for x in a]
    if len(a) == len(b):
        return list(zip(a, b))
    return None


def spec_allclose(actual, desired, rtol, atol, bare_tol_unit=None, elems=None, atol_si_override=None):
    """The documented contract on exact rationals.  Returns (verdict, borderline, note) where
    verdict ∈ {True, False, 'RuntimeError', 'shape', None}; None = outside the contract's domain.
    Offset (temperature-scale) units are inside the domain when the comparison is affine-invariant:
    rtol == 0 and atol is a difference (bare, or in a zero-offset unit); the magnitudes compared are
    the absolute SI ones, `(v - base_offset) * base_value`.  With rtol != 0 "within rtol of the
    reference" depends on the zero of the scale, so no unit-independent contract exists: None.
    `bare_tol_unit` overrides the unit a bare atol is read in (used to classify what a deviating
    implementation did).  `elems`, when a list, receives one (verdict, borderline) per element pair."""
    if atol.unit is not None and atol.unit.offset != 0:
        return None, False, "offset-unit"
    if actual.has_offset() or desired.has_offset():
        if rtol.val != 0.0:
            return None, False, "offset-unit"
    da, sa = actual.si()
    dd, sd = desired.si()
    if da is None or dd is None:
        return None, False, "mixed-dimension list"
    if da != dd:
        if em_pair(da, dd) or em_pair(dd, da):
            return None, False, "EM-convertible"
        return False, False, "incommensurable"
    if rtol.unit is not None and rtol.unit.dim != DIMLESS:
        return "RuntimeError", False, "rtol with dimension"
    r = F(rtol.val) * (F(rtol.unit.scale) if rtol.unit is not None else 1)
    if atol.unit is not None:
        if atol.unit.dim != dd:
            if em_pair(atol.unit.dim, dd) or em_pair(dd, atol.unit.dim):
                return None, False, "EM-convertible atol"
            return False, False, "atol incommensurable"
        t = F(atol.val) * F(atol.unit.scale)
    else:
        tdim, tscale = bare_tol_unit if bare_tol_unit is not None else desired.unit_for_bare_tol()
        t = F(atol.val) * tscale
    if atol_si_override is not None:  # the SI size a suspected reading gives atol (classification only)
        t = atol_si_override
    pairs = broadcast(sa, sd)
    if pairs is None:
        return "shape", False, "shapes do not broadcast"
    some_border = False
    decisive_false = False
    for a, d in pairs:
        lhs = abs(a - d)
        rhs = t + r * abs(d)
        margin = rhs - lhs
        ref = max(abs(a), abs(d), abs(t))
        if abs(margin) <= BORDER * ref:
            some_border = True  # this element's verdict may legitimately depend on rounding
            if elems is not None:
                elems.append((None, True))
        elif not (lhs <= rhs or a == d):
            decisive_false = True
            if elems is not None:
                elems.append((False, False))
        elif elems is not None:
            elems.append((True, False))
    verdict = not decisive_false
    border = some_border and not decisive_false
    return verdict, border, "values"


def outcome(f):
    """('ok', value) or ('err', exception class name)"""
    try:
        return ("ok", f())
    except Exception as e:  # noqa: BLE001
        return ("err", type(e).__name__, str(e))


HDR = "import numpy as np, unyt\nfrom unyt import unyt_array, unyt_quantity, allclose_units\nfrom unyt.testing import assert_allclose_units, assert_array_equal_units\n"


def snip(body):
    return HDR + "def _o(f):\n    try: return ('ok', f())\n    except Exception as e: return ('err', type(e).__name__)\n" + body


# --------------------------------------------------------------------------------------
# generators


def unit_families(tier, rng):
    """lists of commensurable zero-offset unit spellings, keyed by a label"""
    ex = gen.extract()
    lut = ex["lut"]
    pre = ["m", "k", "c", "M", "μ", "n"] if tier == "quick" else [p for p in ex["prefixes"] if p not in ("µ",)]
    fams = {}
    bydim = gen.names_by_dim()
    groups = [[s for s in g if lut[s][1] == 0] for g in bydim.values()]
    groups = [g for g in groups if g]
    for g in groups:
        dim = ",".join(lut[g[0]][2])
        if dim.split(",")[7] != "0":  # logarithmic units do not multiply / convert like the rest
            continue
        names = list(g)
        for s in g:
            if lut[s][3]:
                names += [p + s for p in rng.sample(pre, 2)]
        fams["dim:" + g[0]] = names
    # compounds
    big = [g for g in groups if len(g) >= 2 and ",".join(lut[g[0]][2]) != DIMLESS and lut[g[0]][2][7] == "0"]
    ncomp = 6 if tier == "quick" else 40
    for i in range(ncomp):
        shape = [(rng.choice(big), rng.choice(gen.EXPONENTS[:8])) for _ in range(rng.randint(2, 3))]
        names = set()
        for _ in range(4):
            parts = []
            for g, e in shape:
                s = rng.choice(g)
                if lut[s][3] and rng.random() < 0.4:
                    s = rng.choice(pre) + s
                parts.append(f"{s}**({e.numerator}/{e.denominator})")
            names.add("*".join(parts))
        if len(names) >= 2:
            fams[f"compound:{i}"] = sorted(names)
    return fams


def usable(name):
    """a unit spelling the oracle can handle: parses, finite positive scale in a sane range"""
    try:
        u = U(name)
    except Exception:  # noqa: BLE001  (C14/C20's business)
        return None
    if not (1e-60 < u.scale < 1e60):
        return None
    return u


_EM = None


def em_pair(da, db):
    global _EM
    if _EM is None:
        _EM = _em_table()
    return (da, db) in _EM


def _em_table():
    import unyt.dimensions as D

    out = set()
    for k, v in D.em_dimensions.items():
        try:
            out.add((gen.dim_vec(k), gen.dim_vec(v)))
        except ValueError:
            continue
    return out


def _em_pair_slow(da, db):
    import unyt.dimensions as D

    def vec(x):
        return gen.dim_vec(x)

    for k, v in D.em_dimensions.items():
        try:
            if vec(k) == da and vec(v) == db:
                return True
        except ValueError:
            continue
    return False


def straddle_values(rng, n, sd_si_scale, rtol, atol_si):
    """SI reference magnitudes and obtained magnitudes placed at chosen multiples of the tolerance"""
    ds, as_, ks = [], [], []
    for _ in range(n):
        d = rng.uniform(1.0, 9.0) * 10 ** rng.randint(-2, 2) * sd_si_scale
        if rng.random() < 0.25:
            d = -d
        tol = atol_si + rtol * abs(d)
        k = rng.choice([0.0, 0.3, 0.8, 0.8, 1.25, 1.25, 3.0])
        sign = rng.choice([-1.0, 1.0])
        if tol == 0.0:
            a = d if k < 1 else d * (1 + sign * 1e-3)
        else:
            a = d + sign * k * tol
        ds.append(d)
        as_.append(a)
        ks.append(k)
    return as_, ds, ks


def make_pair(rng, ua, ud, shape_mode, rtol, atol_si):
    n = rng.randint(1, 4)
    a_si, d_si, ks = straddle_values(rng, n, ud.scale if rng.random() < 0.5 else ua.scale, rtol, atol_si)
    av = [x / ua.scale for x in a_si]
    dv = [x / ud.scale for x in d_si]
    if shape_mode == "scalar-both":
        return Arg("qscalar", av[:1], ua), Arg("qscalar", dv[:1], ud)
    if shape_mode == "scalar-desired":
        return Arg("qarr", [d_si[0] / ua.scale * (1 + 1e-3 * i * (1 if atol_si + rtol else 0)) for i in range(n)], ua), Arg("qscalar", dv[:1], ud)
    if shape_mode == "scalar-actual":
        return Arg("qscalar", av[:1], ua), Arg("qarr", [dv[0]] * n, ud)
    if shape_mode == "mismatch":
        return Arg("qarr", av + av + av[:1], ua), Arg("qarr", dv + dv, ud)
    return Arg("qarr", av, ua), Arg("qarr", dv, ud)


# --------------------------------------------------------------------------------------


def run(tier, seed):
    import unyt
    from unyt import allclose_units
    from unyt.testing import assert_allclose_units, assert_array_equal_units

    chk = core.Check("C19", tier, seed)
    chk.proof = core.prove("C19", PROOF_MODULES, extra_targets=("drv_c19",), tier=tier)
    rng = chk.rng
    try:
        flags = json.load(open(os.path.join(core.BUILD, "extract_c19_flags.json"), encoding="utf-8"))
    except Exception:  # noqa: BLE001  translator failed: reported through chk.proof["broken"]
        flags = {"bare_atol_in_desired_unit": None, "dimension_names": []}
    chk.extra["bare_atol_in_desired_unit"] = flags.get("bare_atol_in_desired_unit")
    try:  # the helper program the driver interprets, as translated from the live source on this run
        hp = json.load(open(os.path.join(core.BUILD, "extract_c19_handlers.json"), encoding="utf-8"))
        chk.extra["comp_helper_program"] = {"branches": hp.get("comp_helper"), "ret": hp.get("ret")}
    except Exception:  # noqa: BLE001  translator failed: reported through chk.proof["broken"]
        chk.extra["comp_helper_program"] = None
    fams = unit_families(tier, rng)
    fam_units = {}
    for k, names in fams.items():
        us = [u for u in (usable(n) for n in names) if u is not None and u.offset == 0]
        if len(us) >= 1:
            fam_units[k] = us
    multi = [k for k, v in fam_units.items() if len({u.scale for u in v}) >= 2]
    allk = list(fam_units)
    lines, expect = [], []  # model requests and what the implementation did

    def ask(op, fields, impl, ctx, borderline=False):
        lines.append("\t".join([op] + fields))
        expect.append((op, impl, ctx, borderline))

    temp_units = [U(n) for n in ("K", "R", "degC", "degF", "delta_degC", "delta_degF")]
    dimless_units = [U("dimensionless"), U("percent"), U("ppm")] if usable("ppm") else [U("dimensionless"), U("percent")]

    n_verdict = 5000 if tier == "quick" else 100000
    shape_modes = ["same"] * 6 + ["scalar-both"] * 3 + ["scalar-desired", "scalar-actual", "mismatch"]

    # ------------------------------------------------------------------ allclose_units
    for it in range(n_verdict):
        fk = rng.choice(multi) if rng.random() < 0.85 else rng.choice(allk)
        us = fam_units[fk]
        ua, ud, ut = rng.choice(us), rng.choice(us), rng.choice(us)
        mode = rng.random()
        # tolerances
        rk = rng.choice(["bare", "bare", "bare", "zero", "default", "dimensionless", "percent", "dimensional"])
        rtol_si = {"zero": 0.0, "default": 1e-7}.get(rk, rng.choice([1e-7, 1e-3, 0.05]))
        tk = rng.choice(["bare", "bare", "bare", "zero", "qty", "qty", "dimensionless-qty", "incommensurable-qty"])
        atol_si = 0.0 if tk == "zero" else rng.uniform(0.5, 5.0) * 10 ** rng.randint(-3, 0) * ud.scale
        if tk in ("dimensionless-qty", "incommensurable-qty") and rng.random() < 0.5:
            atol_si = 0.0
        a, d = make_pair(rng, ua, ud, rng.choice(shape_modes), rtol_si, atol_si)
        # argument kinds
        argmode = "qty/qty"
        if mode < 0.10:  # incommensurable quantities
            ok2 = [k for k in allk if fam_units[k][0].dim != ua.dim and not em_pair(ua.dim, fam_units[k][0].dim) and not em_pair(fam_units[k][0].dim, ua.dim)]
            ud = rng.choice(fam_units[rng.choice(ok2)])
            d = Arg(d.kind, d.vals, ud)
            argmode = "incommensurable"
        elif mode < 0.16:  # bare against quantity (dimensionless vs dimensional unless dimensionless family)
            if rng.random() < 0.5:
                d = Arg(rng.choice(["bare_list", "bare_arr"]) if not d.is_scalar() else "bare_scalar", d.vals)
            else:
                a = Arg(rng.choice(["bare_list", "bare_arr"]) if not a.is_scalar() else "bare_scalar", a.vals)
            argmode = "bare/qty"
        elif mode < 0.22:  # both bare
            a = Arg("bare_scalar" if a.is_scalar() else rng.choice(["bare_list", "bare_arr"]), [x * ua.scale for x in a.vals])
            d = Arg("bare_scalar" if d.is_scalar() else rng.choice(["bare_list", "bare_arr"]), [x * ud.scale for x in d.vals])
            argmode = "bare/bare"
        elif mode < 0.30 and not a.is_scalar():  # list of quantities with mixed spellings
            units = [rng.choice(us) for _ in a.vals]
            a = Arg(rng.choice(["qlist", "qtuple"]), [v * ua.scale / u.scale for v, u in zip(a.vals, units)], units=units)
            argmode = "qlist/qty"
        elif mode < 0.34 and not d.is_scalar():
            units = [rng.choice(us) for _ in d.vals]
            d = Arg("qlist", [v * ud.scale / u.scale for v, u in zip(d.vals, units)], units=units)
            argmode = "qty/qlist"
        elif mode < 0.38:  # temperature units (offsets): correspondence only
            ua, ud = rng.choice(temp_units), rng.choice(temp_units)
            a = Arg(a.kind, [rng.uniform(250, 350) for _ in a.vals], ua)
            d = Arg(d.kind, [float(unyt.unyt_quantity(v, ua.name).to(ud.name).d) * (1 + rng.choice([0.0, 1e-9, 1e-3])) for v in (a.vals if len(d.vals) == len(a.vals) else a.vals[:1] * len(d.vals))], ud)
            argmode = "offset-units"
            if rng.random() < 0.5:  # rtol = 0: the affine-invariant comparison, inside the direct oracle
                rk, rtol_si = "zero", 0.0
            if tk == "qty":  # a temperature difference in a zero-offset unit
                ut = rng.choice([u for u in temp_units if u.offset == 0])
                atol_si = rng.uniform(0.5, 5.0) * 10 ** rng.randint(-3, 0)
        bare_unit_dim, bare_unit_scale = d.unit_for_bare_tol()
        if rk == "bare" or rk == "zero" or rk == "default":
            rtol = Tol(rtol_si)
        elif rk == "dimensionless":
            rtol = Tol(rtol_si, U("dimensionless"))
        elif rk == "percent":
            rtol = Tol(rtol_si * 100.0, U("percent"))
        else:
            rtol = Tol(rtol_si, rng.choice([U("s"), U("m"), U("rad")]))
        if tk in ("bare", "zero"):
            atol = Tol(atol_si / float(bare_unit_scale))
        elif tk == "qty":
            atol = Tol(atol_si / ut.scale, ut if argmode not in ("bare/bare",) else U("dimensionless"))
            if argmode == "bare/bare":
                atol = Tol(atol_si, U("dimensionless"))
        elif tk == "dimensionless-qty":
            atol = Tol(atol_si / ud.scale, rng.choice(dimless_units))
        else:
            ok2 = [k for k in allk if fam_units[k][0].dim not in (ua.dim, ud.dim, DIMLESS)
                   and not any(em_pair(x, fam_units[k][0].dim) or em_pair(fam_units[k][0].dim, x) for x in (ua.dim, ud.dim))]
            atol = Tol(atol_si / ud.scale, rng.choice(fam_units[rng.choice(ok2)]))
        use_default_rtol = rk == "default"
        call_args = "a, d" + ("" if use_default_rtol else ", rtol=r") + ", atol=t"
        A, D_, R, T = a.build(), d.build(), rtol.build(), atol.build()
        if use_default_rtol:
            got = outcome(lambda: allclose_units(A, D_, atol=T))
            gota = outcome(lambda: assert_allclose_units(A, D_, atol=T))
        else:
            got = outcome(lambda: allclose_units(A, D_, rtol=R, atol=T))
            gota = outcome(lambda: assert_allclose_units(A, D_, rtol=R, atol=T))
        setup = f"a = {a.expr()}\nd = {d.expr()}\nr = {rtol.expr()}\nt = {atol.expr()}\n"
        want, border, note = spec_allclose(a, d, rtol, atol)
        scales_differ = "scales-differ" if (a.unit_for_bare_tol()[1] != d.unit_for_bare_tol()[1]) else "scales-equal"
        shape = f"{a.kind}/{d.kind}|rtol={rtol.kind()}|atol={atol.kind()}|{argmode}"
        chk.case(("allclose_units", fk, a.kind, d.kind, rtol.kind(), atol.kind(), argmode, note, str(want)),
                 {"call": "allclose_units(" + call_args + ")", "a": a.expr(), "d": d.expr(), "rtol": rtol.expr(), "atol": atol.expr(), "verdict": str(got[:2]), "contract": str(want)} if len(chk.samples) < 5 else None)
        chk.count(f"allclose_units:{argmode}")
        chk.count(f"allclose_units:atol={atol.kind()}")
        chk.count(f"allclose_units:rtol={rtol.kind()}")
        chk.count(f"allclose_units:contract={want}" + (":borderline" if border else ""))
        gotv = got[1] if got[0] == "ok" else got[1]
        # -- direct oracle --------------------------------------------------------------
        if got[0] == "ok" and not isinstance(got[1], (bool, np.bool_)):
            chk.fail(f"allclose_units|non-bool|{shape}", f"returned {type(got[1]).__name__}", {"python": snip(setup + f"v = allclose_units({call_args})\nassert isinstance(v, (bool, np.bool_)), type(v)\n")})
        if want is not None and not border:
            if want == "shape":
                pass  # NumPy's ValueError for non-broadcastable shapes: outside the stated contract
            elif want == "RuntimeError":
                if not (got[0] == "err" and got[1] == "RuntimeError"):
                    chk.fail(f"allclose_units|rtol-with-dimension-accepted|{shape}", f"rtol {rtol.expr()} did not raise RuntimeError: {got[:2]}",
                             {"python": snip(setup + f"o = _o(lambda: allclose_units({call_args}))\nassert o == ('err', 'RuntimeError'), o\n")})
            else:
                if got[0] == "err":
                    chk.fail(f"allclose_units|raised-{got[1]}|{shape}", f"raised {got[1]} where the contract gives {want}",
                             {"python": snip(setup + f"o = _o(lambda: allclose_units({call_args}))\nassert o == ('ok', {want}), o\n"), "error": got[2][:200]})
                elif bool(got[1]) != want:
                    # classify what the implementation did, so that the key names the defect
                    why = "other"
                    cands = []
                    # the translator's probe of the live function already says in which unit a bare
                    # atol is read; only if that is not desired's unit can it explain a deviation
                    atol_suspect = atol.unit is None and flags.get("bare_atol_in_desired_unit") is not True
                    if atol_suspect:
                        cands.append(("reads-bare-atol-in-actual-unit", rtol, a.unit_for_bare_tol()))
                    if rtol.kind() == "scaled-dimensionless":
                        cands.append(("reads-rtol-by-bare-value", Tol(rtol.val), None))
                        if atol_suspect:
                            cands.append(("reads-rtol-by-bare-value", Tol(rtol.val), a.unit_for_bare_tol()))
                    alts = [(nm,) + spec_allclose(a, d, rt_, atol, bare_tol_unit=bu_)[:2] for nm, rt_, bu_ in cands]
                    a_unit = a.unit if a.unit is not None else (a.units[0] if a.units else None)
                    if atol.unit is not None and a_unit is not None and a_unit.offset != 0 and atol.unit.dim == a_unit.dim:
                        # an atol quantity sent through in_units to a scale with a zero of its own is moved like a
                        # point: its SI size becomes SI_u(atol) - SI_actual(0)
                        t_point = (F(atol.val) - F(atol.unit.offset)) * F(atol.unit.scale) + F(a_unit.offset) * F(a_unit.scale)
                        alts.append(("reads-qty-atol-as-point-on-offset-scale",) + spec_allclose(a, d, rtol, atol, atol_si_override=t_point)[:2])
                    for nm, alt, b2 in alts:  # a reading that decisively explains the verdict
                        if alt is not None and not b2 and alt == bool(got[1]):
                            why = nm
                            break
                    else:
                        for nm, alt, b2 in alts:  # … or one under which the verdict hangs on rounding
                            if alt is not None and b2:
                                why = nm
                                break
                    chk.fail(f"allclose_units|verdict|{why}" if why != "other" else f"allclose_units|verdict|other|rtol={rtol.kind()}|atol={atol.kind()}|{argmode}",
                             f"allclose_units gave {bool(got[1])}, the contract on exact SI magnitudes gives {want} ({note})",
                             {"python": snip(setup + f"v = allclose_units({call_args})\nassert bool(v) == {want}, v\n"), "contract": str(want), "got": str(got[1])})
        # assert_allclose_units must agree with allclose_units
        agree = (got[0] == "ok" and bool(got[1]) and gota[0] == "ok") or (got[0] == "ok" and not bool(got[1]) and gota[:2] == ("err", "AssertionError")) or (got[0] == "err" and gota[0] == "err" and got[1] == gota[1])
        if not agree:
            chk.fail(f"assert_allclose_units|disagrees-with-allclose_units|{shape}", f"allclose_units {got[:2]} but assert_allclose_units {gota[:2]}",
                     {"python": snip(setup + f"o1 = _o(lambda: allclose_units({call_args}))\no2 = _o(lambda: assert_allclose_units({call_args}))\n"
                                     "ok = (o1 == ('ok', True) and o2 == ('ok', None)) or (o1[0] == 'ok' and not o1[1] and o2 == ('err', 'AssertionError')) or (o1[0] == 'err' and o1 == o2)\nassert ok, (o1, o2)\n")})
        # -- correspondence ------------------------------------------------------------
        if not use_default_rtol:
            impl = ("ok", bool(got[1])) if got[0] == "ok" else ("err", got[1])
            ask("c19.allclose_units", [a.wire(), d.wire(), rtol.wire(), atol.wire()], impl, setup + f"allclose_units({call_args})", border)
            impl2 = "pass" if gota[0] == "ok" else ("AssertionError" if gota[1] == "AssertionError" else "err:" + gota[1])
            ask("c19.assert_allclose_units", [a.wire(), d.wire(), rtol.wire(), atol.wire()], impl2, setup + f"assert_allclose_units({call_args})", border)
        # -- metamorphic: re-expression of an argument, with an atol that has its own unit ----
        if argmode == "qty/qty" and want in (True, False) and not border and atol.unit is not None and rtol.kind() in ("bare", "dimensionless") and got[0] == "ok" and rng.random() < 0.5:
            which = rng.choice(["actual", "desired"])
            u2 = rng.choice(us)
            src = a if which == "actual" else d
            moved = Arg(src.kind, [float(F(v) * F(src.unit.scale) / F(u2.scale)) for v in src.vals], u2)
            a2, d2 = (moved, d) if which == "actual" else (a, moved)
            w2, b2, _ = spec_allclose(a2, d2, rtol, atol)
            if w2 == want and not b2:
                A2, D2 = a2.build(), d2.build()
                g2 = outcome(lambda: allclose_units(A2, D2, rtol=R, atol=T))
                chk.count("allclose_units:reexpression-checked")
                if g2[0] != "ok" or bool(g2[1]) != bool(got[1]):
                    chk.fail(f"allclose_units|reexpress-{which}|atol={atol.kind()}", f"verdict changed from {got[1]} to {g2[:2]} when {which} was re-expressed in {u2.name}",
                             {"python": snip(setup + f"a2 = {a2.expr()}\nd2 = {d2.expr()}\nassert bool(allclose_units(a, d, rtol=r, atol=t)) == bool(allclose_units(a2, d2, rtol=r, atol=t))\n")})

    # ------------------------------------------------------------------ numpy handlers
    n_np = 2000 if tier == "quick" else 40000
    for it in range(n_np):
        fk = rng.choice(multi) if rng.random() < 0.85 else rng.choice(allk)
        us = fam_units[fk]
        ua, ub = rng.choice(us), rng.choice(us)
        rtol_si = rng.choice([0.0, 1e-5, 1e-3])
        atol_si = rng.choice([0.0, 1.0, 1.0]) * rng.uniform(0.5, 5.0) * 10 ** rng.randint(-3, 0) * ub.scale
        a, b = make_pair(rng, ua, ub, rng.choice(shape_modes), rtol_si, atol_si)
        mode = rng.random()
        argmode = "qty/qty"
        if mode < 0.12:
            ok2 = [k for k in allk if fam_units[k][0].dim not in (ua.dim, DIMLESS) and not em_pair(ua.dim, fam_units[k][0].dim) and not em_pair(fam_units[k][0].dim, ua.dim)]
            ub = rng.choice(fam_units[rng.choice(ok2)])
            b = Arg(b.kind, b.vals, ub)
            argmode = "incommensurable"
        elif mode < 0.20:
            if rng.random() < 0.5:
                b = Arg("bare_scalar" if b.is_scalar() else rng.choice(["bare_list", "bare_arr"]), b.vals)
            else:
                a = Arg("bare_scalar" if a.is_scalar() else rng.choice(["bare_list", "bare_arr"]), a.vals)
            argmode = "bare/qty"
        elif mode < 0.26:
            # an explicitly dimensionless quantity against something else
            if rng.random() < 0.5:
                b = Arg(b.kind, b.vals, U("dimensionless"))
            else:
                a = Arg(a.kind, a.vals, U("dimensionless"))
            argmode = "dimensionless-qty/qty"
        elif mode < 0.42:
            # temperature scales (units with a zero point of their own): both operands denote absolute
            # temperatures; the obtained ones sit at chosen multiples of the tolerance around the
            # reference ones.  With rtol == 0 the comparison is affine-invariant and the direct oracle
            # applies (absolute SI magnitudes); with rtol != 0 only the correspondence does.
            ua, ub = rng.choice(temp_units), rng.choice(temp_units)
            if rng.random() < 0.7:
                rtol_si = 0.0
            atol_K = rng.choice([0.0, 1.0, 1.0]) * rng.uniform(0.5, 5.0) * 10 ** rng.randint(-3, 0)
            t_lo, t_hi = atol_K * min(1.0, ub.scale / ua.scale), atol_K * max(1.0, ub.scale / ua.scale)
            m = max(len(a.vals), len(b.vals))
            tb, ta = [], []
            for _ in range(m):
                ref_K = rng.uniform(150.0, 600.0)
                k = rng.choice([0.0, 0.3, 0.3, 0.8, 1.25, 3.0, 3.0])
                tol = (t_lo if k < 1 else t_hi) + rtol_si * ref_K
                sign = rng.choice([-1.0, 1.0])
                tb.append(ref_K)
                ta.append((ref_K if k < 1 else ref_K * (1 + sign * 1e-3)) if tol == 0.0 else ref_K + sign * k * tol)
            if len(b.vals) == 1:  # one reference, every obtained value keeps its deviation from it
                ta = [tb[0] + (x - y) for x, y in zip(ta, tb)]
                tb = tb[:1]
            a = Arg(a.kind, [x / ua.scale + ua.offset for x in ta[:len(a.vals)]], ua)
            b = Arg(b.kind, [x / ub.scale + ub.offset for x in (tb * m)[:len(b.vals)]], ub)
            atol_si = None
            atol = Tol(atol_K / ua.scale)
            argmode = "offset-units"
            chk.count(f"np.allclose:offset-units:{'same' if ua.name == ub.name else 'factor-1' if ua.scale == ub.scale else 'offset-and-factor' if (ua.offset or ub.offset) else 'factor-only'}")
        if a.kind.startswith("bare") and b.kind.startswith("bare"):
            continue
        if atol_si is not None:
            atol = Tol(atol_si / float(b.unit_for_bare_tol()[1]))
        rtol = Tol(rtol_si)
        A, B = a.build(), b.build()
        got = outcome(lambda: np.allclose(A, B, rtol=rtol.val, atol=atol.val))
        goti = outcome(lambda: np.isclose(A, B, rtol=rtol.val, atol=atol.val))
        setup = f"a = {a.expr()}\nb = {b.expr()}\nr = {rtol.val!r}\nt = {atol.val!r}\n"
        da, _sa = a.si()
        db, _sb = b.si()
        want, border, note = spec_allclose(a, b, rtol, atol)
        chk.case(("np.allclose", fk, a.kind, b.kind, argmode, note, str(want)))
        chk.count(f"np.allclose:{argmode}")
        kinds = f"{a.kind}/{b.kind}"
        if want is not None and not border and want != "shape":
            if want is False and note == "incommensurable":
                # refusal = an exception (UnitConversionError) or False; anything else is a verdict on incomparable things
                refused = got[0] == "err" or (got[0] == "ok" and not bool(got[1]))
                if got[0] == "ok" and bool(got[1]):
                    side = "dimensionless-side" if DIMLESS in (da, db) else "dimensional"
                    chk.fail(f"np.allclose|incommensurable-accepted|{side}", f"np.allclose said True for {kinds} of different dimensions",
                             {"python": snip(setup + "o = _o(lambda: np.allclose(a, b, rtol=r, atol=t))\nassert o != ('ok', True), o\n")})
                elif got[0] == "ok" and DIMLESS in (da, db):
                    # a verdict was computed from the raw numbers (no refusal by exception)
                    chk.count("np.allclose:dimensionless-side-compared-raw-but-False")
            elif want in (True, False):
                if got[0] == "err":
                    chk.fail(f"np.allclose|raised-{got[1]}|{argmode}", f"np.allclose raised {got[1]} on commensurable arguments",
                             {"python": snip(setup + f"o = _o(lambda: np.allclose(a, b, rtol=r, atol=t))\nassert o == ('ok', {want}), o\n")})
                elif bool(got[1]) != want:
                    why = "other"
                    alt, b2, _ = spec_allclose(a, b, rtol, atol, bare_tol_unit=a.unit_for_bare_tol())
                    if alt is not None and (b2 or alt == bool(got[1])):
                        why = "reads-bare-atol-in-first-unit"
                    if DIMLESS == da and (a.kind.startswith("bare") or a.unit.scale == 1.0) or DIMLESS == db and (b.kind.startswith("bare") or b.unit.scale == 1.0):
                        # raw numbers compared because one side equals NULL_UNIT
                        raw = spec_allclose(Arg("bare_list", a.vals), Arg("bare_list", b.vals), rtol, atol, bare_tol_unit=(DIMLESS, F(1)))
                        if raw[0] is not None and (raw[1] or raw[0] == bool(got[1])):
                            why = "null-unit-side-compared-raw"
                    if why == "other" and argmode == "offset-units":
                        why = "other|offset-units"
                    chk.fail(f"np.allclose|verdict|{why}", f"np.allclose gave {bool(got[1])}, the contract on exact SI magnitudes gives {want}",
                             {"python": snip(setup + f"v = np.allclose(a, b, rtol=r, atol=t)\nassert bool(v) == {want}, v\n")})
        # numpy.isclose: the element verdicts against the contract, element by element.  A bare atol is
        # read by the handler in the first operand's unit (kept finding for allclose), so an element
        # is judged only where both readings of the bare atol (first / reference operand's unit) give
        # the same decisive verdict — there no reading of the tolerance can excuse a deviation
        null_like = any(x.unit is not None and x.unit.dim == DIMLESS and x.unit.scale == 1.0 for x in (a, b))
        # (a side whose unit equals NULL_UNIT is compared raw: kept finding null-unit-side-compared-raw, reported for allclose)
        if want in (True, False) and argmode in ("qty/qty", "offset-units") and not null_like:
            e_ref, e_first = [], []
            spec_allclose(a, b, rtol, atol, elems=e_ref)
            spec_allclose(a, b, rtol, atol, bare_tol_unit=a.unit_for_bare_tol(), elems=e_first)
            if goti[0] == "err":
                chk.fail(f"np.isclose|raised-{goti[1]}|{argmode}", f"np.isclose raised {goti[1]} on commensurable arguments",
                         {"python": snip(setup + "o = _o(lambda: np.isclose(a, b, rtol=r, atol=t))\nassert o[0] == 'ok', o\n")})
            else:
                gl = [bool(x) for x in np.atleast_1d(goti[1]).tolist()]
                chk.count("np.isclose:elements-judged")
                if len(gl) != len(e_ref):
                    chk.fail(f"np.isclose|shape|{argmode}", f"np.isclose returned {len(gl)} elements for {len(e_ref)} broadcast pairs",
                             {"python": snip(setup + f"v = np.atleast_1d(np.isclose(a, b, rtol=r, atol=t))\nassert v.size == {len(e_ref)}, v\n")})
                else:
                    bad = [i for i, (g_, x, y) in enumerate(zip(gl, e_ref, e_first)) if x == y and x[0] is not None and g_ != x[0]]
                    if bad:
                        i = bad[0]
                        chk.fail(f"np.isclose|element-verdict|{argmode}", f"np.isclose element {i} is {gl[i]}, the contract on exact SI magnitudes gives {e_ref[i][0]} (whichever operand's unit the bare atol is read in)",
                                 {"python": snip(setup + f"v = np.atleast_1d(np.isclose(a, b, rtol=r, atol=t))\nassert bool(v[{i}]) == {e_ref[i][0]}, v\n")})
        impl = ("ok", bool(got[1])) if got[0] == "ok" else ("err", got[1])
        ask("c19.allclose", [a.wire(), b.wire(), str(core.f2b(rtol.val)), str(core.f2b(atol.val))], impl, setup + "np.allclose(a, b, rtol=r, atol=t)", border)
        if goti[0] == "ok":
            impl_i = ("ok", "".join("1" if x else "0" for x in np.atleast_1d(goti[1]).tolist()))
        else:
            impl_i = ("err", goti[1])
        ask("c19.isclose", [a.wire(), b.wire(), str(core.f2b(rtol.val)), str(core.f2b(atol.val))], impl_i, setup + "np.isclose(a, b, rtol=r, atol=t)", border)
        # quantity-valued atol handed to numpy.allclose (not modelled; direct oracle only)
        if argmode == "qty/qty" and rng.random() < 0.25 and want in (True, False):
            ut = rng.choice(us)
            tq = Tol(atol_si / ut.scale, ut)
            w3, b3, _ = spec_allclose(a, b, rtol, tq)
            if not b3 and w3 in (True, False):
                TQ = tq.build()
                g3 = outcome(lambda: np.allclose(A, B, rtol=rtol.val, atol=TQ))
                chk.count("np.allclose:atol=qty")
                if g3[0] == "err":
                    chk.fail(f"np.allclose|atol=qty|raised-{g3[1]}", f"np.allclose with atol={tq.expr()} raised {g3[1]}",
                             {"python": snip(setup + f"t = {tq.expr()}\no = _o(lambda: np.allclose(a, b, rtol=r, atol=t))\nassert o == ('ok', {w3}), o\n")})
                elif bool(g3[1]) != w3:
                    chk.fail("np.allclose|atol=qty|verdict", f"np.allclose with atol={tq.expr()} gave {bool(g3[1])}, contract {w3}",
                             {"python": snip(setup + f"t = {tq.expr()}\nv = np.allclose(a, b, rtol=r, atol=t)\nassert bool(v) == {w3}, v\n")})

    # ------------------------------------------------------------------ array_equal / array_equiv / assert_array_equal_units
    n_eq = 1500 if tier == "quick" else 30000
    for it in range(n_eq):
        fk = rng.choice(multi) if rng.random() < 0.8 else rng.choice(allk)
        us = fam_units[fk]
        ua = rng.choice(us)
        mode = rng.choice(["same-unit", "same-unit", "alias", "commensurable", "commensurable-equal-physically", "incommensurable", "bare", "bare-dimless", "temperature"])
        n = rng.randint(1, 3)
        vals = [float(rng.randint(1, 9)) * 10 ** rng.randint(-1, 2) for _ in range(n)]
        vb = list(vals)
        if rng.random() < 0.35:
            vb[rng.randrange(n)] *= rng.choice([2.0, 1.5, -1.0])
        ub = ua
        if mode == "alias":
            same = [u for u in us if u.scale == ua.scale and u.name != ua.name]
            ub = rng.choice(same) if same else ua
        elif mode == "commensurable":
            ub = rng.choice(us)
        elif mode == "commensurable-equal-physically":
            ub = rng.choice(us)
            vb = [float(F(v) * F(ua.scale) / F(ub.scale)) for v in vals]
        elif mode == "incommensurable":
            ok2 = [k for k in allk if fam_units[k][0].dim != ua.dim]
            ub = rng.choice(fam_units[rng.choice(ok2)])
        elif mode == "temperature":
            ua, ub = rng.choice(temp_units), rng.choice(temp_units)
        shape = rng.choice(["arr", "arr", "arr", "scalar", "scalar-vs-arr", "mismatch"])
        if shape == "scalar":
            a, b = Arg("qscalar", vals[:1], ua), Arg("qscalar", vb[:1], ub)
        elif shape == "scalar-vs-arr":
            a, b = Arg("qscalar", vals[:1], ua), Arg("qarr", [vb[0]] * (n + 1), ub)
        elif shape == "mismatch":
            a, b = Arg("qarr", vals + vals, ua), Arg("qarr", vb + vb + vb, ub)
        else:
            a, b = Arg("qarr", vals, ua), Arg("qarr", vb, ub)
        if mode == "bare":
            b = Arg("bare_scalar" if b.is_scalar() else rng.choice(["bare_list", "bare_arr"]), b.vals)
        elif mode == "bare-dimless":
            a = Arg(a.kind, a.vals, U("dimensionless"))
            b = Arg("bare_scalar" if b.is_scalar() else rng.choice(["bare_list", "bare_arr"]), b.vals)
        if rng.random() < 0.1:
            a, b = b, a
        if a.kind.startswith("bare") and b.kind.startswith("bare"):
            continue
        A, B = a.build(), b.build()
        setup = f"a = {a.expr()}\nb = {b.expr()}\n"

        def unit_of(x):
            return x.unit if x.unit is not None else U("dimensionless")

        xa, xb = unit_of(a), unit_of(b)
        units_equal = xa.dim == xb.dim and abs(F(xa.scale) - F(xb.scale)) <= F(1, 10 ** 9) * max(F(xa.scale), F(xb.scale)) and xa.offset == xb.offset
        same_shape = a.is_scalar() == b.is_scalar() and len(a.vals) == len(b.vals)
        pairs = broadcast(a.vals, b.vals)
        raw_equal_b = pairs is not None and all(x == y for x, y in pairs)
        want_equal = units_equal and same_shape and all(x == y for x, y in zip(a.vals, b.vals))
        want_equiv = units_equal and raw_equal_b
        want_aeu = units_equal and (same_shape or a.is_scalar() or b.is_scalar()) and raw_equal_b
        chk.case(("array_equal", fk, mode, shape, a.kind, b.kind))
        chk.count(f"array_equal:{mode}")
        for fname, fn, want in (("array_equal", np.array_equal, want_equal), ("array_equiv", np.array_equiv, want_equiv)):
            g = outcome(lambda: fn(A, B))
            if g[0] == "err" or not isinstance(g[1], (bool, np.bool_)) or bool(g[1]) != want:
                chk.fail(f"np.{fname}|{mode}|{'units-equal' if units_equal else 'units-differ'}", f"np.{fname} gave {g[:2]}, required {want} (equal units as units, equal numbers)",
                         {"python": snip(setup + f"o = _o(lambda: np.{fname}(a, b))\nassert o == ('ok', {want}), o\n")})
            ask(f"c19.{fname}", [a.wire(), b.wire()], ("ok", bool(g[1])) if g[0] == "ok" else ("err", g[1]), setup + f"np.{fname}(a, b)")
        g = outcome(lambda: assert_array_equal_units(A, B))
        passed = g[0] == "ok"
        if passed != want_aeu:
            chk.fail(f"assert_array_equal_units|{mode}|{'passed' if passed else 'raised-' + g[1]}", f"assert_array_equal_units {'passed' if passed else 'raised ' + g[1]}, required {'pass' if want_aeu else 'an error'}",
                     {"python": snip(setup + f"o = _o(lambda: assert_array_equal_units(a, b))\nassert (o[0] == 'ok') == {want_aeu}, o\n")})
        if passed:
            cls = "pass"
        elif g[1] == "AssertionError" and "units do not match" in g[2]:
            cls = "unitsDiffer"
        else:
            cls = "refuse"
        ask("c19.assert_array_equal_units", [a.wire(), b.wire()], cls, setup + "assert_array_equal_units(a, b)")

    # ------------------------------------------------------------------ decorators
    decorator_cases(chk, rng, tier, flags, ask)
    decorator_histories(chk, rng, tier, flags, ask)

    # ------------------------------------------------------------------ the model's answers
    try:
        replies = core.Model("drv_c19").ask(lines)
    except Exception as e:  # noqa: BLE001
        replies = []
        chk.disagree("driver", repr(e))
    for rep, (op, impl, ctx, borderline) in zip(replies, expect):
        chk.count("model:" + op)
        ok = compare(op, rep, impl)
        if not ok:
            if borderline:
                chk.count("model:borderline-difference-ignored")
                continue
            chk.disagree(op, f"model {rep} vs implementation {impl} for\n{ctx}")
    # the flag the translator read off the source must be what the driver was built with
    try:
        fl = core.Model("drv_c19").ask(["c19.flag"])[0]
        if flags.get("bare_atol_in_desired_unit") is not None and fl != ["ok", "1" if flags["bare_atol_in_desired_unit"] else "0"]:
            chk.disagree("c19.flag", f"driver flag {fl} vs translator {flags.get('bare_atol_in_desired_unit')}")
    except Exception as e:  # noqa: BLE001
        chk.disagree("driver", repr(e))
    # replay of the Lean counterexample witnesses on the real code
    witness_replay(chk, flags)
    rule = ("calls of allclose_units / assert_allclose_units / numpy.allclose / numpy.isclose / numpy.array_equal / numpy.array_equiv / "
            "assert_array_equal_units on quantities, bare arrays, lists of quantities x commensurable (table groups, prefixes, compounds), "
            "incommensurable and offset units x rtol/atol kinds (bare, zero, dimensionless, scaled dimensionless, commensurable, incommensurable) "
            "x values placed at 0, 0.3, 0.8, 1.25, 3 times the tolerance; decorator usages x every dimension of unyt.dimensions; "
            "distinct = distinct (function, unit family, argument kinds, tolerance kinds, contract verdict)")
    return chk.finish(rule)


def compare(op, rep, impl):
    if op in ("c19.allclose_units", "c19.allclose", "c19.array_equal", "c19.array_equiv"):
        if impl[0] == "ok":
            return rep == ["ok", "1" if impl[1] else "0"]
        return rep == ["err", impl[1]]
    if op == "c19.isclose":
        if impl[0] == "ok":
            return rep[0] == "ok" and (rep[1] if len(rep) > 1 else "") == impl[1]
        return rep == ["err", impl[1]]
    if op == "c19.assert_allclose_units":
        if impl == "pass":
            return rep == ["pass"]
        if impl == "AssertionError":
            return rep == ["AssertionError"]
        return rep == ["err", impl[4:]]
    if op == "c19.assert_array_equal_units":
        if impl == "pass":
            return rep == ["pass"]
        # which stage refuses (numbers vs units) depends on rounding of the conversion when the
        # units differ; only pass / not-pass is compared
        return rep[0] in ("unitsDiffer", "valuesDiffer", "refused")
    if op in ("c19.accepts", "c19.returns", "c19.hasdim", "c19.accepts_seq", "c19.returns_seq"):
        return rep == impl
    return False


# --------------------------------------------------------------------------------------
# decorators

BASE_SPELLINGS = [
    # (mass, length, time, temperature, angle, current, luminous, logarithmic)
    ["kg", "m", "s", "K", "rad", "A", "cd", "Np"],
    ["g", "cm", "ms", "R", "deg", "mA", "kcd", "dB"],
    ["lb", "ft", "hr", "mK", "arcmin", "kA", "cd", "B"],
]


def unit_for_dim(vec, spelling):
    """a unit string of the given dimension vector (list of Fractions)"""
    parts = []
    for base, p in zip(BASE_SPELLINGS[spelling], vec):
        if p != 0:
            parts.append(f"{base}**({p.numerator}/{p.denominator})" if p != 1 else base)
    return "*".join(parts) if parts else "dimensionless"


def decorator_cases(chk, rng, tier, flags, ask):
    import sympy
    import unyt
    import unyt.dimensions as D
    from unyt import unyt_quantity as Q
    from unyt.dimensions import accepts, returns

    names = flags.get("dimension_names") or sorted(n for n in dir(D) if not n.startswith("_") and isinstance(getattr(D, n), sympy.Basic))
    dims = {}
    for n in names:
        try:
            dims[n] = [F(x) for x in gen.dim_vec(getattr(D, n)).split(",")]
        except Exception:  # noqa: BLE001
            chk.count("decorator:dimension-not-a-monomial")
    hdr = "import numpy as np, unyt\nfrom unyt import unyt_quantity as Q\nimport unyt.dimensions as D\nfrom unyt.dimensions import accepts, returns\n"

    def vstr(v):
        return ",".join(gen.rat_str(x) for x in v)

    def mkval(vec, spelling, rng):
        """(python object, source text, dimension wire) of a value with that dimension"""
        if vec is None:
            x = rng.choice([3, 2.5])
            return x, repr(x), "none"
        if vec[7] != 0 and any(vec[:7]):
            vec = [F(0)] * 7 + [F(1)]
        us = unit_for_dim(vec, spelling)
        v = float(rng.randint(1, 9))
        return Q(v, us), f"Q({v!r}, {us!r})", vstr(vec)

    reps = 1 if tier == "quick" else 4
    for n, vec in sorted(dims.items()):
        dim = getattr(D, n)
        for rep in range(reps):
            for usage in ("positional", "keyword", "mixed", "default-used", "default-overridden", "kwonly", "unchecked-extra"):
                for right in (True, False):
                    sp = rng.randrange(3)
                    if vec[7] != 0:
                        sp = rng.randrange(3)
                    # the value for the checked parameter `x`
                    if right:
                        vvec = list(vec)
                    else:
                        choice = rng.random()
                        if choice < 0.3 and any(vec):
                            vvec = None  # bare number where a dimension is required
                        else:
                            vvec = list(vec)
                            j = rng.choice([0, 1, 2]) if vec[7] == 0 else 1
                            vvec[j] += rng.choice([F(1), F(-1), F(1, 2)])
                            if vec[7] != 0:
                                vvec = [F(0), F(1), F(0), F(0), F(0), F(0), F(0), F(0)]
                    xv, xs, xw = mkval(vvec, sp, rng)
                    ov, os_, ow = mkval([F(0), F(0), F(1), F(0), F(0), F(0), F(0), F(0)], rng.randrange(3), rng)
                    calls = []

                    if usage in ("default-used", "default-overridden"):
                        dv, ds, dw = (xv, xs, xw) if usage == "default-used" else mkval(list(vec), sp, rng)

                        @accepts(x=dim)
                        def f(o, x=dv):
                            calls.append(1)
                            return (o, x)

                        fsrc = f"@accepts(x=D.{n})\ndef f(o, x={ds}):\n    calls.append(1); return (o, x)\n"
                        if usage == "default-used":
                            call, csrc, pos, kw = (lambda: f(ov)), f"f({os_})", [ow], []
                        else:
                            call, csrc, pos, kw = (lambda: f(ov, x=xv)), f"f({os_}, x={xs})", [ow], [("x", xw)]
                    elif usage == "kwonly":

                        @accepts(x=dim)
                        def f(o, *, x):
                            calls.append(1)
                            return (o, x)

                        fsrc = f"@accepts(x=D.{n})\ndef f(o, *, x):\n    calls.append(1); return (o, x)\n"
                        call, csrc, pos, kw = (lambda: f(ov, x=xv)), f"f({os_}, x={xs})", [ow], [("x", xw)]
                    else:

                        @accepts(x=dim)
                        def f(o, x):
                            calls.append(1)
                            return (o, x)

                        fsrc = f"@accepts(x=D.{n})\ndef f(o, x):\n    calls.append(1); return (o, x)\n"
                        if usage == "positional":
                            call, csrc, pos, kw = (lambda: f(ov, xv)), f"f({os_}, {xs})", [ow, xw], []
                        elif usage == "keyword":
                            call, csrc, pos, kw = (lambda: f(x=xv, o=ov)), f"f(x={xs}, o={os_})", [], [("x", xw), ("o", ow)]
                        elif usage == "mixed":
                            call, csrc, pos, kw = (lambda: f(ov, x=xv)), f"f({os_}, x={xs})", [ow], [("x", xw)]
                        else:  # the unchecked parameter gets an arbitrary thing: must not matter
                            ov, os_, ow = mkval(None, 0, rng)
                            call, csrc, pos, kw = (lambda: f(ov, xv)), f"f({os_}, {xs})", [ow, xw], []
                    g = outcome(call)
                    called = len(calls)
                    chk.case(("accepts", n, usage, right))
                    chk.count(f"accepts:{usage}:{'right' if right else 'wrong'}")
                    body = hdr + "calls = []\n" + fsrc + "def _o(f):\n    try: return ('ok', f())\n    except Exception as e: return ('err', type(e).__name__)\n"
                    if right:
                        good = g[0] == "ok" and called == 1 and g[1][1] is xv
                        if not good:
                            chk.fail(f"accepts|{usage}|right-dimension-refused", f"accepts(x=D.{n}) did not let {csrc} through: {g[:2]}, calls={called}",
                                     {"python": body + f"o = _o(lambda: {csrc})\nassert o[0] == 'ok' and len(calls) == 1, (o, calls)\n"})
                    else:
                        good = g[:2] == ("err", "TypeError") and called == 0
                        if not good:
                            key = f"accepts|{usage}|wrong-dimension-" + ("accepted" if g[0] == "ok" else f"{g[1]}-calls={called}")
                            chk.fail(key, f"accepts(x=D.{n}) on {csrc} with x of another dimension: {g[:2]}, calls={called} (required TypeError, 0 calls)",
                                     {"python": body + f"o = _o(lambda: {csrc})\nassert o == ('err', 'TypeError') and calls == [], (o, calls)\n"})
                    varnames = ",".join(f.__wrapped__.__code__.co_varnames)
                    impl = ["called", "1" if called else "0", "through" if g[0] == "ok" else g[1]]
                    ask("c19.accepts", [f"x={vstr(vec)}", varnames, ";".join(pos), ";".join(f"{k}={v}" for k, v in kw)], impl, fsrc + csrc)
            # ---- returns
            for usage in ("single", "tuple2", "tuple-extra-result", "fewer-results", "r_unit", "tuple-in-list"):
                for right in (True, False):
                    sp = rng.randrange(3)
                    if right:
                        vvec = list(vec)
                    else:
                        vvec = list(vec)
                        if vec[7] != 0:
                            vvec = [F(0), F(1), F(0), F(0), F(0), F(0), F(0), F(0)]
                        else:
                            vvec[rng.choice([0, 1, 2])] += rng.choice([F(1), F(-1)])
                        if rng.random() < 0.25 and any(vec):
                            vvec = None
                    xv, xs, xw = mkval(vvec, sp, rng)
                    tvec = [F(0), F(0), F(1), F(0), F(0), F(0), F(0), F(0)]
                    ov, os_, ow = mkval(tvec, rng.randrange(3), rng)
                    calls = []
                    deco_err = None
                    if usage == "single":
                        deco, dsrc, res, rsrc, ds_w, kind, vals_w = (lambda: returns(dim)), f"returns(D.{n})", xv, xs, vstr(vec), "S", [xw]
                    elif usage == "tuple2":
                        deco, dsrc, res, rsrc, ds_w, kind, vals_w = (lambda: returns(D.time, dim)), f"returns(D.time, D.{n})", (ov, xv), f"({os_}, {xs})", vstr(tvec) + ";" + vstr(vec), "T", [ow, xw]
                    elif usage == "tuple-extra-result":
                        deco, dsrc, res, rsrc, ds_w, kind, vals_w = (lambda: returns(dim)), f"returns(D.{n})", (xv, ov), f"({xs}, {os_})", vstr(vec), "T", [xw, ow]
                    elif usage == "fewer-results":
                        deco, dsrc, res, rsrc, ds_w, kind, vals_w = (lambda: returns(dim, D.time)), f"returns(D.{n}, D.time)", xv, xs, vstr(vec) + ";" + vstr(tvec), "S", [xw]
                    elif usage == "r_unit":
                        deco, dsrc, res, rsrc, ds_w, kind, vals_w = (lambda: returns(r_unit=dim)), f"returns(r_unit=D.{n})", xv, xs, "", "S", [xw]
                    else:
                        # a list is one object: only its own (absent) units count
                        deco, dsrc, res, rsrc, ds_w, kind, vals_w = (lambda: returns(dim)), f"returns(D.{n})", xv, xs, vstr(vec), "S", [xw]
                    try:
                        dec = deco()
                    except Exception as e:  # noqa: BLE001
                        deco_err = type(e).__name__
                    if deco_err:
                        chk.fail(f"returns|{usage}|decoration-raised-{deco_err}", f"{dsrc} raised {deco_err}", {"python": hdr + f"{dsrc}\n"})
                        continue

                    def h():
                        calls.append(1)
                        return res

                    hf = dec(h)
                    g = outcome(hf)
                    chk.case(("returns", n, usage, right))
                    chk.count(f"returns:{usage}:{'right' if right else 'wrong'}")
                    body = hdr + f"calls = []\nres = {rsrc}\n@{dsrc}\ndef h():\n    calls.append(1); return res\n" + "def _o(f):\n    try: return ('ok', f())\n    except Exception as e: return ('err', type(e).__name__)\n"
                    if right:
                        good = g[0] == "ok" and g[1] is res and len(calls) == 1
                        if not good:
                            chk.fail(f"returns|{usage}|right-dimension-refused-or-altered", f"{dsrc}: result {rsrc} came back as {g[:2]} (calls={len(calls)})",
                                     {"python": body + "o = _o(h)\nassert o[0] == 'ok' and o[1] is res and len(calls) == 1, (o, calls)\n"})
                    else:
                        good = g[:2] == ("err", "TypeError") and len(calls) == 1
                        if not good:
                            chk.fail(f"returns|{usage}|wrong-dimension-" + ("returned" if g[0] == "ok" else g[1]), f"{dsrc}: result {rsrc} of another dimension gave {g[:2]} (required TypeError)",
                                     {"python": body + "o = _o(h)\nassert o == ('err', 'TypeError'), o\n"})
                    ru = vstr(vec) if usage == "r_unit" else "-"
                    if g[0] == "ok":
                        ids = list(range(len(vals_w)))
                        impl = ["ok", "1", ";".join(str(i) for i in ids)]
                    else:
                        impl = ["err", "1", g[1]]
                    ask("c19.returns", [ds_w, ru, kind, ";".join(vals_w)], impl, f"{dsrc} on {rsrc}")
    # decoration-time refusal of r_unit together with positional dimensions
    g = outcome(lambda: returns(D.length, r_unit=D.time))
    if g[:2] != ("err", "ValueError"):
        chk.fail("returns|r_unit-and-positional-accepted", f"returns(length, r_unit=time) gave {g[:2]}", {"python": hdr + "try:\n    returns(D.length, r_unit=D.time)\nexcept ValueError:\n    pass\nelse:\n    raise AssertionError('accepted')\n"})
    ask("c19.returns", ["0,1,0,0,0,0,0,0", "0,0,1,0,0,0,0,0", "S", "none"], ["decorate-err", "ValueError"], "returns(length, r_unit=time)")


def decorator_histories(chk, rng, tier, flags, ask):
    """Sequences of calls on ONE decorated function: the property quantifies over every call of a
    decorated function, whatever was called before.  Each call's outcome is compared with the
    history-free contract (through ⇔ every checked argument has the stated dimension; a refused
    call does not enter the wrapped function) and the whole history with the model
    (`acceptsHistory` / `returnsHistory`, theorem `accepts_history_independent`)."""
    import sympy
    import unyt.dimensions as D
    from unyt import unyt_quantity as Q
    from unyt.dimensions import accepts, returns

    names = flags.get("dimension_names") or sorted(n for n in dir(D) if not n.startswith("_") and isinstance(getattr(D, n), sympy.Basic))
    dims = {}
    for n in names:
        try:
            dims[n] = [F(x) for x in gen.dim_vec(getattr(D, n)).split(",")]
        except Exception:  # noqa: BLE001
            pass
    usable_names = sorted(n for n, v in dims.items() if v[7] == 0)
    hdr = "import numpy as np, unyt\nfrom unyt import unyt_quantity as Q\nimport unyt.dimensions as D\nfrom unyt.dimensions import accepts, returns\n"

    def vstr(v):
        return ",".join(gen.rat_str(x) for x in v)

    def has_dim(wire, vec):  # an object without units counts as dimensionless
        return (DIMLESS if wire == "none" else wire) == vstr(vec)

    def val(vec, spelling, num):
        us = unit_for_dim(vec, spelling)
        return Q(float(num), us), f"Q({float(num)!r}, {us!r})", vstr(vec)

    reps = 1 if tier == "quick" else 6
    for rep in range(reps):
        for pn in usable_names:
            others = [n for n in usable_names if dims[n] != dims[pn]]
            qn = rng.choice(others)
            rn = rng.choice([n for n in others if dims[n] != dims[qn]])
            three = rng.random() < 0.4
            checked = [("p", pn), ("q", qn)] + ([("r", rn)] if three else [])
            params = [c[0] for c in checked]
            # two spellings per parameter, reused along the history so that units are "seen before"
            pool = {nm: [val(dims[dn], sp, rng.randint(1, 9)) for sp in rng.sample([0, 1, 2], 2)] for nm, dn in checked}
            calls = []
            deco = accepts(**{nm: getattr(D, dn) for nm, dn in checked})
            if three:

                @deco
                def f(p, q, r, extra=None):
                    calls.append(1)
                    return (p, q, r)

                fsrc = "def f(p, q, r, extra=None):\n    calls.append(1); return (p, q, r)\n"
            else:

                @deco
                def f(p, q, extra=None):
                    calls.append(1)
                    return (p, q)

                fsrc = "def f(p, q, extra=None):\n    calls.append(1); return (p, q)\n"
            dsrc = "@accepts(" + ", ".join(f"{nm}=D.{dn}" for nm, dn in checked) + ")\n" + fsrc
            varnames = ",".join(f.__wrapped__.__code__.co_varnames)
            steps = ["good"] + [rng.choice(["good", "swapped", "swapped", "one-wrong-seen", "bare", "rotated-new-units", "good-other-spelling"]) for _ in range(rng.randint(3, 6))]
            lines_src, wires, history = [], [], []
            bad_reported = False
            for si, kind in enumerate(steps):
                pick = {nm: rng.randrange(2) for nm in params}
                assign = {nm: pool[nm][pick[nm]] for nm in params}  # right dimensions
                if kind == "swapped":
                    perm = params[1:] + params[:1]
                    assign = {nm: pool[src][pick[src]] for nm, src in zip(params, perm)}
                elif kind == "one-wrong-seen":
                    tgt, src = rng.sample(params, 2)
                    assign[tgt] = pool[src][pick[src]]
                elif kind == "bare":
                    tgt = rng.choice(params)
                    assign[tgt] = (3.0, "3.0", "none")
                elif kind == "rotated-new-units":
                    perm = params[1:] + params[:1]
                    assign = {nm: val(dims[dict(checked)[src]], 2 - pick[src], rng.randint(1, 9)) if True else None for nm, src in zip(params, perm)}
                want_through = all(has_dim(assign[nm][2], dims[dn]) for nm, dn in checked)
                style = rng.choice(["positional", "keyword", "mixed"])
                if style == "positional":
                    call = lambda a=assign: f(*[a[nm][0] for nm in params])  # noqa: E731
                    csrc = "f(" + ", ".join(assign[nm][1] for nm in params) + ")"
                    wire = ";".join(assign[nm][2] for nm in params) + "@"
                elif style == "keyword":
                    order = rng.sample(params, len(params))
                    call = lambda a=assign, o=order: f(**{nm: a[nm][0] for nm in o})  # noqa: E731
                    csrc = "f(" + ", ".join(f"{nm}={assign[nm][1]}" for nm in order) + ")"
                    wire = "@" + ";".join(f"{nm}={assign[nm][2]}" for nm in order)
                else:
                    call = lambda a=assign: f(a[params[0]][0], **{nm: a[nm][0] for nm in params[1:]})  # noqa: E731
                    csrc = f"f({assign[params[0]][1]}, " + ", ".join(f"{nm}={assign[nm][1]}" for nm in params[1:]) + ")"
                    wire = assign[params[0]][2] + "@" + ";".join(f"{nm}={assign[nm][2]}" for nm in params[1:])
                before = len(calls)
                g = outcome(call)
                entered = len(calls) - before
                history.append(("1" if entered else "0", "through" if g[0] == "ok" else g[1]))
                lines_src.append(csrc)
                wires.append(wire)
                chk.case(("accepts-history", pn, qn, kind, style, si > 0))
                chk.count(f"accepts-history:{kind}:{'through' if want_through else 'refuse'}")
                good = (g[0] == "ok" and entered == 1) if want_through else (g[:2] == ("err", "TypeError") and entered == 0)
                if not good and not bad_reported:
                    bad_reported = True
                    prev = "".join(f"_o(lambda: {c})\n" for c in lines_src[:-1])
                    body = hdr + "calls = []\n" + dsrc + "def _o(f):\n    try: return ('ok', f())\n    except Exception as e: return ('err', type(e).__name__)\n" + prev + f"n = len(calls)\no = _o(lambda: {csrc})\n"
                    if want_through:
                        chk.fail(f"accepts|history|{kind}|right-dimension-refused", f"after {si} earlier call(s) on the same decorated function, {csrc} gave {g[:2]} (entered {entered}×); required: through",
                                 {"python": body + "assert o[0] == 'ok' and len(calls) == n + 1, (o, len(calls) - n)\n", "history": lines_src})
                    else:
                        chk.fail(f"accepts|history|{kind}|wrong-dimension-" + ("accepted" if g[0] == "ok" else f"{g[1]}-entered={entered}"),
                                 f"after {si} earlier call(s) on the same decorated function, {csrc} gave {g[:2]} and entered the wrapped function {entered}× (required TypeError, not entered): the verdict depends on the call history",
                                 {"python": body + "assert o == ('err', 'TypeError') and len(calls) == n, (o, len(calls) - n)\n", "history": lines_src})
            impl = ["seq", "".join(h[0] for h in history), ",".join(h[1] for h in history)]
            ask("c19.accepts_seq", [";".join(f"{nm}={vstr(dims[dn])}" for nm, dn in checked), varnames, "#".join(wires)], impl, dsrc + "\n".join(lines_src))
            # ---- returns: one decorated function returning what it is given, called repeatedly
            rcalls = []

            @returns(getattr(D, pn), getattr(D, qn))
            def h(x, y):
                rcalls.append(1)
                return x, y

            hsrc = f"@returns(D.{pn}, D.{qn})\ndef h(x, y):\n    calls.append(1); return x, y\n"
            rsteps = ["good"] + [rng.choice(["good", "swapped", "second-wrong-seen", "bare"]) for _ in range(rng.randint(2, 4))]
            rl, rw, rh = [], [], []
            bad_reported = False
            for si, kind in enumerate(rsteps):
                x, y = pool["p"][rng.randrange(2)], pool["q"][rng.randrange(2)]
                if kind == "swapped":
                    x, y = y, x
                elif kind == "second-wrong-seen":
                    y = x
                elif kind == "bare":
                    x = (2.0, "2.0", "none")
                want_ok = has_dim(x[2], dims[pn]) and has_dim(y[2], dims[qn])
                before = len(rcalls)
                g = outcome(lambda: h(x[0], y[0]))
                entered = len(rcalls) - before
                same = g[0] == "ok" and g[1][0] is x[0] and g[1][1] is y[0]
                rh.append(("1" if entered else "0", "ok" if g[0] == "ok" else g[1]))
                csrc = f"h({x[1]}, {y[1]})"
                rl.append(csrc)
                rw.append(f"T:{x[2]};{y[2]}")
                chk.case(("returns-history", pn, qn, kind, si > 0))
                chk.count(f"returns-history:{kind}:{'ok' if want_ok else 'refuse'}")
                good = (same and entered == 1) if want_ok else (g[:2] == ("err", "TypeError") and entered == 1)
                if not good and not bad_reported:
                    bad_reported = True
                    prev = "".join(f"_o(lambda: {c})\n" for c in rl[:-1])
                    body = hdr + "calls = []\n" + hsrc + "def _o(f):\n    try: return ('ok', f())\n    except Exception as e: return ('err', type(e).__name__)\n" + prev + f"o = _o(lambda: {csrc})\n"
                    chk.fail(f"returns|history|{kind}|" + ("right-dimension-refused-or-altered" if want_ok else "wrong-dimension-" + ("returned" if g[0] == "ok" else g[1])),
                             f"after {si} earlier call(s) on the same decorated function, {csrc} gave {g[:2]}; required {'the result' if want_ok else 'TypeError'}",
                             {"python": body + (f"assert o[0] == 'ok', o\n" if want_ok else "assert o == ('err', 'TypeError'), o\n"), "history": rl})
            ask("c19.returns_seq", [vstr(dims[pn]) + ";" + vstr(dims[qn]), "#".join(rw)], ["seq", "".join(x[0] for x in rh), ",".join(x[1] for x in rh)], hsrc + "\n".join(rl))


def witness_replay(chk, flags):
    """the witnesses of the Lean counterexample theorems, on the real code: they must behave as the
    theorems say for the variant the translator detected"""
    from unyt import allclose_units, unyt_quantity as Q

    v1 = bool(allclose_units(Q(1.0, "m"), Q(150.0, "cm"), rtol=0, atol=0.6))
    v2 = bool(allclose_units(Q(150.0, "cm"), Q(1.0, "m"), rtol=0, atol=0.6))
    fixed = flags.get("bare_atol_in_desired_unit")
    chk.extra["witness_bare_atol"] = {"allclose_units(1 m, 150 cm, rtol=0, atol=0.6)": v1, "swapped": v2}
    if fixed is False and (v1, v2) != (True, False):
        chk.disagree("witness", f"bare_atol_witness predicts (True, False) on the unrepaired code, got {(v1, v2)}")
    # C19_affine_atol_counterexample (kept finding reads-qty-atol-as-point-on-offset-scale)
    v3 = bool(allclose_units(Q(0.0, "degC"), Q(0.5, "degC"), rtol=0, atol=Q(1.0, "K")))
    chk.extra["witness_qty_atol_on_offset_scale"] = {"allclose_units(0 degC, 0.5 degC, rtol=0, atol=1 K)": v3}
    if v3:
        chk.disagree("witness", "C19_affine_atol_counterexample predicts False for allclose_units(0 degC, 0.5 degC, rtol=0, atol=1 K), got True: "
                                "the finding is repaired — edit atolInActualUnit (.qty arm) and retire the counterexample")
    if fixed is True and (v1, v2) != (False, True):
        chk.disagree("witness", f"bare_atol_witness predicts (False, True) on the repaired code, got {(v1, v2)}")
