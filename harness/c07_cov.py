"""C07 covariance core (direct oracle, never consults the model).

One catalogue case (npcatalog template × dtype × shape class × data seed) is run twice on the real
library: on operands expressed in the base unit of their dimension group, and on the same operands
re-expressed (`x.to(u')`) for one group (or all groups).  The two results must denote the same thing:

  * a leaf that carries units (unyt_array / unyt_quantity) must carry units in both runs, of the same
    dimensions, and its SI magnitude (`value * units.base_value`) must be equal — bit for bit when the
    rescaling is a power of four in a custom registry (`mode='p4'`: every conversion factor, every unit
    scale and their square roots are exact in binary64), within a relative tolerance for ordinary
    units (`mode='ord'`);
  * a leaf that carries no units (ndarray, numpy scalar, python number, bool) must be numerically
    unchanged;
  * operands after the call (in-place functions, unit-carrying out= buffers) are compared likewise;
  * a function on the hand-written list `DIM_PRESERVING` must return a unyt object whose dimensions
    are those of its (group 0) input.

Keys of failures are `<function>|<what>` with what ∈ WHATS below.
"""
import warnings

import numpy as np

import npcatalog as C
import c07_templates  # noqa: F401  (registers the C07-specific templates)

WHATS = ("not-covariant", "unitless-changed", "units-dropped", "class-changed", "dimension-changed",
         "structure-changed", "raises-after-reexpression", "raises-before-reexpression", "operand-not-covariant")

# tolerance for ordinary (non-dyadic) units, relative to the largest magnitude of the leaf.  A covariance
# defect is gross by nature (a wrong power of the conversion factor: 39.37, 60, 2.2, 1e5, …), so 1e-6 loses
# nothing; anything subtle is caught by the exact mode (power-of-four rescaling, bit for bit).  Results
# held in float32 / complex64 are compared with 1e-3.
ORD_RTOL = 1e-6
NARROW_RTOL = 1e-3

# -----------------------------------------------------------------------------------------------
# units


class UnitsP4:
    """custom registry: group g has base unit `q<g>` and the power-of-four rescaling `q<g>p`"""

    name = "p4"
    exact = True
    _reg = None
    DIMS = ("length", "time", "mass")
    BASE = (1.0, 0.25, 4.0)
    FACT = (64.0, 1.0 / 16.0, 4.0)  # q<g>p = FACT * q<g>

    @classmethod
    def reg(cls):
        if cls._reg is None:
            import unyt
            import unyt.dimensions as D

            r = unyt.UnitRegistry()
            for g, d in enumerate(cls.DIMS):
                r.add(f"q{g}", cls.BASE[g], getattr(D, d))
                r.add(f"q{g}p", cls.BASE[g] * cls.FACT[g], getattr(D, d))
            r.add("qout", 1.0, D.current_mks)
            cls._reg = r
        return cls._reg

    @classmethod
    def unit(cls, name):
        import unyt

        return unyt.Unit(name, registry=cls.reg())

    @classmethod
    def base(cls, g):
        return cls.unit(f"q{g % 3}")

    @classmethod
    def alt(cls, g):
        return cls.unit(f"q{g % 3}p")

    @classmethod
    def dimless(cls):
        return cls.unit("dimensionless")

    @classmethod
    def out(cls):
        return cls.unit("qout")


class UnitsOrd:
    """ordinary units of the default registry (non-dyadic factors: tolerance)"""

    name = "ord"
    exact = False
    BASEN = ("m", "s", "kg")
    ALTN = ("inch", "min", "lb")

    @classmethod
    def unit(cls, name):
        import unyt

        return unyt.Unit(name)

    @classmethod
    def base(cls, g):
        return cls.unit(cls.BASEN[g % 3])

    @classmethod
    def alt(cls, g):
        return cls.unit(cls.ALTN[g % 3])

    @classmethod
    def dimless(cls):
        return cls.unit("dimensionless")

    @classmethod
    def out(cls):
        return cls.unit("A")


class UnitsOrd2(UnitsOrd):
    name = "ord2"
    BASEN = ("km", "ms", "g")
    ALTN = ("cm", "hr", "lb")


class UnitsMix(UnitsOrd):
    """ordinary units whose products and quotients CANCEL across operand groups with a numeric coefficient
    (km/s · hr = 3600 km, km/s · 1/cm = 1e5/s, hr / (km/s) = 3600 s²/km …), re-expressed in coherent SI
    units, where nothing is left to simplify: with all groups re-expressed the comparison is
    "SI magnitude of F(x) = F(SI magnitudes of x)" — a handler that simplifies the unit of its result
    without applying the simplification coefficient to the numbers fails it"""

    name = "mix"
    BASEN = ("km/s", "hr", "cm**-1")
    ALTN = ("m/s", "s", "m**-1")


MODES = {"p4": UnitsP4, "ord": UnitsOrd, "ord2": UnitsOrd2, "mix": UnitsMix}

# -----------------------------------------------------------------------------------------------
# bare numbers that the call form gives in the unit of an operand group: unyt (and the reader) takes
# them "in the units of the array", so a re-expression of that group re-expresses them too.
# (function id, parameter name) -> group of the operand whose unit the number is in
IMPLICIT = {
    ("numpy.clip", "a_min"): 0, ("numpy.clip", "a_max"): 0, ("numpy.clip", "min"): 0, ("numpy.clip", "max"): 0,
    ("ndarray.clip", "min"): 0, ("ndarray.clip", "max"): 0,
    ("numpy.histogram", "range"): 0, ("numpy.histogram", "bins"): 0,
    ("numpy.histogram_bin_edges", "range"): 0,
    ("numpy.histogram2d", "range"): (0, 1),
    ("numpy.nan_to_num", "nan"): 0, ("numpy.nan_to_num", "posinf"): 0, ("numpy.nan_to_num", "neginf"): 0,
    ("numpy.interp", "left"): 1, ("numpy.interp", "right"): 1, ("numpy.interp", "period"): 0,
    ("numpy.unwrap", "discont"): 0, ("numpy.unwrap", "period"): 0,
    ("numpy.isclose", "atol"): 0, ("numpy.allclose", "atol"): 0,
    ("numpy.isclose", "b"): 0, ("numpy.allclose", "b"): 0,
    ("numpy.put", "v"): 0, ("ndarray.put", "values"): 0, ("numpy.place", "vals"): 0, ("numpy.putmask", "values"): 0,
    ("ndarray.fill", "value"): 0, ("ndarray.__setitem__", "value"): 0, ("numpy.fill_diagonal", "val"): 0,
    ("ndarray.searchsorted", "v"): 0,
    ("numpy.real_if_close", "tol"): None,
    ("numpy.linalg.matrix_rank", "tol"): 0,
    ("numpy.gradient", "varargs"): None,
    ("ndarray.dot", "b"): None,
}
# positional parameter names of ndarray methods whose signature cannot be introspected
# absolute tolerances that default to a bare number: the default is "1e-8 in the units of a" exactly as an
# explicit bare atol is; the re-expressed call passes the re-expressed default
IMPLICIT_DEFAULTS = {("numpy.isclose", "atol"): (1e-8, 0), ("numpy.allclose", "atol"): (1e-8, 0)}
METHOD_PARAMS = {
    "ndarray.clip": ("self", "min", "max", "out"),
    "ndarray.put": ("self", "indices", "values", "mode"),
    "ndarray.fill": ("self", "value"),
    "ndarray.__setitem__": ("self", "key", "value"),
    "ndarray.searchsorted": ("self", "v", "side", "sorter"),
}


def _bind_names(t, args, kwargs):
    """[(name, container, key)] for every top-level argument"""
    import inspect

    out = []
    if t.is_method or t.func.startswith("ndarray."):
        names = METHOD_PARAMS.get(t.func)
        for i in range(len(args)):
            out.append((names[i] if names and i < len(names) else f"#{i}", args, i))
        for k in kwargs:
            out.append((k, kwargs, k))
        return out
    f = C.resolve(t.func)
    try:
        params = list(inspect.signature(f).parameters.values())
    except Exception:  # noqa: BLE001
        params = []
    for i in range(len(args)):
        if i < len(params) and params[i].kind in (params[i].POSITIONAL_ONLY, params[i].POSITIONAL_OR_KEYWORD):
            out.append((params[i].name, args, i))
        else:
            out.append((f"#{i}", args, i))
    for k in kwargs:
        out.append((k, kwargs, k))
    return out


def _is_bare_number(v):
    if isinstance(v, bool):
        return False
    if isinstance(v, (int, float, complex, np.integer, np.floating)):
        return True
    if isinstance(v, np.ndarray) and type(v) is np.ndarray and v.dtype.kind in "fic":
        return True
    if isinstance(v, (tuple, list)) and v and all(_is_bare_number(x) for x in v):
        return True
    return False


def _scale(v, f):
    if isinstance(v, (tuple, list)):
        return type(v)(_scale(x, f) for x in v)
    if isinstance(v, np.ndarray):
        return v * f
    return v * f


# -----------------------------------------------------------------------------------------------
# functions that are not scale-covariant BY NATURE (justified in design.d/C07.md); nothing is loosened for
# any other function

# rounding to a decimal place of the NUMBER: the property lists rounding among the functions that must
# return a unyt object in commensurable units, not among the covariant ones.  Class and dimension are
# still checked; the numbers are not compared.
ROUNDING = {"numpy.around", "numpy.round", "numpy.fix", "ndarray.round"}
# explicit export of the raw numbers in the current unit (Python protocols and serialisation fix the
# return type: float(), int(), complex(), .item(), .tolist(), bytes, files, np.asarray / view as ndarray)
RAW_EXPORT = {"ndarray.item", "ndarray.tolist", "ndarray.tobytes", "ndarray.tofile", "ndarray.dump", "ndarray.dumps",
              "ndarray.__float__", "ndarray.__int__", "ndarray.__complex__", "ndarray.__array__", "ndarray.flat",
              "ndarray.view|type", "numpy.save", "numpy.savez", "numpy.savez_compressed", "numpy.savetxt",
              "ndarray.to_device"}
# reinterpretation of the stored bytes
BYTE_LEVEL = {"ndarray.view|dtype", "ndarray.getfield", "ndarray.setfield", "ndarray.byteswap"}
# a constant in the array's own unit, by NumPy's "like" contract (the value is not a function of the quantity)
CONSTANT_LIKE = {"numpy.ones_like"}
# the result is a dtype chosen from the VALUE of a scalar (np.min_scalar_type)
VALUE_BASED_DTYPE = {"numpy.min_scalar_type"}
# text
TEXT = {"numpy.array_repr", "numpy.array_str", "numpy.array2string"}
# NumPy widens a zero-width data range by the bare constants ±0.5 and uses (0, 1) for empty data
DEGENERATE_RANGE = {"numpy.histogram", "numpy.histogram_bin_edges", "numpy.histogram2d", "numpy.histogramdd"}
# the order of the result is unspecified: compared as multisets
ORDER_UNSPECIFIED = {"numpy.unique|unsorted", "numpy.unique_values|pos"}


def skip_reason(t, sc):
    if t.func in RAW_EXPORT or t.tid in RAW_EXPORT:
        return "raw-export"
    if t.func in BYTE_LEVEL or t.tid in BYTE_LEVEL:
        return "byte-level"
    if t.func in CONSTANT_LIKE:
        return "constant-like"
    if t.func in VALUE_BASED_DTYPE:
        return "value-based-dtype"
    if t.func in TEXT or t.result == "string":
        return "text"
    if t.func in DEGENERATE_RANGE and sc in ("0d", "empty"):
        return "degenerate-range"
    return None


# -----------------------------------------------------------------------------------------------
# running one side


def _wrap(U, regroup, reexpress, out_mode):
    import unyt

    def wrap(op):
        d = op.data
        if op.role == "out":
            if out_mode == "bare":
                return d.copy()
            return unyt.unyt_array(d.copy(), U.out())
        if not op.dimless:
            # integer data: a conversion makes it float64 anyway (C17's matter); use float64 in both runs
            if isinstance(d, np.ndarray) and d.dtype.kind in "iu":
                d = d.astype(np.float64)
            elif isinstance(d, int) and not isinstance(d, bool):
                d = float(d)
        if op.dimless:
            u = U.dimless()
            tgt = None
        else:
            u = U.base(op.group)
            tgt = U.alt(op.group) if (reexpress and (regroup == "all" or regroup == op.group % 3)) else None
        if isinstance(d, np.ndarray) and d.ndim > 0:
            q = unyt.unyt_array(d.copy(), u)
        elif isinstance(d, np.ndarray):
            q = unyt.unyt_quantity(d.copy(), u)
        else:
            q = unyt.unyt_quantity(d, u)
        if tgt is not None:
            q = q.to(tgt)
        return q

    return wrap


def factor(U, g):
    """numbers in the base unit of group g times this = numbers in the alternative unit"""
    return U.base(g).base_value / U.alt(g).base_value


def canon(x, depth=0):
    """leaves: ('q', si ndarray, dims, unit string, class) | ('b', ndarray) | ('py', repr) | ('seq', [...])"""
    import unyt

    if isinstance(x, unyt.unyt_array):
        v = np.asarray(x)
        if type(v) is not np.ndarray:
            v = v.view(np.ndarray)
        bv = x.units.base_value
        with np.errstate(all="ignore"):
            si = v * bv if v.dtype.kind in "fciub" else v
        return ("q", np.array(si), str(x.units.dimensions), str(x.units), type(x).__name__,
                float(x.units.base_offset or 0.0))
    if isinstance(x, unyt.Unit):
        return ("py", "Unit")
    if isinstance(x, (np.ndarray, np.generic)):
        a = np.asarray(x)
        if type(a) is not np.ndarray:
            a = a.view(np.ndarray)
        if a.dtype.kind == "O":
            return ("seq", [canon(v, depth + 1) for v in a.ravel().tolist()])
        return ("b", np.array(a))
    if isinstance(x, (bool, int, float, complex)):
        return ("b", np.asarray(x))
    if isinstance(x, (tuple, list)) and depth < 6:
        return ("seq", [canon(v, depth + 1) for v in x])
    if isinstance(x, dict):
        return ("seq", [canon(v, depth + 1) for _k, v in sorted(x.items(), key=lambda kv: repr(kv[0]))])
    if isinstance(x, np.flatiter):
        return canon(np.array(x), depth + 1)
    if x is None or isinstance(x, (str, bytes, np.dtype, type)):
        return ("py", type(x).__name__)
    return ("py", type(x).__name__)


def run_side(t, call, U, regroup, reexpress, out_mode, raw=None):
    """`raw`: a list that receives the object the call returned (c07_hist reads the unit label off it)"""
    try:
        args, kwargs, objs = call.materialize(_wrap(U, regroup, reexpress, out_mode))
    except Exception as e:  # noqa: BLE001  (datetime operands of unsupported functions cannot be converted)
        return {"outcome": "nobuild", "exc": type(e).__name__}
    if reexpress:
        fid = t.func if t.func.startswith("ndarray.") else C.canonical_func(t)
        for name, cont, key in _bind_names(t, args, kwargs):
            g = IMPLICIT.get((fid, name), "no")
            if g == "no" or g is None:
                continue
            v = cont[key]
            if not _is_bare_number(v):
                continue
            if name == "bins" and not isinstance(v, np.ndarray):
                continue  # a number of bins, not edges
            if isinstance(g, tuple):
                # a per-axis list of (lo, hi) pairs in the units of successive groups
                vv = list(v)
                for i, gg in enumerate(g):
                    if i < len(vv) and (regroup == "all" or regroup == gg):
                        vv[i] = _scale(vv[i], factor(U, gg))
                cont[key] = type(v)(vv) if isinstance(v, tuple) else vv
            elif regroup == "all" or regroup == g:
                cont[key] = _scale(v, factor(U, g))
        bound = {name for name, _c, _k in _bind_names(t, args, kwargs)}
        for (f_, p_), (dflt, g) in IMPLICIT_DEFAULTS.items():
            if f_ == fid and p_ not in bound and (regroup == "all" or regroup == g):
                kwargs[p_] = dflt * factor(U, g)
    with warnings.catch_warnings():
        warnings.simplefilter("ignore")
        try:
            r = t.invoke(args, kwargs)
        except Exception as e:  # noqa: BLE001
            return {"outcome": "raise", "exc": type(e).__name__, "msg": str(e)[:200]}
    import unyt

    if raw is not None:
        raw.append(r)
    ops = []
    for op, o in objs:
        if isinstance(o, unyt.unyt_array):
            ops.append((op.role, canon(o)))
        else:
            ops.append((op.role, None))  # bare buffers hold raw numbers in whatever unit: not compared
    return {"outcome": "ok", "result": canon(r) if t.result != "string" else ("py", "str"), "ops": ops}


# -----------------------------------------------------------------------------------------------
# comparison


def _bits_equal(a, b):
    if a.shape != b.shape:
        return False
    if a.dtype != b.dtype:
        try:
            k = np.result_type(a.dtype, b.dtype)
            a, b = a.astype(k), b.astype(k)
        except Exception:  # noqa: BLE001
            return False
    if a.dtype.kind in "fc":
        return bool(np.array_equal(a, b, equal_nan=True))
    return bool(np.array_equal(a, b))


def _close(a, b, rtol):
    if a.shape != b.shape:
        return False
    if a.dtype.kind not in "fc" and b.dtype.kind not in "fc":
        return bool(np.array_equal(a, b))
    if (a.dtype.kind in "fc" and a.dtype.itemsize // (2 if a.dtype.kind == "c" else 1) < 8) or \
            (b.dtype.kind in "fc" and b.dtype.itemsize // (2 if b.dtype.kind == "c" else 1) < 8):
        rtol = max(rtol, NARROW_RTOL)
    a = a.astype(np.complex128 if "c" in (a.dtype.kind, b.dtype.kind) else np.float64)
    b = b.astype(a.dtype)
    with np.errstate(all="ignore"):
        fin = np.isfinite(a) & np.isfinite(b)
        if not bool(np.array_equal(np.isnan(a), np.isnan(b))):
            return False
        if not bool(np.array_equal(a[~fin & ~np.isnan(a)], b[~fin & ~np.isnan(b)])):
            return False
        if not fin.any():
            return True
        scale = max(float(np.max(np.abs(a[fin]))), float(np.max(np.abs(b[fin]))))
        return bool(np.all(np.abs(a[fin] - b[fin]) <= rtol * scale))


def _brief(c):
    if c is None:
        return "-"
    if c[0] == "q":
        return f"{c[4]}[{c[3]}] SI={np.array2string(c[1], threshold=5, precision=8)[:90]}"
    if c[0] == "b":
        return f"bare {c[1].dtype}{list(c[1].shape)} {np.array2string(c[1], threshold=5, precision=8)[:90]}"
    if c[0] == "seq":
        return "(" + ", ".join(_brief(v) for v in c[1][:4]) + ")"
    return str(c)


def _stale_out(c, U):
    """the leaf still carries the unit the out= buffer was created with"""
    return c[0] == "q" and c[3] == str(U.out())


# kernels that go through log/exp/pow with a non-integer exponent: scaling by a power of four is not
# exact in binary64; compared with the ordinary tolerance also in the exact mode
# (np.linalg.det is sign * exp(Σ log|u_ii|) in NumPy's umath_linalg)
INEXACT = {"numpy.geomspace", "numpy.logspace", "numpy.linalg.det"}
INEXACT_TEMPLATES = {"numpy.linalg.norm|ord3"}


def inexact_kernel(t):
    return t.func in INEXACT or t.tid in INEXACT_TEMPLATES


def compare_leaf(a, b, exact, rtol=ORD_RTOL, values=True):
    """None or (what, detail)"""
    if a[0] != b[0]:
        if {a[0], b[0]} == {"q", "b"}:
            return ("class-changed", f"{_brief(a)}  vs  {_brief(b)}")
        return ("structure-changed", f"{_brief(a)}  vs  {_brief(b)}")
    if a[0] == "seq":
        if len(a[1]) != len(b[1]):
            return ("structure-changed", f"{len(a[1])} vs {len(b[1])} components")
        for x, y in zip(a[1], b[1]):
            d = compare_leaf(x, y, exact, rtol, values)
            if d:
                return d
        return None
    if a[0] == "py":
        return None if a == b else ("structure-changed", f"{a} vs {b}")
    if a[0] == "q":
        if a[2] != b[2]:
            return ("dimension-changed", f"{_brief(a)}  vs  {_brief(b)}")
        if a[5] != 0.0 or b[5] != 0.0 or not values:
            return None  # offset units: C08's matter; unspecified numbers (empty_like)
        ok = _bits_equal(a[1], b[1]) if exact else _close(a[1], b[1], rtol)
        return None if ok else ("not-covariant", f"{_brief(a)}  vs  {_brief(b)}")
    if not values:
        return None
    ok = _bits_equal(a[1], b[1]) if exact else _close(a[1], b[1], rtol)
    return None if ok else ("unitless-changed", f"{_brief(a)}  vs  {_brief(b)}")


def leaves(c, out):
    if c[0] == "seq":
        for v in c[1]:
            leaves(v, out)
    else:
        out.append(c)
    return out


# eigenvectors are determined up to a phase factor each; LAPACK's geev normalises so that the component of
# largest modulus is real, a choice that a rounding difference can flip.  In the tolerance modes the
# eigenvector leaf is compared by modulus (the exact mode compares it bit for bit).
PHASE_GAUGE = {"numpy.linalg.eig": (1,)}


def _abs_leaves(c, idx):
    if c[0] != "seq":
        return c
    out = list(c[1])
    for i in idx:
        if i < len(out) and out[i][0] in ("q", "b"):
            out[i] = out[i][:1] + (np.abs(out[i][1]),) + out[i][2:]
    return ("seq", out)


def _drop_bare(c):
    if c[0] == "b":
        return ("py", "bare-out-buffer")
    if c[0] == "seq":
        return ("seq", [_drop_bare(v) for v in c[1]])
    return c


def _ill_conditioned(call, limit=1e4):
    for op in call.ops():
        d = op.data
        if isinstance(d, np.ndarray) and d.ndim >= 2 and d.dtype.kind in "fciu" and d.size:
            try:
                with np.errstate(all="ignore"):
                    c = np.linalg.cond(d.astype(np.complex128 if d.dtype.kind == "c" else np.float64))
                if not np.all(np.isfinite(c)) or np.max(c) > limit:
                    return True
            except Exception:  # noqa: BLE001
                return True
    return False


def _sorted_leaf(c):
    if c[0] in ("q", "b") and c[1].ndim == 1:
        return c[:1] + (np.sort(c[1]),) + c[2:]
    return c


def compare(t, dk, sc, seed, mode="p4", regroup=0, out_mode="unyt"):
    """(status, detail).  status ∈ skip-build | no-such-group | raise-both | raises-after-reexpression |
    raises-before-reexpression | same | differ (detail = [(what, text)])"""
    return compare_units(t, dk, sc, seed, MODES[mode], regroup, out_mode)


def compare_units(t, dk, sc, seed, U, regroup=0, out_mode="unyt", raw=None):
    """`compare` for any provider of units `U` (base/alt/dimless/out, exact); `raw` receives the object the
    re-expressed call returned"""
    why = skip_reason(t, sc)
    if why:
        return "excluded:" + why, None
    try:
        call = t.instantiate(dk, sc, seed)
    except Exception as e:  # noqa: BLE001
        return "skip-build", type(e).__name__
    groups = {op.group % 3 for op in call.ops() if op.role == "value" and not op.dimless}
    if dk == "c" and any(isinstance(op.data, np.ndarray) and op.data.dtype.kind == "c" and np.isnan(op.data).any()
                         for op in call.ops()):
        # (nan + 2j) * factor = (nan + nan j) in NumPy: converting complex data with a NaN part is not
        # a re-expression of the same numbers; NaN handling is exercised on float data
        return "skip-complex-nan", None
    if regroup != "all" and regroup not in groups:
        return "no-such-group", None
    if not groups:
        return "no-such-group", None
    exact = U.exact and not inexact_kernel(t) and not (dk == "c" and t.func.startswith("numpy.linalg."))
    if not exact and t.func.startswith("numpy.linalg.") and _ill_conditioned(call):
        # the tolerance comparison of an (effectively) inverse needs a bounded condition number; the exact
        # mode (float64, power-of-four rescaling) compares these cases bit for bit
        return "skip-ill-conditioned", None
    a = run_side(t, call, U, regroup, False, out_mode)
    b = run_side(t, call, U, regroup, True, out_mode, raw)
    if a["outcome"] == "nobuild" or b["outcome"] == "nobuild":
        return "skip-build", a.get("exc") or b.get("exc")
    if a["outcome"] == "raise" and b["outcome"] == "raise":
        return "raise-both", a["exc"]
    if a["outcome"] == "raise":
        return "raises-before-reexpression", f"{a['exc']}: {a['msg']}"
    if b["outcome"] == "raise":
        return "raises-after-reexpression", f"{b['exc']}: {b['msg']}"
    diffs = []
    values = t.values and t.func not in ROUNDING
    # (a bare out= buffer does not excuse a bare result: `np.dot(x, y, out=bare)`, `np.take(x, i, out=bare)` … return
    # a unyt object wrapping the buffer; a function that hands the bare buffer back has dropped the units)
    if not exact and t.func in PHASE_GAUGE:
        a["result"], b["result"] = _abs_leaves(a["result"], PHASE_GAUGE[t.func]), _abs_leaves(b["result"], PHASE_GAUGE[t.func])
    if t.tid in ORDER_UNSPECIFIED:
        a["result"], b["result"] = _sorted_leaf(a["result"]), _sorted_leaf(b["result"])
    d = compare_leaf(a["result"], b["result"], exact, values=values)
    if d:
        if d[0] == "not-covariant" and t.out_form and out_mode == "unyt" and _stale_out(a["result"], U):
            d = ("out-unit-stale", d[1])
        diffs.append(d)
    unspecified = bool(call.kwargs.get("overwrite_input"))  # operand contents after the call are unspecified
    for i, ((role, ca), (_r, cb)) in enumerate(zip(a["ops"], b["ops"])):
        if ca is None or cb is None or unspecified:
            continue
        d = compare_leaf(ca, cb, exact, values=values)
        if d:
            if role == "out" and _stale_out(ca, U):
                # the buffer that received the result still carries the unit it was created with
                if not any(w == "out-unit-stale" for w, _x in diffs):
                    diffs.append(("out-unit-stale", f"operand {i} (out) after the call: {d[1]}"))
                continue
            diffs.append(("operand-not-covariant", f"operand {i} ({role}) after the call: {d[0]}: {d[1]}"))
    info = {"result": a["result"], "call": call}
    if diffs:
        return "differ", diffs
    return "same", info


def result_classes(t, dk, sc, seed, mode="p4", out_mode="unyt"):
    """the leaves of the base-unit run: [(kind 'q'|'b'|'py', dims or None, class)] or None when it raises"""
    U = MODES[mode]
    try:
        call = t.instantiate(dk, sc, seed)
    except Exception:  # noqa: BLE001
        return None
    a = run_side(t, call, U, 0, False, out_mode)
    if a["outcome"] != "ok":
        return None
    return [(c[0], c[2] if c[0] == "q" else None, c[4] if c[0] == "q" else None) for c in leaves(a["result"], [])]


def replay_snippet(t, dk, sc, seed, mode, regroup, out_mode, harness_dir, what):
    return (
        "import sys, warnings\n"
        "warnings.simplefilter('ignore')\n"
        f"sys.path.insert(0, {harness_dir!r})\n"
        "import numpy as np\n"
        "np.seterr(all='ignore')\n"
        "import npcatalog as C, c07_cov as V\n"
        f"t = [t for t in C.templates() if t.tid == {t.tid!r}][0]\n"
        f"st, detail = V.compare(t, {dk!r}, {sc!r}, {seed!r}, {mode!r}, {regroup!r}, {out_mode!r})\n"
        f"call = t.instantiate({dk!r}, {sc!r}, {seed!r})\n"
        "print('call:', t.func, '(', call.describe(), ')')\n"
        f"print('units: mode', {mode!r}, 'group re-expressed:', {regroup!r}, ' status:', st)\n"
        "print(detail if st != 'same' else '')\n"
        f"bad = {what!r}\n"
        "hit = (st == bad) or (st == 'differ' and any(d[0] == bad for d in detail))\n"
        "assert not hit, (st, detail)\n"
    )


# -----------------------------------------------------------------------------------------------
# class / dimension of the result (second sentence of the property; "indices, counts, booleans")


def _numeric_leaves(c):
    return [x for x in leaves(c, []) if x[0] in ("q", "b")]


def base_check(t, dk, sc, seed, mode, out_mode, dim_preserving, unitless, dim_operand):
    """[(what, text)] for the run in base units:
       units-dropped   a dimension-preserving function returned a bare / dimensionless / differently
                       dimensioned first result instead of a unyt object in the input's dimension
       spurious-units  an index / count / boolean / correlation result carries (non-trivial) units"""
    import c06_trace as TR

    fid = t.func if t.func.startswith("ndarray.") else C.canonical_func(t)
    if fid not in dim_preserving and fid not in unitless:
        return []
    if skip_reason(t, sc) in ("raw-export", "byte-level", "text"):
        return []
    U = MODES[mode]
    try:
        call = t.instantiate(dk, sc, seed)
    except Exception:  # noqa: BLE001
        return []
    vals = [op for op in call.ops() if op.role == "value" and not op.dimless]
    if not vals:
        return []
    a = run_side(t, call, U, 0, False, out_mode)
    if a["outcome"] != "ok":
        return []
    out = []
    nl = _numeric_leaves(a["result"])
    if fid in unitless:
        for lf in nl:
            if lf[0] == "q" and lf[2] not in ("1", "(dimensionless)", "dimensionless"):
                out.append(("spurious-units", f"{_brief(lf)}"))
                break
    if fid in dim_preserving and nl:
        g = vals[0].group
        p = dim_operand.get(fid)
        if p is not None and not t.func.startswith("ndarray."):
            args, kwargs, objs = call.materialize(lambda op: op)
            flat, _s = TR.bind(C.resolve(t.func), args, kwargs)
            v = (flat or {}).get(p)
            while isinstance(v, (list, tuple)) and v:
                v = v[0]
            if isinstance(v, C.Op):
                g = v.group
        want = str(U.base(g).dimensions)
        lf = nl[0]
        if t.out_form and out_mode == "unyt" and _stale_out(lf, U):
            pass  # reported as out-unit-stale by the covariance comparison
        elif lf[0] != "q":
            out.append(("units-dropped", f"first result is {_brief(lf)}; required: a unyt object of dimension {want}"))
        elif lf[2] != want:
            out.append(("units-dropped", f"first result is {_brief(lf)} of dimension {lf[2]}; required: dimension {want}"))
    return out


def base_replay_snippet(t, dk, sc, seed, mode, out_mode, harness_dir, what, lists):
    return (
        "import sys, warnings\n"
        "warnings.simplefilter('ignore')\n"
        f"sys.path.insert(0, {harness_dir!r})\n"
        "import numpy as np\n"
        "np.seterr(all='ignore')\n"
        "import npcatalog as C, c07_cov as V\n"
        f"t = [t for t in C.templates() if t.tid == {t.tid!r}][0]\n"
        f"dimp, unitless, dimop = {lists!r}\n"
        f"r = V.base_check(t, {dk!r}, {sc!r}, {seed!r}, {mode!r}, {out_mode!r}, set(dimp), set(unitless), dimop)\n"
        f"call = t.instantiate({dk!r}, {sc!r}, {seed!r})\n"
        "print('call:', t.func, '(', call.describe(), ')', r)\n"
        f"assert not any(w == {what!r} for w, _x in r), r\n"
    )
