"""c06_alias — the ALIASING input class of C06 and the handlers' pre-kernel decision logic.

The catalogue (npcatalog) materialises every operand placeholder as an object of its own, so no call
of the base catalogue ever passes the *same object* in two argument slots, and (outside the `nan`
templates) no operand holds a NaN.  A handler whose control flow looks at operand identity
(`a1 is a2`, `id(a) == id(b)`, `np.shares_memory`) is therefore invisible there.  This module adds

  * derived templates, for EVERY catalogue template (functions and methods) with at least two array
    value operands:
        <variant>@alias      the second operand is replaced by the first one — the same Python object
                             on the quantity side, the same ndarray on the bare side (f(x, x));
        <variant>@alias-nan  the same, with one NaN in the (float/complex) data — the data class on
                             which "x equals itself" is false in NumPy;
    and, for the functions whose handler has a kernel-free constant `return` (see `static_exits`):
        <variant>@mixed      the second operand is put in another unit group (f(x [m], y [s])) so that
                             the units-guarded exits really fire;
  * `AliasCall`: a `Call` whose `materialize` maps one placeholder to ONE object;
  * `static_exits(handler)`: ast pass over the live source — the pre-kernel decision logic of a
    handler as data (kind units | identity | other, raises, source text), helpers inlined.

`register()` appends the derived templates to the catalogue of the running process (idempotent).
It is called by the C06 harness, the C06 translator plugin and the replay snippets only, so the other
checks that share npcatalog see the catalogue they were built against.
"""
import ast
import inspect
import io
import textwrap
import types

import numpy as np

import npcatalog as C


class AliasCall(C.Call):
    """a Call in which one `Op` object may occur in several slots: it is materialised ONCE and the
    same object is handed to every slot"""

    def materialize(self, wrap):
        objs = []
        memo = {}

        def walk(x):
            if isinstance(x, C.Op):
                if id(x) not in memo:
                    memo[id(x)] = wrap(x)
                o = memo[id(x)]
                objs.append((x, o))
                return o
            if isinstance(x, list):
                return [walk(y) for y in x]
            if isinstance(x, tuple):
                return tuple(walk(y) for y in x)
            if isinstance(x, dict):
                return {k: walk(v) for k, v in x.items()}
            if isinstance(x, np.ndarray):
                return x.copy()
            if isinstance(x, io.BytesIO):
                return io.BytesIO()
            if isinstance(x, io.StringIO):
                return io.StringIO()
            return x

        args = [walk(a) for a in self.args]
        kwargs = {k: walk(v) for k, v in self.kwargs.items()}
        return args, kwargs, objs


def _subst(x, mapping):
    if isinstance(x, C.Op):
        return mapping.get(id(x), x)
    if isinstance(x, list):
        return [_subst(y, mapping) for y in x]
    if isinstance(x, tuple):
        return tuple(_subst(y, mapping) for y in x)
    if isinstance(x, dict):
        return {k: _subst(v, mapping) for k, v in x.items()}
    return x


def eligible(call):
    """array value operands that may carry any unit, in traversal order (distinct placeholders)"""
    out = []
    for op in call.ops():
        if op.role == "value" and not op.dimless and isinstance(op.data, np.ndarray) and all(op is not o for o in out):
            out.append(op)
    return out


def slots_of(call):
    """[(slot path, object number)] of the operand placeholders of a call, numbered by first occurrence
    (two slots with the same number hold the same object)"""
    ids = {}
    out = []

    def walk(x, path):
        if isinstance(x, C.Op):
            out.append((path, ids.setdefault(id(x), len(ids))))
        elif isinstance(x, (list, tuple)):
            for i, y in enumerate(x):
                walk(y, f"{path}[{i}]")
        elif isinstance(x, dict):
            for k, y in x.items():
                walk(y, f"{path}.{k}")

    for i, a in enumerate(call.args):
        walk(a, f"#{i}")
    for k, v in call.kwargs.items():
        walk(v, k)
    return out


class _NotApplicable(Exception):
    pass


def _derive(t, kind):
    def build(c, t=t, kind=kind):
        call = t.build(c)
        el = eligible(call)
        if len(el) < 2:
            raise _NotApplicable(t.tid)
        a, b = el[0], el[1]
        if kind == "mixed":
            nb = C.Op(b.data, b.role, a.group + 1, b.dimless)
            return AliasCall(*_subst(call.args, {id(b): nb}), **_subst(call.kwargs, {id(b): nb}))
        data = a.data
        if kind == "alias-nan":
            if data.dtype.kind not in "fc" or data.size == 0:
                raise _NotApplicable(t.tid)
            data = data.copy()
            data.reshape(-1)[int(c.rng.integers(0, data.size))] = np.nan
        na = C.Op(data, a.role, a.group, a.dimless)
        m = {id(a): na, id(b): na}
        return AliasCall(*_subst(call.args, m), **_subst(call.kwargs, m))

    dtypes = t.dtypes if kind != "alias-nan" else "".join(d for d in t.dtypes if d in "fc")
    shapes = t.shapes if kind != "alias-nan" else tuple(s for s in t.shapes if s != "empty")
    d = C.Template(t.func, f"{t.variant}@{kind}", build, shapes=shapes, dtypes=dtypes, invoke=t._invoke,
                   values=t.values, result=t.result, out_form=t.out_form)
    d.alias_kind = kind
    d.base_variant = t.variant
    return d


def _has_two(t):
    for sc in t.shapes:
        for dk in t.dtypes[:1]:
            try:
                call = t.instantiate(dk, sc, 0)
            except Exception:  # noqa: BLE001
                continue
            return len(eligible(call)) >= 2
    return False


_REGISTERED = False


def register():
    """append the derived templates to the catalogue of this process (idempotent)"""
    global _REGISTERED
    if _REGISTERED:
        return
    _REGISTERED = True
    base = [t for t in C.templates(only_available=False) if not hasattr(t, "alias_kind")]
    mixed_funcs = set()
    try:
        import unyt._array_functions as AF

        for f, h in AF._HANDLED_FUNCTIONS.items():
            if any(e["kind"] != "identity" and not e["raises"] for e in static_exits(h)):
                mixed_funcs.add(C.name_of(f))
    except Exception:  # noqa: BLE001
        pass
    for t in base:
        if not t.available() or not _has_two(t):
            continue
        C._TEMPLATES.append(_derive(t, "alias"))
        if any(d in "fc" for d in t.dtypes):
            C._TEMPLATES.append(_derive(t, "alias-nan"))
        if C.canonical_func(t) in mixed_funcs:
            C._TEMPLATES.append(_derive(t, "mixed"))


def unregister():
    """remove the derived templates again (translator plugins share one process with other checks' plugins)"""
    global _REGISTERED
    C._TEMPLATES[:] = [t for t in C._TEMPLATES if not hasattr(t, "alias_kind")]
    _REGISTERED = False


def kind_of(t):
    return getattr(t, "alias_kind", None)


# --------------------------------------------------------------------------------------
# ast pass: the pre-kernel decision logic of a handler


def _root_names(node):
    return {n.id for n in ast.walk(node) if isinstance(n, ast.Name)}


def _is_constant_like(node):
    if isinstance(node, ast.Constant):
        return True
    if isinstance(node, ast.Attribute) and node.attr in ("_NoValue",):
        return True
    return False


def _fdef(fn):
    try:
        tree = ast.parse(textwrap.dedent(inspect.getsource(fn)))
    except Exception:  # noqa: BLE001
        return None
    return next((n for n in ast.walk(tree) if isinstance(n, ast.FunctionDef)), None)


def _locals(fdef):
    names = {a.arg for a in fdef.args.posonlyargs + fdef.args.args + fdef.args.kwonlyargs}
    if fdef.args.vararg:
        names.add(fdef.args.vararg.arg)
    if fdef.args.kwarg:
        names.add(fdef.args.kwarg.arg)
    for n in ast.walk(fdef):
        if isinstance(n, ast.Name) and isinstance(n.ctx, ast.Store):
            names.add(n.id)
    return names


def _unit_locals(fdef):
    """local names bound to units of operands: `u = getattr(x, "units", …)`, `u = x.units`, and names
    computed from such names only"""
    out = set()
    changed = True
    while changed:
        changed = False
        for n in ast.walk(fdef):
            if not isinstance(n, ast.Assign) or len(n.targets) != 1 or not isinstance(n.targets[0], ast.Name):
                continue
            tgt, v = n.targets[0].id, n.value
            if tgt in out:
                continue
            is_units = (isinstance(v, ast.Attribute) and v.attr in ("units", "dimensions")) or (
                isinstance(v, ast.Call) and isinstance(v.func, ast.Name) and v.func.id == "getattr" and len(v.args) >= 2
                and isinstance(v.args[1], ast.Constant) and v.args[1].value in ("units", "dimensions"))
            if is_units:
                out.add(tgt)
                changed = True
    return out


def _identity_atoms(fdef):
    """source text of every expression of `fdef` whose value depends on the identity / memory overlap
    of two local objects (neither side a constant such as None, nor a module-level name)"""
    loc = _locals(fdef)
    out = []
    for n in ast.walk(fdef):
        if isinstance(n, ast.Compare):
            sides = [n.left] + list(n.comparators)
            for i, op in enumerate(n.ops):
                l, r = sides[i], sides[i + 1]
                if isinstance(op, (ast.Is, ast.IsNot)):
                    if _is_constant_like(l) or _is_constant_like(r):
                        continue
                    rl, rr = _root_names(l), _root_names(r)
                    if rl and rr and rl <= loc and rr <= loc:
                        out.append(ast.unparse(n))
                elif isinstance(op, (ast.Eq, ast.NotEq)):
                    def is_id(x):
                        return isinstance(x, ast.Call) and isinstance(x.func, ast.Name) and x.func.id == "id"
                    if is_id(l) and is_id(r):
                        out.append(ast.unparse(n))
        elif isinstance(n, ast.Call):
            f = n.func
            name = f.attr if isinstance(f, ast.Attribute) else f.id if isinstance(f, ast.Name) else ""
            if name in ("shares_memory", "may_share_memory"):
                out.append(ast.unparse(n))
    return out


def static_exits(handler, _depth=0, _seen=None):
    """the pre-kernel decision logic of a handler, from its live source:
      [{kind: 'identity', raises: False, src}]  for every identity / memory-overlap test between local
          objects in the handler or in any module-level helper it (transitively) calls;
      [{kind: 'units' | 'other', raises, src}]  for every `if <test>:` whose body ends in a kernel-free
          `return <no call>` / `raise`-free constant return, in the handler body or in a helper it
          tail-calls (`return helper(...)`); 'units' when the test only reads names bound to operands' units.
    Order = source order (identity tests first within one function only when they come first)."""
    import unyt._array_functions as AF

    _seen = _seen if _seen is not None else set()
    if handler in _seen or _depth > 3:
        return []
    _seen.add(handler)
    fdef = _fdef(handler)
    if fdef is None:
        return []
    unit_names = _unit_locals(fdef)
    idsrc = set(_identity_atoms(fdef))
    out = []
    emitted = set()
    # statements after the first kernel call (or helper call that may contain it) are post-processing
    kernel_lines = [n.lineno for n in ast.walk(ast.Module(body=fdef.body, type_ignores=[]))
                    if (isinstance(n, ast.Attribute) and n.attr == "_implementation")
                    or (isinstance(n, ast.Call) and isinstance(n.func, ast.Name)
                        and isinstance(getattr(AF, n.func.id, None), types.FunctionType)
                        and getattr(AF, n.func.id).__module__ == AF.__name__
                        and not n.func.id.startswith("_validate") and "unit" not in n.func.id.lower())]
    first_kernel = min(kernel_lines) if kernel_lines else 10 ** 9

    def helper_of(call):
        if isinstance(call, ast.Call) and isinstance(call.func, ast.Name):
            h = getattr(AF, call.func.id, None)
            if isinstance(h, types.FunctionType) and h.__module__ == AF.__name__:
                return h
        return None

    def visit(stmts):
        for st in stmts:
            if isinstance(st, ast.If):
                tsrc = ast.unparse(st.test)
                atoms = [a for a in idsrc if a in tsrc]
                last = st.body[-1] if st.body else None
                const_ret = isinstance(last, ast.Return) and not any(isinstance(x, ast.Call) for x in ast.walk(last))
                if atoms:
                    for a in atoms:
                        emitted.add(a)
                    out.append(dict(kind="identity", raises=isinstance(last, ast.Raise), src=tsrc))
                elif const_ret and st.lineno < first_kernel:
                    names = _root_names(st.test)
                    kind = "units" if names and names <= unit_names else "other"
                    out.append(dict(kind=kind, raises=False, src=tsrc))
                visit(st.body)
                visit(st.orelse)
            elif isinstance(st, (ast.For, ast.While, ast.With, ast.Try)):
                for fld in ("body", "orelse", "finalbody"):
                    visit(getattr(st, fld, []) or [])
            elif isinstance(st, ast.Return) and st.value is not None:
                h = helper_of(st.value)
                if h is not None:
                    out.extend(static_exits(h, _depth + 1, _seen))  # tail call: the helper's exits are the handler's

    visit(fdef.body)
    for a in sorted(idsrc - emitted):
        if not any(a in e["src"] for e in out):
            out.append(dict(kind="identity", raises=False, src=a))
    # identity tests anywhere in helpers that are called (not only tail-called)
    for n in ast.walk(fdef):
        h = helper_of(n)
        if h is not None and h not in _seen:
            for e in static_exits(h, _depth + 1, _seen):
                if e["kind"] == "identity":
                    out.append(e)
    return out
