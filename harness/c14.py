"""C14 — every documented unit name resolves to exactly one, correctly scaled unit.

Direct oracle (never consults the model): an independent reader of names written from the
documented contract (symbol | listed spelling | title-cased spelling | SI prefix symbol/word ×
spelling of a prefixable unit; every prefix at every position) is evaluated for every listed name
and compared with what the real library does on the string route, `unyt.unit_symbols`, the
top-level namespace and the `add_symbols` namespace of a custom registry; prefixes on
non-prefixable spellings must be refused; strings with several readings must obey the precedence.
Correspondence: the compiled Lean model (string route, attribute routes, reference reader, Python
string methods, generator of the name tables) against the real library on the same inputs.
"""
import importlib.util
import math
import os
import re

import core

PROOF_MODULES = ["UnytProofs.C14", "UnytProofs.Lemmas.C14", "UnytProofs.Lemmas.C14Rows", "UnytProofs.C14History",
                 "UnytProofs.Lemmas.C14History"]

# SI brochure, 9th ed., table 7 (unyt has no ronna/quetta/ronto/quecto); three spellings of micro
SYM = {"Y": 24, "Z": 21, "E": 18, "P": 15, "T": 12, "G": 9, "M": 6, "k": 3, "h": 2, "da": 1, "d": -1, "c": -2,
       "m": -3, "µ": -6, "μ": -6, "u": -6, "n": -9, "p": -12, "f": -15, "a": -18, "z": -21, "y": -24}
WORD = {"yotta": 24, "zetta": 21, "exa": 18, "peta": 15, "tera": 12, "giga": 9, "mega": 6, "kilo": 3, "hecto": 2,
        "deca": 1, "deci": -1, "centi": -2, "milli": -3, "micro": -6, "nano": -9, "pico": -12, "femto": -15,
        "atto": -18, "zepto": -21, "yocto": -24}

# names under which unyt.physical_constants documents a constant that are also unit names: only these may be
# something else than the unit at top level (twin of Ref.C14.shadowedByConstants)
CONSTANT_NAMES = {"G", "hbar", "c", "Msun", "msun", "m_sun", "M_Sun", "M_sun", "m_Sun", "solar_mass", "mass_sun", "Mjup",
                  "jupiter_mass", "Mearth", "earth_mass", "me", "electron_mass", "mp", "proton_mass", "m_pl", "planck_mass",
                  "l_pl", "planck_length", "t_pl", "planck_time", "T_pl", "planck_temperature", "q_pl", "planck_charge",
                  "E_pl", "planck_energy"}

HDR = ("import math, warnings\nwarnings.simplefilter('ignore')\nimport unyt\nfrom unyt import Unit\n"
       "import unyt.unit_symbols as us\nfrom unyt._unit_lookup_table import default_unit_symbol_lut as LUT\n")


def snippet(body):
    return HDR + body


class Reader:
    """the independent reference reader (Python twin of UnytModel/Ref/C14.lean, written first)"""

    def __init__(self, lut, alts):
        self.base = []  # (lower, spelling, key, prefixable, kind)
        for k, v in lut.items():
            self.base.append((k.lower(), k, k, bool(v[4]), "symbol"))
            for a in alts.get(k, ()):
                self.base.append((a.lower(), a, k, bool(v[4]), "alias"))
        self.by_lower = {}
        for row in self.base:
            self.by_lower.setdefault(row[0], []).append(row)

    def readings(self, s):
        """three classes of readings, each a list of (k, key, kind)"""
        sl = s.lower()
        bucket = self.by_lower.get(sl, [])
        l1 = [(0, c, kind) for lw, w, c, p, kind in bucket if w == s]
        l2 = [(0, c, "title") for lw, w, c, p, kind in bucket if w != s and w.title() == s]
        l3 = []
        for i in range(1, len(s)):
            p, b = s[:i], s[i:]
            pl, bl = sl[:i], sl[i:]
            for table, pk in ((SYM, "sym"), (WORD, "word")):
                if p in table:
                    l3 += [(table[p], c, pk + "+" + kind) for lw, w, c, pr, kind in self.by_lower.get(bl, []) if pr and w == b]
            if pl in WORD:
                l3 += [(WORD[pl], c, "word+" + kind) for lw, w, c, pr, kind in self.by_lower.get(bl, [])
                       if pr and (pl + w) != s and (pl + w).title() == s]
        # class 4: any other capitalisation of a spelling / of prefix word + spelling
        l4 = [(0, c, "case+" + kind) for lw, w, c, p, kind in bucket]
        for i in range(1, len(sl)):
            if sl[:i] in WORD:
                l4 += [(WORD[sl[:i]], c, "word+case+" + kind) for lw, w, c, pr, kind in self.by_lower.get(sl[i:], []) if pr]
        return l1, l2, l3, l4

    def verdict(self, s):
        """('unique', k, key, kind) | ('ambiguous', …) | ('unknown',)"""
        for lev in self.readings(s):
            if lev:
                vals = {(k, c) for k, c, _ in lev}
                if len(vals) == 1:
                    return ("unique", lev[0][0], lev[0][1], lev[0][2])
                return ("ambiguous", sorted(vals))
        return ("unknown",)

    def all_values(self, s):
        l1, l2, l3, l4 = self.readings(s)
        return {(k, c) for k, c, _ in l1 + l2 + l3 + l4}


def odd_chars(s):
    return "".join(sorted({ch for ch in s if not (ch == "_" or ch.isalnum())}))


def shape(kind, name):
    return f"{kind}|{odd_chars(name)}"


def load_plugin():
    path = os.path.join(core.VERIF, "tools", "extract.d", "c14_names.py")
    spec = importlib.util.spec_from_file_location("c14_plugin", path)
    mod = importlib.util.module_from_spec(spec)
    spec.loader.exec_module(mod)
    return mod


def same_unit(a, b):
    return (a.base_value == b.base_value or math.isclose(a.base_value, b.base_value, rel_tol=1e-14)) \
        and a.base_offset == b.base_offset and a.dimensions == b.dimensions


def run(tier, seed):
    import sympy
    import unyt
    import unyt.unit_symbols as us
    from unyt import Unit
    from unyt._unit_lookup_table import (default_unit_name_alternatives as ALT, default_unit_symbol_lut as LUT,
                                         inv_name_alternatives as INV, name_alternatives as NA, unit_prefixes as PRE)
    from unyt.unit_systems import add_symbols

    chk = core.Check("C14", tier, seed)
    chk.proof = core.prove("C14", PROOF_MODULES, extra_targets=("drv_c14",), tier=tier)
    if tier == "thorough" and chk.proof["build_ok"]:
        # independent re-check of the 16 chunk modules that carry the whole-table obligations
        from concurrent.futures import ThreadPoolExecutor

        mods = [f"UnytProofs.Lemmas.C14Chunk{i:02d}" for i in range(16)]
        with ThreadPoolExecutor(max_workers=4) as ex:
            res = list(ex.map(lambda m: core.leanchecker([m]), mods))
        bad = [(m, out) for m, (ok, out) in zip(mods, res) if not ok]
        for m, out in bad:
            chk.proof["broken"].append(("leanchecker:" + m, out))
        chk.extra["leanchecker_chunk_modules"] = "ok (16 modules)" if not bad else f"{len(bad)} failed"
    rng = chk.rng
    plugin = load_plugin()
    reader = Reader(LUT, ALT)
    reg = plugin.make_custom_registry(unyt)
    ns = {}
    add_symbols(ns, reg)
    recipe = plugin.CUSTOM_RECIPE
    us_attrs = {k: v for k, v in vars(us).items() if isinstance(v, Unit)}
    top_attrs = {k: v for k, v in vars(unyt).items() if isinstance(v, Unit)}
    names = list(INV.keys())

    def expected_value(k, c, lut):
        return (10.0 ** k) * lut[c][0] if k else lut[c][0]

    def unit_or_err(s, registry=None):
        try:
            return Unit(s, registry=registry) if registry is not None else Unit(s)
        except Exception as e:  # noqa: BLE001
            return e

    # ------------------------------------------------------------------ direct oracle: every listed name
    for n in names:
        v = reader.verdict(n)
        chk.case(("name", n), {"name": n, "reference": list(v[:3])} if len(chk.samples) < 6 else None)
        if v[0] != "unique":
            kind = "none" if v[0] == "unknown" else "several"
            chk.count("reference:" + v[0])
            chk.fail(f"two-readings|{kind}|{odd_chars(n)}" if v[0] == "ambiguous" else f"unreadable|{odd_chars(n)}",
                     f"listed name {n!r}: the reference reader finds {v}",
                     {"python": snippet(f"raise AssertionError('listed name {n!r} has no unique documented reading: {v!r}')\n")})
            continue
        _, k, c, kind = v
        sh = shape(kind, n)
        chk.count("kind:" + kind)
        want = expected_value(k, c, LUT)
        wdim, woff = LUT[c][1], LUT[c][2]
        cond = (f"assert math.isclose(u.base_value, {want!r}, rel_tol=1e-14) and u.base_offset == {woff!r} "
                f"and u.dimensions == LUT[{c!r}][1], (u.base_value, u.base_offset, u.dimensions)\n")
        u = unit_or_err(n)
        if isinstance(u, Exception):
            chk.fail(f"unusable|{sh}", f"listed name {n!r} cannot be used as a unit string ({core.exc_name(u)}); documented reading 10^{k} x {c}",
                     {"python": snippet(f"u = Unit({n!r})\n" + cond)})
        elif not (math.isclose(u.base_value, want, rel_tol=1e-14) and u.base_offset == woff and u.dimensions == wdim):
            chk.fail(f"wrong-unit|{sh}", f"Unit({n!r}) = ({u.base_value!r}, {u.base_offset!r}, {u.dimensions}); documented reading 10^{k} x {c} = {want!r}",
                     {"python": snippet(f"u = Unit({n!r})\n" + cond)})
        if len(reader.all_values(n)) > 1:
            chk.count("several-readings-precedence-checked")
        # attribute routes
        routes = [("unit_symbols", us_attrs.get(n), f"u = getattr(us, {n!r})\n", True),
                  ("top-level", top_attrs.get(n), f"u = getattr(unyt, {n!r})\n", False),
                  ("add_symbols", ns.get(n), recipe + f"from unyt.unit_systems import add_symbols\nns = {{}}; add_symbols(ns, reg); u = ns[{n!r}]\n"
                   f"assert u.registry is reg\n", not n.startswith("_"))]
        for route, obj, get, required in routes:
            if obj is None:
                if required:
                    chk.fail(f"attr-missing|{route}|{sh}", f"listed name {n!r} is not an attribute reached through {route}",
                             {"python": snippet(get)})
                elif route == "top-level":
                    chk.count("top-level-shadowed-by:" + type(getattr(unyt, n, None)).__name__)
                    if n not in CONSTANT_NAMES:
                        chk.fail(f"attr-missing|top-level|{sh}", f"unyt.{n} is {type(getattr(unyt, n, None)).__name__}, not the unit {n!r}, and {n!r} is not a documented name of a physical constant",
                                 {"python": snippet(f"u = getattr(unyt, {n!r}, None)\nassert isinstance(u, Unit), type(u)\n" + cond)})
                continue
            chk.count("attr:" + route)
            lut_r = reg.lut if route == "add_symbols" else LUT
            want_r = expected_value(k, c, lut_r)
            ok = math.isclose(obj.base_value, want_r, rel_tol=1e-14) and obj.base_offset == lut_r[c][2] and obj.dimensions == lut_r[c][1]
            ur = None
            if route == "add_symbols":
                ok = ok and obj.registry is reg
                ur = unit_or_err(n, reg)
                if not isinstance(ur, Exception) and not same_unit(ur, obj):
                    ok = False
            elif not isinstance(u, Exception) and not same_unit(u, obj):
                ok = False
            if not ok:
                lutname = "reg.lut" if route == "add_symbols" else "LUT"
                chk.fail(f"attr-mismatch|{route}|{sh}", f"{route} attribute {n!r} = ({obj.base_value!r}, {obj.base_offset!r}) is not the documented 10^{k} x {c} = {want_r!r}, or differs from the unit string, or belongs to another registry",
                         {"python": snippet(get + f"assert math.isclose(u.base_value, {want_r!r}, rel_tol=1e-14) and u.base_offset == {lutname}[{c!r}][2] and u.dimensions == {lutname}[{c!r}][1], (u.base_value, u.base_offset)\n"
                                            + (f"s = Unit({n!r}); assert s.base_value == u.base_value and s.base_offset == u.base_offset and s.dimensions == u.dimensions\n" if route != "add_symbols" and not isinstance(u, Exception) else "")
                                            + (f"s = Unit({n!r}, registry=reg); assert s.base_value == u.base_value and s.base_offset == u.base_offset and s.dimensions == u.dimensions\n" if route == "add_symbols" and not isinstance(ur, Exception) else ""))})

    # attributes that are not listed names must still agree with their own string route
    for route, table in (("unit_symbols", us_attrs), ("top-level", top_attrs), ("add_symbols", ns)):
        for n, obj in table.items():
            if n in INV:
                continue
            chk.case(("extra-attr", route, n))
            chk.count("extra-attr:" + route)
            r = reg if route == "add_symbols" else None
            s = unit_or_err(n, r)
            if isinstance(s, Exception) or not same_unit(s, obj):
                pre = recipe + "from unyt.unit_systems import add_symbols\nns = {}; add_symbols(ns, reg); u = ns[%r]; s = Unit(%r, registry=reg)\n" % (n, n) \
                    if route == "add_symbols" else f"u = getattr({'us' if route == 'unit_symbols' else 'unyt'}, {n!r}); s = Unit({n!r})\n"
                chk.fail(f"attr-mismatch|{route}|unlisted", f"{route} attribute {n!r} differs from the unit string {n!r}",
                         {"python": snippet(pre + "assert s.base_value == u.base_value and s.base_offset == u.base_offset and s.dimensions == u.dimensions\n")})

    # ------------------------------------------------------------------ prefixes on non-prefixable spellings
    spell_np = [w for lw, w, c, p, kind in reader.base if not p]
    spell_p = [(w, c, kind) for lw, w, c, p, kind in reader.base if p]
    pre_spellings = [(p, "sym") for p in PRE] + [(v[1], "word") for v in PRE.values()] + [(v[1].title(), "word") for v in PRE.values()]
    extra_strings = []
    for p, pk in pre_spellings:
        for w in spell_np:
            s = p + w
            chk.case(("nonprefixable", s))
            chk.count("nonprefixable:" + pk)
            extra_strings.append(s)
            if s in INV:
                chk.count("nonprefixable-concatenation-is-a-listed-name")
                continue
            u = unit_or_err(s)
            if not isinstance(u, Exception):
                chk.fail(f"nonprefixable-accepts|{pk}|{odd_chars(s)}", f"Unit({s!r}) is accepted although {w!r} names a non-prefixable unit and {s!r} is not a listed name",
                         {"python": snippet(f"try:\n    u = Unit({s!r})\nexcept Exception:\n    u = None\nassert u is None, (u, u.base_value)\n")})
    # every prefix symbol x prefixable symbol, every prefix word x listed spelling: usable and exact
    for p, pk in pre_spellings:
        for w, c, kind in spell_p:
            s = p + w
            documented = (pk == "sym" and kind == "symbol") or (pk == "word" and kind == "alias" and p.islower())
            extra_strings.append(s)
            u = unit_or_err(s)
            chk.case(("prefixed", s))
            chk.count(f"prefixed:{pk}+{kind}:" + ("ok" if not isinstance(u, Exception) else "refused"))
            k = SYM[p] if pk == "sym" else WORD[p.lower()]
            want = (10.0 ** k) * LUT[c][0]
            if isinstance(u, Exception):
                if documented and not s in INV:
                    chk.fail(f"unusable|{pk}+{kind}|{odd_chars(s)}", f"{p!r} + {w!r} cannot be used as a unit string",
                             {"python": snippet(f"u = Unit({s!r})\nassert math.isclose(u.base_value, {want!r}, rel_tol=1e-14)\n")})
                continue
            v = reader.verdict(s)
            if v[0] == "unique" and (v[1], v[2]) != (k, c):
                continue  # another, preferred reading (symbol/alias): covered by the listed-name loop if listed
            if v[0] == "unique" and not (math.isclose(u.base_value, want, rel_tol=1e-14) and u.dimensions == LUT[c][1] and u.base_offset == LUT[c][2]):
                chk.fail(f"wrong-unit|{pk}+{kind}|{odd_chars(s)}", f"Unit({s!r}) has scale {u.base_value!r}; prefix x unit is {want!r}",
                         {"python": snippet(f"u = Unit({s!r})\nassert math.isclose(u.base_value, {want!r}, rel_tol=1e-14) and u.dimensions == LUT[{c!r}][1], u.base_value\n")})

    # a prefixed unit is not prefixable again: prefix symbol + listed prefixed name must be refused
    prefixed_names = [n for n in names if (reader.verdict(n) + (0,))[1] != 0 and reader.verdict(n)[0] == "unique"]
    pairs = [(p, n) for p in PRE for n in prefixed_names]
    if tier == "quick":
        pairs = rng.sample(pairs, 4000)
    for p, n in pairs:
        s = p + n
        if s in INV:
            continue
        chk.case(("double-prefix", s))
        chk.count("double-prefix")
        u = unit_or_err(s)
        if not isinstance(u, Exception) and len(reader.all_values(s)) == 0:
            chk.fail(f"double-prefix-accepted|{odd_chars(s)}", f"Unit({s!r}) is accepted (scale {u.base_value!r}) although {n!r} already carries a prefix",
                     {"python": snippet(f"Unit({n!r})\ntry:\n    u = Unit({s!r})\nexcept Exception:\n    u = None\nassert u is None, (u, u.base_value)\n")})

    # ------------------------------------------------------------------ strings with several readings
    multi = [s for s in dict.fromkeys(names + extra_strings) if len(reader.all_values(s)) > 1]
    for s in multi:
        chk.case(("multi", s), {"several readings": s, "readings": sorted(reader.all_values(s))} if s not in INV or s == "Gradian" else None)
        chk.count("several-readings")
        v = reader.verdict(s)
        u = unit_or_err(s)
        if isinstance(u, Exception) and s not in INV:
            chk.count("several-readings-but-not-a-unit-string")  # a string unyt refuses has no reading at all
            continue
        if v[0] == "ambiguous":
            chk.fail(f"two-readings|several|{odd_chars(s)}", f"{s!r} has several readings of equal rank: {v[1]}",
                     {"python": snippet(f"raise AssertionError('{s!r} has several readings of equal rank: {v[1]!r}')\n")})
        elif v[0] == "unique" and not isinstance(u, Exception):
            want = expected_value(v[1], v[2], LUT)
            if not (math.isclose(u.base_value, want, rel_tol=1e-14) and u.dimensions == LUT[v[2]][1]):
                chk.fail(f"wrong-reading|{v[3]}|{odd_chars(s)}", f"Unit({s!r}) = {u.base_value!r} does not follow the preferred reading 10^{v[1]} x {v[2]} among {sorted(reader.all_values(s))}",
                         {"python": snippet(f"u = Unit({s!r})\nassert math.isclose(u.base_value, {want!r}, rel_tol=1e-14) and u.dimensions == LUT[{v[2]!r}][1], u.base_value\n")})

    # ------------------------------------------------------------------ correspondence with the model
    try:
        model = core.Model("drv_c14")
        correspond(chk, model, tier, rng, reader, names, extra_strings, us_attrs, top_attrs, ns, reg, plugin)
    except Exception as e:  # noqa: BLE001
        chk.disagree("driver", repr(e)[:400])
    # ------------------------------------------------------------------ registries with a history
    try:
        import c14_history

        c14_history.run(chk, core.Model("drv_c14"), tier, rng, names, reader)
    except Exception as e:  # noqa: BLE001
        import traceback

        chk.disagree("history-driver", traceback.format_exc()[-600:])

    chk.extra["names_listed"] = len(names)
    chk.extra["top_level_shadowed"] = sorted(k for k in us_attrs if k not in top_attrs)
    chk.extra["strings_with_several_readings"] = [s for s in multi][:40]
    rule = ("exhaustive: every key of inv_name_alternatives on the string route and on the three attribute routes; every prefix symbol, prefix word "
            "and title-cased prefix word x every spelling of every non-prefixable and prefixable unit; every such string with more than one reading; "
            "model correspondence on all of these plus seeded mutations of names; seeded random histories (look-ups by string/alias/getitem, add, remove, "
            "modify, JSON and pickle round trips) of custom registries that keep returning to one prefix+unit split, each compared with the user's own "
            "table, with a registry that received the edits only, and with the model's state machine; distinct = distinct (route, string) / history")
    return chk.finish(rule)


def correspond(chk, model, tier, rng, reader, names, extra_strings, us_attrs, top_attrs, ns, reg, plugin):
    import unyt
    from unyt import Unit
    from unyt._unit_lookup_table import (default_unit_symbol_lut as LUT, inv_name_alternatives as INV,
                                         name_alternatives as NA, unit_prefixes as PRE)
    import gen

    def describe(u):
        import sympy

        e = u.expr
        sym = str(e) if isinstance(e, sympy.Symbol) else ("<one>" if e == 1 else "<compound>")
        return [sym, str(core.f2b(u.base_value)), str(core.f2b(u.base_offset)), gen.dim_vec(u.dimensions)]

    # translator self-check -------------------------------------------------------------
    nkey = {a: k for k, alts in NA.items() for a in alts}
    rep = model.ask(["c14.counts"] + [f"c14.row\t{n}" for n in names])
    cnt = rep[0]
    if cnt[:5] != ["ok", str(len(INV)), str(len(INV)), str(len(LUT)), str(len(PRE))]:
        chk.disagree("c14.counts", f"generated {cnt} live {len(INV)} names, {len(LUT)} units, {len(PRE)} prefixes")

    def symname(u):
        import sympy

        return str(u.expr) if u is not None and isinstance(u.expr, sympy.Symbol) else "<absent>"

    for n, r in zip(names, rep[1:]):
        want = ["ok", INV[n], nkey.get(n, "<absent>"), symname(us_attrs.get(n)), symname(top_attrs.get(n)), symname(ns.get(n)), INV[n], nkey.get(n, "<absent>")]
        chk.count("dump:row")
        if r != want:
            chk.disagree("c14.row", f"{n!r}: generated {r} live {want}")
    keys = list(LUT) + ["c14foo", "c14bar"]
    rep = model.ask([f"c14.lutrow\tdefault\t{k}" for k in keys] + [f"c14.lutrow\tcustom\t{k}" for k in keys] + [f"c14.prefix\t{p}" for p in PRE])
    for i, which in enumerate(("default", "custom")):
        lut = LUT if which == "default" else reg.lut
        for k, r in zip(keys, rep[i * len(keys):(i + 1) * len(keys)]):
            chk.count("dump:lut")
            want = ["none"] if k not in lut else ["ok", str(core.f2b(lut[k][0])), str(core.f2b(lut[k][2])), gen.dim_vec(lut[k][1]), "1" if lut[k][4] else "0"]
            if r != want:
                chk.disagree("c14.lutrow", f"{which} {k!r}: generated {r} live {want}")
    for p, r in zip(PRE, rep[2 * len(keys):]):
        if r != ["ok", str(core.f2b(PRE[p][0])), PRE[p][1]]:
            chk.disagree("c14.prefix", f"{p!r}: generated {r} live {PRE[p]}")

    # string route -----------------------------------------------------------------------
    alphabet = sorted({ch for n in names for ch in n if ch not in "°%"})
    strings = list(dict.fromkeys(names + extra_strings))
    nmut = 3000 if tier == "quick" else 40000
    for _ in range(nmut):
        n = rng.choice(names)
        r = rng.random()
        if r < 0.2 and n:
            i = rng.randrange(len(n))
            s = n[:i] + n[i].swapcase() + n[i + 1:]
        elif r < 0.4:
            s = rng.choice(list(PRE)) + n
        elif r < 0.55:
            s = rng.choice(list(PRE.values()))[1] + n
        elif r < 0.65:
            s = n + rng.choice(["s", "_", "2", "C", "°C", "%"])
        elif r < 0.75 and n:
            i = rng.randrange(len(n))
            s = n[:i] + n[i + 1:]
        elif r < 0.85:
            s = n.title() if rng.random() < 0.5 else n.lower()
        elif r < 0.9:
            s = rng.choice(["Symbol", "Integer", "Float", "Rational", "sqrt", "in", "is", "lambda", "None", "kSymbol"])
        else:
            s = "".join(rng.choice(alphabet) for _ in range(rng.randint(1, 4)))
        if s and not re.match(r"^[^\W\d][\w°%]*$", s.replace("°", "d").replace("%", "p"), re.U):
            continue
        strings.append(s)
    from unyt import _parsing

    rewritten = dict(getattr(_parsing, "_rewritten_name_alternatives", {}))
    strings += list(rewritten) + ["kilodegC", "KilodegC", "yoctodegC", "kilodegF", "kilodeg"]
    strings += ["Δ°C", "Δ°F", "kΔ°C", "Δ", "Δ°", "kiloΔ°C", "delta_degC", "kdelta_degC", "Δ°C°C", "%Δ°F"]
    strings = list(dict.fromkeys(strings))
    # the shared string-keyed model of the look-up (UnytModel/Lut.lean, used by C02/C12) against this one
    plain = [s for s in strings if s and "Δ" not in s]
    rep_a = model.ask([f"c14.resolve\tdefault\t{s}" for s in plain])
    rep_b = model.ask([f"resolve\t{s}" for s in plain])
    for s, a, b in zip(plain, rep_a, rep_b):
        chk.count("corr:two-models")
        va = ([a[2]] + a[5:8]) if a[0] == "ok" and a[1] == "sym" else a[:2]
        vb = b[1:5] if b[0] == "ok" else b[:2]
        if s in ("Symbol", "Integer", "Float", "Rational", "sqrt"):
            continue  # the shared model has no parser globals (they are not table keys either way)
        if s.replace("°", "deg") in rewritten and s.replace("°", "deg") not in INV:
            chk.count("corr:two-models:rewritten-name-skipped")
            continue  # … nor the parser's table of rewritten spellings (kilo°C → kilodegC → kdegC)
        if va != vb:
            chk.disagree("two-models", f"{s!r}: Names.lean {va} Lut.lean {vb}")
    for which, r_ in (("default", None), ("custom", reg)):
        todo = strings if which == "default" else (names if tier == "thorough" else rng.sample(names, 800)) + \
            ["c14foo", "kc14foo", "c14bar", "kc14bar", "Mc14foo", "dac14foo", "pc", "kpc", "Mpc", "c14", "microc14foo"]
        rep = model.ask([f"c14.resolve\t{which}\t{s}" for s in todo])
        for s, r in zip(todo, rep):
            chk.case(("corr", which, s))
            chk.count("corr:resolve:" + which)
            try:
                u = Unit(s, registry=r_) if r_ is not None else Unit(s)
            except Exception as e:  # noqa: BLE001
                if r != ["err", core.exc_name(e)]:
                    chk.disagree("c14.resolve", f"{which} {s!r}: model {r[:5]} implementation raised {core.exc_name(e)}")
                continue
            d = describe(u)
            if r[0] != "ok":
                chk.disagree("c14.resolve", f"{which} {s!r}: model {r} implementation {d}")
                continue
            if r[1] == "one":
                got = ["<one>"] + r[2:5]
            else:
                got = [r[2]] + r[5:8]
            if got != d:
                chk.disagree("c14.resolve", f"{which} {s!r}: model {got} implementation {d}")

    # attribute routes ---------------------------------------------------------------------
    for route, table in (("us", us_attrs), ("top", top_attrs), ("custom", ns)):
        todo = list(dict.fromkeys(names + list(table)))
        rep = model.ask([f"c14.attr\t{route}\t{n}" for n in todo])
        for n, r in zip(todo, rep):
            chk.case(("corr-attr", route, n))
            chk.count("corr:attr:" + route)
            obj = table.get(n)
            if obj is None:
                if r[:2] != ["ok", "none"]:
                    chk.disagree("c14.attr", f"{route} {n!r}: model {r} but there is no such unit attribute")
                continue
            d = describe(obj)
            got = [r[2]] + r[5:8] if len(r) >= 8 and r[1] == "sym" else r
            if got != d:
                chk.disagree("c14.attr", f"{route} {n!r}: model {got} implementation {d}")

    # the reference reader, twice -------------------------------------------------------------
    todo = strings if tier == "thorough" else list(dict.fromkeys(names + rng.sample(strings, min(len(strings), 4000))))
    rep = model.ask([f"c14.ref\t{s}" for s in todo])
    for s, r in zip(todo, rep):
        chk.count("corr:ref")
        v = reader.verdict(s)
        want = [v[0], str(v[1]), v[2]] if v[0] == "unique" else [v[0], "", ""]
        allv = sorted(f"{k}:{c}" for k, c in reader.all_values(s))
        gotall = sorted(set(x for x in r[3].split(";") if x)) if len(r) > 3 else []
        if r[:3] != want or gotall != allv:
            chk.disagree("c14.ref", f"{s!r}: Lean reference {r} Python reference {want} {allv}")

    # Python string methods ----------------------------------------------------------------------
    pool = list(dict.fromkeys(names + [k for k in LUT]))
    tests = rng.sample(pool, min(len(pool), 1500 if tier == "quick" else len(pool)))
    for _ in range(500 if tier == "quick" else 5000):
        tests.append("".join(rng.choice(alphabet + ["_", "_"]) for _ in range(rng.randint(0, 9))))
    tests = [t for t in dict.fromkeys(tests) if "\t" not in t]
    rep = model.ask([f"c14.title\t{t}" for t in tests] + [f"c14.lower\t{t}" for t in tests] + [f"c14.islower\t{t}" for t in tests]
                    + [f"c14.split_\t{t}" for t in tests] + [f"c14.rewrite\t{t}" for t in tests])
    m = len(tests)
    for i, t in enumerate(tests):
        chk.count("corr:strmethods")
        want = [["ok", t.title()], ["ok", t.lower()], ["ok", "1" if t.islower() else "0"], ["ok", "|".join(t.split("_"))],
                ["ok", t.replace("%", "percent").replace("°", "deg")]]
        got = [rep[i], rep[m + i], rep[2 * m + i], rep[3 * m + i], rep[4 * m + i]]
        # the model's case data covers ASCII and the non-ASCII characters of the tables only
        for g, w, op in zip(got, want, ("title", "lower", "islower", "split", "rewrite")):
            if g != w and not (len(g) == 1 and w[1] == ""):
                chk.disagree("c14." + op, f"{t!r}: model {g} python {w}")

    # the generator ---------------------------------------------------------------------------------
    rep = model.ask(["c14.gen"])[0]
    chk.count("corr:generator")
    if rep[0] != "ok":
        chk.disagree("c14.gen", f"model raised {rep}")
    else:
        inv_m = [tuple(x.split("=", 1)) for x in rep[1].split(";")] if rep[1] else []
        inv_m = [(a if a != "" else "", b) for a, b in inv_m]
        if inv_m != list(INV.items()):
            diff = [(a, b) for a, b in zip(inv_m, INV.items()) if a != b][:3]
            chk.disagree("c14.gen", f"inv_name_alternatives: model has {len(inv_m)} entries, live {len(INV)}; first differences {diff}")
        names_m = {}
        for x in rep[2].split(";"):
            k, v = x.split("=", 1)
            names_m[k] = v.split(",")
        live = {k: list(v) for k, v in NA.items() if v}
        if names_m != live:
            bad = [k for k in set(names_m) | set(live) if names_m.get(k) != live.get(k)][:3]
            chk.disagree("c14.gen", f"name_alternatives differs at {[(k, names_m.get(k), live.get(k)) for k in bad]}")
