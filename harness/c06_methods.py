"""c06_methods — the ndarray-method overrides of unyt_array / unyt_quantity as forwarding records.

`unyt/array.py` overrides a handful of value-carrying ndarray methods (argsort, squeeze, __getitem__,
__setitem__, __pow__, __eq__, __ne__, copy, dot, take, __pos__, reshape, __deepcopy__, …).  Each is a tiny
wrapper: it delegates to the ndarray method of the same name (through `super()`, through
`self.view(np.ndarray)`, through the `np.<m>` function or through the `__array_function__` handler) and
re-labels the result.  This module extracts, from the LIVE class objects and their source,

  * `override_universe()`: every name that np.ndarray defines, that the catalogue has a method template
    for, and that `unyt_array.__dict__` / `unyt_quantity.__dict__` redefine;
  * `method_static(cls, name)`: per delegate call site a record in the vocabulary of the handler rows
    (`Np.Row`): the kernel delegated to and, for every parameter of the ndarray method (parameter list
    parsed from NumPy's own docstring signature), whether the override feeds it from its parameter of
    the same name (`same`), from an expression over it (`same`, by value), from something else
    (`changed`), not at all although it accepts it (`dropped`), or passes a non-default constant the
    caller never gave (`injected`);
  * `observe_kernels(template)`: which C-level ndarray methods / traced NumPy kernels a call of the
    override really reaches (sys.setprofile c_call events + the C06 recorder) — the dynamic tie of the
    `calls` column.
"""
import ast
import inspect
import re
import sys
import textwrap

import numpy as np

import npcatalog as C

# names that carry no numbers (construction, pickling, printing, protocol hooks)
_NOT_VALUE = {"__new__", "__array_finalize__", "__repr__", "__str__", "__format__", "__reduce__", "__setstate__",
              "__array_ufunc__", "__array_function__", "__hash__", "__init__", "__class_getitem__", "__array_wrap__",
              "__getnewargs__", "__init_subclass__", "__subclasshook__", "__sizeof__", "__dir__", "__reduce_ex__"}


def classes():
    import unyt

    return [unyt.unyt_array, unyt.unyt_quantity]


def override_universe():
    """[(class name, method name)] — ndarray callables redefined by the unyt classes, value-carrying"""
    out = []
    for cls in classes():
        for n, o in cls.__dict__.items():
            if n in _NOT_VALUE or not hasattr(np.ndarray, n) or not callable(getattr(np.ndarray, n)):
                continue
            if not inspect.isfunction(o):
                continue
            out.append((cls.__name__, n))
    return sorted(out)


def numpy_params(name):
    """parameter names and defaults of np.ndarray.<name> from NumPy's docstring signature
    ('a.argsort(axis=-1, kind=None, order=None)'); dunders: the binary-operator convention"""
    doc = getattr(np.ndarray, name).__doc__ or ""
    m = re.search(r"^\s*a\." + re.escape(name) + r"\((.*?)\)\s*$", doc, re.M)
    if not m:
        return None
    params = []
    try:
        fake = ast.parse(f"def f({m.group(1)}): pass").body[0].args
    except SyntaxError:
        return None
    pos = fake.posonlyargs + fake.args
    defaults = [None] * (len(pos) - len(fake.defaults)) + list(fake.defaults)
    for a, d in zip(pos, defaults):
        params.append((a.arg, ast.unparse(d) if d is not None else None))
    if fake.vararg:
        params.append(("*" + fake.vararg.arg, None))
    for a, d in zip(fake.kwonlyargs, fake.kw_defaults):
        params.append((a.arg, ast.unparse(d) if d is not None else None))
    return params


def _fdef(fn):
    try:
        tree = ast.parse(textwrap.dedent(inspect.getsource(fn)))
    except Exception:  # noqa: BLE001
        return None
    return next((n for n in ast.walk(tree) if isinstance(n, ast.FunctionDef)), None)


def _receiver(node):
    """kind of object a delegate method is called on"""
    src = ast.unparse(node)
    if src.startswith("super("):
        return "super"
    if src in ("self.view(np.ndarray)", "np.asarray(self)", "self.ndview", "self.d", "self.v"):
        return "bare-view"
    if src in ("unyt_array(self)",):
        return "rewrap"
    if src == "np":
        return "np"
    return "other:" + src[:40]


def method_static(cls, name):
    """[record] for the override `cls.<name>`: one record per delegate call site
       record = dict(func='ndarray.<name>', variant='<cls>#<i>', target, receiver, params=[(p, verdict)], by_value=[p…])
       and a single record with calls=[] when the override delegates nowhere"""
    fn = cls.__dict__[name]
    fdef = _fdef(fn)
    func = "ndarray." + name
    if fdef is None:
        return [dict(func=func, variant=cls.__name__ + "#src", target=None, receiver="?", params=[], by_value=[])]
    own = [a.arg for a in fdef.args.posonlyargs + fdef.args.args][1:]  # without self
    own_var = fdef.args.vararg.arg if fdef.args.vararg else None
    own_kw = [a.arg for a in fdef.args.kwonlyargs]
    nps = numpy_params(name)
    # names imported from the handler module inside the method (`from ._array_functions import take`)
    handler_names = set()
    for n in ast.walk(fdef):
        if isinstance(n, ast.ImportFrom) and (n.module or "").endswith("_array_functions"):
            handler_names |= {a.asname or a.name for a in n.names}
    sites = []
    for n in ast.walk(fdef):
        if not isinstance(n, ast.Call):
            continue
        f = n.func
        if isinstance(f, ast.Attribute) and f.attr == name:
            rc = _receiver(f.value)
            if rc == "np":
                sites.append((n, "numpy." + name, rc, True))   # np.<m>(self-ish, …): first argument is the array
            else:
                sites.append((n, func, rc, False))
        elif isinstance(f, ast.Name) and f.id == name and name in handler_names:
            sites.append((n, "numpy." + name, "handler", True))
    if not sites:
        return [dict(func=func, variant=cls.__name__ + "#none", target=None, receiver="none", params=[], by_value=[])]
    out = []
    for i, (call, target, rc, first_is_self) in enumerate(sites):
        args = list(call.args)
        if first_is_self and args:
            args = args[1:]
        # the override mirrors the ndarray method's signature positionally: positional slot j of the delegate
        # call is the slot of the override's own j-th parameter (names may differ: b / other, memodict / memo)
        npn = [p for p, _d in nps] if nps else []
        order = own + npn[len(own):]
        defaults = dict(nps) if nps else {}
        fed = {}
        for j, a in enumerate(args):
            if isinstance(a, ast.Starred):
                fed["*"] = a.value
                continue
            if j < len(order):
                fed[order[j].lstrip("*")] = a
            else:
                fed[f"#{j}"] = a
        for k in call.keywords:
            if k.arg is None:
                fed["**"] = k.value
            else:
                fed[k.arg] = k.value
        params, by_value = [], []
        accepted = own + own_kw + ([own_var] if own_var else [])
        for p in accepted:
            if p in fed:
                e = fed[p]
                names = {x.id for x in ast.walk(e) if isinstance(x, ast.Name)}
                if isinstance(e, ast.Name) and e.id == p:
                    params.append((p, "same"))
                elif p in names and not (names & (set(accepted) - {p})):
                    params.append((p, "same"))       # an expression over the same parameter only (np.asarray(b), shape[0])
                    by_value.append(p)
                else:
                    params.append((p, "changed"))
            elif "*" in fed and isinstance(fed["*"], ast.Name) and fed["*"].id == p:
                params.append((p, "same"))
            elif any(isinstance(e, ast.Name) and e.id == p for e in fed.values()):
                params.append((p, "changed"))        # reaches the kernel under another parameter
            else:
                params.append((p, "dropped"))
        for q, e in fed.items():
            if q in accepted or q in ("*", "**"):
                continue
            d = defaults.get(q)
            if isinstance(e, ast.Constant) and d is not None and ast.unparse(e) == d:
                continue                              # NumPy's default spelled out
            names = {x.id for x in ast.walk(e) if isinstance(x, ast.Name)}
            if names & set(accepted):
                params.append((q, "changed"))
            else:
                params.append((q, "injected"))
        out.append(dict(func=func, variant=f"{cls.__name__}#{i}", target=target, receiver=rc, params=params, by_value=by_value))
    return out


def record_defects(r):
    """same vocabulary as Np.defects"""
    out = []
    if r["target"] is None:
        return ["nocall"]
    if r["target"] != r["func"]:
        out.append("calls:" + r["target"])
    for p, v in r["params"]:
        if v not in ("same", "sameRaw"):
            out.append(f"{v}:{p}")
    return out


def observe_kernels(t, dk, sc, seed, units=("m", "s", "kg")):
    """names of the C-level ndarray methods entered (sys.setprofile c_call) and NumPy kernels recorded by the C06
    recorder while the override runs on quantities; None if the case cannot be built or raises"""
    import warnings

    import c06_trace as TR

    try:
        call = t.instantiate(dk, sc, seed)
    except Exception:  # noqa: BLE001
        return None
    args, kwargs, _ = call.materialize(C.unyt_wrap(units))
    seen = set()

    def prof(frame, event, arg):
        if event == "c_call":
            n = getattr(arg, "__name__", None)
            owner = getattr(arg, "__objclass__", None) or type(getattr(arg, "__self__", None))
            if n and isinstance(owner, type) and issubclass(owner, np.ndarray):
                seen.add("ndarray." + n)
        elif event == "call":
            mod = frame.f_globals.get("__name__", "")
            if mod.startswith("numpy"):
                seen.add("numpy." + frame.f_code.co_name)

    with TR.recording() as rec, warnings.catch_warnings():
        warnings.simplefilter("ignore")
        old = sys.getprofile()
        sys.setprofile(prof)
        try:
            t.invoke(args, kwargs)
            ok = True
        except Exception:  # noqa: BLE001
            ok = False
        finally:
            sys.setprofile(old)
    if not ok:
        return None
    for c in rec.calls if hasattr(rec, "calls") else []:
        seen.add(c["target"])
    return seen
