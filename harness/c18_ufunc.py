"""C18 direct oracle for ufunc calls: copying forms (no `out=`, operators without assignment,
reduce/accumulate/outer) and in-place forms (`out=` self / another unyt_array / a bare ndarray,
augmented assignment).  A *spec* (plain dict) describes one call; operands are views of guard
buffers.  Never consults the model.  Imported by harness/c18.py and by replay snippets."""
import operator

import numpy as np

import c18_lib as L

IOPS = {"add": operator.iadd, "subtract": operator.isub, "multiply": operator.imul, "divide": operator.itruediv,
        "true_divide": operator.itruediv, "floor_divide": operator.ifloordiv, "remainder": operator.imod,
        "power": operator.ipow, "bitwise_and": operator.iand, "bitwise_or": operator.ior, "bitwise_xor": operator.ixor,
        "left_shift": operator.ilshift, "right_shift": operator.irshift}
OPS = {"add": operator.add, "subtract": operator.sub, "multiply": operator.mul, "divide": operator.truediv,
       "true_divide": operator.truediv, "floor_divide": operator.floordiv, "remainder": operator.mod, "power": operator.pow,
       "less": operator.lt, "less_equal": operator.le, "greater": operator.gt, "greater_equal": operator.ge,
       "equal": operator.eq, "not_equal": operator.ne, "negative": operator.neg, "absolute": operator.abs,
       "positive": operator.pos}

VALS = {"float64": [1.5, 2.25, 3.0], "float32": [1.5, 2.25, 3.0], "int64": [2, 3, 5], "int32": [2, 3, 5], "int8": [2, 3, 5],
        "uint8": [2, 3, 5], "bool": [True, False, True], "complex128": [1.5 + 1j, 2.25, 3.0 - 2j]}


def operand(o, role):
    """Held operand from an operand spec {kind: unyt|bare|pyscalar, unit, dtype, shape: 1d|0d|2d|bad}"""
    if o is None:
        return None
    dt = o.get("dtype", "float64")
    base = np.array(VALS[dt], dtype=dt)
    if role == "b":
        base = base[::-1].copy()
    sh = o.get("shape", "1d")
    if sh == "0d":
        d = base[1].reshape(())
    elif sh == "1d":
        d = base
    elif sh == "2d":
        d = np.stack([base, base[::-1]])
    elif sh == "bad":
        d = np.array(list(base) + list(base[:2]), dtype=dt)      # length 5: does not broadcast with 3
    else:
        raise ValueError(sh)
    if o["kind"] == "pyscalar":
        return L.Held(d.reshape(-1)[1].item(), kind="py")
    if o["kind"] == "bare":
        return L.hold(d, None, strided=o.get("strided", False))
    H = L.hold(d, o["unit"], strided=o.get("strided", False), name="nm" + role)
    if o.get("ro"):
        H.obj.flags.writeable = False
    return H


def out_buffer(spec, a, b, uf):
    """a separate out= buffer with the shape of the stripped result (or of `a` if NumPy refuses)"""
    import unyt

    with np.errstate(all="ignore"):
        try:
            args = [np.asarray(a.obj)] + ([np.asarray(b.obj)] if b is not None else [])
            proto = getattr(uf, spec.get("method", "__call__"))(*args) if spec.get("method", "__call__") != "__call__" else uf(*args)
            if isinstance(proto, tuple):
                proto = proto[0]
            shape, dt = np.shape(proto), np.asarray(proto).dtype
        except Exception:  # noqa: BLE001
            shape, dt = np.shape(a.obj), np.dtype("float64")
    dt = np.dtype(spec.get("out_dtype") or dt)
    z = np.full(shape, 9).astype(dt)
    H = L.hold(z, None if spec["form"] == "out-bare" else "A", quantity_ok=False, name="nmo")
    if spec.get("out_ro"):
        H.obj.flags.writeable = False
    return H


def build(spec):
    uf = getattr(np, spec["ufunc"])
    a = operand(spec["a"], "a")
    b = operand(spec.get("b"), "b")
    o = None
    if spec["form"] in ("out-other", "out-bare"):
        o = out_buffer(spec, a, b, uf)
    elif spec["form"] in ("out-tuple-bare", "out-tuple-unyt"):
        # one buffer per output of a multiple-output ufunc
        with np.errstate(all="ignore"):
            protos = uf(*([np.asarray(a.obj)] + ([np.asarray(b.obj)] if b is not None else [])))
        o = [L.hold(np.full(np.shape(p), 9).astype(np.asarray(p).dtype), None if spec["form"] == "out-tuple-bare" else "A",
                    quantity_ok=False, name="nmo") for p in protos]
    return uf, a, b, o


def invoke(spec, uf, a, b, o):
    form = spec["form"]
    kw = dict(spec.get("kwargs") or {})
    args = [a.obj] + ([b.obj] if b is not None else [])
    if form == "iop":
        return IOPS[spec["ufunc"]](a.obj, b.obj)
    if form == "op":
        return OPS[spec["ufunc"]](*args)
    if form == "call":
        return uf(*args, **kw)
    if form in ("reduce", "accumulate"):
        return getattr(uf, form)(a.obj, **kw)
    if form == "outer":
        return uf.outer(*args, **kw)
    if form == "out-self":
        return uf(*args, out=a.obj, **kw)
    if form in ("out-other", "out-bare"):
        return uf(*args, out=o.obj, **kw)
    if form in ("out-tuple-bare", "out-tuple-unyt"):
        return uf(*args, out=tuple(h.obj for h in o), **kw)
    raise ValueError(form)


def target_of(spec):
    return {"iop": "a", "out-self": "a", "out-other": "o", "out-bare": "o", "out-tuple-bare": "o", "out-tuple-unyt": "o"}.get(spec["form"])


def run_case(spec):
    import unyt

    uf, a, b, o = build(spec)
    ops = {"a": a, "b": b, "o": o}
    if isinstance(o, list):
        # multiple outputs: the first is the target `o`, the others `o1`, `o2`, …
        ops = {"a": a, "b": b, "o": o[0]}
        for k, h in enumerate(o[1:], 1):
            ops[f"o{k}"] = h
    s0 = {k: L.snap(h.obj, h) for k, h in ops.items() if h is not None}
    units0 = {k: (h.obj.units, L.snap(h.obj.units)) for k, h in ops.items() if h is not None and isinstance(h.obj, unyt.unyt_array)}
    res, exc = L.call_quiet(lambda: invoke(spec, uf, a, b, o))
    s1 = {k: L.snap(h.obj, h) for k, h in ops.items() if h is not None}
    obs = {"exc": L.exc_class(exc) if exc is not None else None, "msg": L.safe_str(exc),
           "delta": {k: L.delta(s0[k], s1[k]) for k in s0}, "before": s0, "after": s1,
           "unit_objects": {k: L.delta(u0, L.snap(u)) for k, (u, u0) in units0.items()}}
    tgt = target_of(spec)
    if tgt is not None and exc is None and not isinstance(o, list):
        # the copying counterpart: the same call without out= on fresh, identical operands
        cs = dict(spec, form="op" if (spec["form"] == "iop" and spec["ufunc"] in OPS) else "call")
        cs["a"] = dict(spec["a"], ro=False)
        ufc, ac, bc, _ = build(cs)
        cres, cexc = L.call_quiet(lambda: invoke(cs, ufc, ac, bc, None))
        obs["copy_exc"] = L.exc_class(cexc) if cexc is not None else None
        if cexc is None:
            if isinstance(cres, tuple):
                cres = cres[0]
            obs["copy"] = L.snap(cres if isinstance(cres, np.ndarray) else np.asarray(cres))
            obs["copy_unit"] = L.unit_sig(cres.units)[:4] if hasattr(cres, "units") else None
    return obs


def _close(a, b):
    if a is None or b is None:
        return a is b
    if a.shape != b.shape:
        try:
            b = np.broadcast_to(b, a.shape)
        except Exception:  # noqa: BLE001
            return False
    a = np.asarray(a, dtype=np.complex128)
    b = np.asarray(b, dtype=np.complex128)
    with np.errstate(all="ignore"):
        ok = (np.abs(a - b) <= 2.0 ** -20 * np.maximum(np.abs(a), np.abs(b)) + 1e-300) | (np.isnan(a) & np.isnan(b)) | (a == b)
    return bool(np.all(ok))


def fault_kind(spec):
    f = spec.get("fault", "valid")
    return f


def judge(spec, obs, rule="?"):
    """[(key, what)]: `rule` is the name of unyt's unit rule for the ufunc (the function class of the key)"""
    out = []
    tgt = target_of(spec)
    fault = fault_kind(spec)
    if fault in ("plain-inputs", "tuple-out"):
        rule = "any-rule"       # one defect of the wrap-up / labelling code, whatever the ufunc
    desc = f"np.{spec['ufunc']} [{spec['form']}] a={spec['a']} b={spec.get('b')}"
    for k, d in obs["delta"].items():
        if k == tgt or (tgt == "o" and k.startswith("o")):
            continue
        if d:
            out.append((f"ufunc|{rule}|{spec['form']}|{fault}|input-{k}|{'+'.join(d)}", f"{desc}: input {k} changed: {d} (raised: {obs['exc']})"))
    for k, d in obs["unit_objects"].items():
        if d:
            out.append((f"ufunc|{rule}|{spec['form']}|{fault}|unit-object-{k}", f"{desc}: the Unit object of {k} was modified"))
    if tgt is None:
        return out
    d = obs["delta"][tgt]
    tspec = spec["a"] if tgt == "a" else {"dtype": np.dtype(obs["before"][tgt]["dtype"]).name}
    dc = L.dtype_class(tspec.get("dtype", "float64"))
    if "guard" in d:
        out.append((f"ufunc|{rule}|{spec['form']}|{fault}|{dc}|guard", f"{desc}: bytes outside the out buffer were written"))
    if obs["exc"] is not None:
        bad = [x for x in d if x in ("numbers", "unit", "dtype", "shape", "registry", "name")]
        for k2, d2 in obs["delta"].items():          # the other outputs of a multiple-output call
            if k2 != tgt and tgt == "o" and k2.startswith("o"):
                bad += [x for x in d2 if x in ("numbers", "unit") and x not in bad]
        if "dtype" in bad:
            # array.py:1818-1822: the integer out= buffer is made float before anything is checked
            out.append(("ufunc|out=|int-retyped-on-failure",
                        f"{desc}: raised {obs['exc']} and left the integer out operand re-typed to {obs['after'][tgt]['dtype']}"))
            bad = [x for x in bad if x != "dtype"]
        if bad:
            out.append((f"ufunc|{rule}|out=|{fault}|raised-{obs['exc']}|{'+'.join(bad)}",
                        f"{desc}: raised {obs['exc']} and left the out operand changed: {bad}"))
        return out
    c = obs.get("copy")
    if c is not None:
        a = obs["after"][tgt]
        na, nc = L.numbers(a), L.numbers(c)
        if not _close(na, nc):
            out.append((f"ufunc|{rule}|out=|{fault}|{dc}|numbers-differ-from-copy", f"{desc}: out holds {na}, copying call gives {nc}"))
        cu = obs.get("copy_unit")
        au = a.get("unit")
        if au is not None:
            want = cu if cu is not None else None
            if want is not None and au[:4] != want:
                # a unit that prints differently but is the same unit is not a difference
                if not (abs(au[1] - want[1]) <= 1e-9 * abs(want[1]) and au[2] == want[2] and au[3] == want[3]):
                    out.append((f"ufunc|{rule}|out=|{fault}|{dc}|unit-differs-from-copy", f"{desc}: out labelled {au[0]}, copying call gives {want[0]}"))
            if want is None and au[3] != "1":
                out.append((f"ufunc|{rule}|out=|{fault}|{dc}|unit-differs-from-copy", f"{desc}: out labelled {au[0]}, copying call returns a plain array"))
    if "base" in d and "dtype" in d:
        b1 = np.frombuffer(obs["after"][tgt]["base_bytes"], dtype=obs["after"][tgt]["base_dtype"])
        seen = b1.astype(np.float64)
        tv = np.real(L.numbers(obs["after"][tgt]).ravel())
        if not all(any(abs(v - t) <= 1e-6 * max(1.0, abs(t)) for v in seen) for t in tv):
            out.append(("ufunc|out=|int-view|shared-buffer-reinterpreted",
                        f"{desc}: the base array of the out view keeps its integer dtype and now reads {b1[:3]}"))
    return out


def replay_snippet(spec, key, rule, harness_dir):
    return (
        "import sys, warnings\n"
        "warnings.simplefilter('ignore')\n"
        f"sys.path.insert(0, {harness_dir!r})\n"
        "import numpy as np\n"
        "np.seterr(all='ignore')\n"
        "import c18_ufunc as U\n"
        f"spec = {spec!r}\n"
        "obs = U.run_case(spec)\n"
        f"bad = U.judge(spec, obs, {rule!r})\n"
        "print('call:', spec, '\\nraised:', obs['exc'], obs['msg'], '\\nchanged:', obs['delta'], '\\nverdict:', bad)\n"
        f"assert {key!r} not in [k for k, _ in bad], bad\n"
    )
