"""C03 — unit conversion obeys identity, inverse and composition laws on every route."""
import itertools

import numpy as np

import core
import gen

PROOF_MODULES = ["UnytProofs.C03", "UnytProofs.C03History", "UnytProofs.C03Routes", "UnytProofs.C03Tab", "UnytProofs.C03TabEm"]

EPS = {"float64": 2.0 ** -52, "float32": 2.0 ** -23, "complex128": 2.0 ** -52, "int32": 2.0 ** -23, "int64": 2.0 ** -52}


def families(tier, rng):
    ex = gen.extract()
    lut = ex["lut"]
    pre_sample = ["m", "k", "da", "μ"] if tier == "quick" else [p for p in ex["prefixes"]]
    temp = ["K", "R", "degC", "degF", "delta_degC", "delta_degF"]
    temp += [p + s for s in temp if lut[s][3] for p in pre_sample]
    ang = [k for k, v in lut.items() if v[2] == ["0", "0", "0", "0", "1", "0", "0", "0"]]
    ang += [p + "rad" for p in pre_sample[:2]]
    em_pairs = [("C", "statC"), ("T", "G"), ("A", "statA"), ("V", "statV"), ("ohm", "statohm")]
    em = []
    for a, b in em_pairs:
        em.append([a, b, "m" + a, "k" + b] if tier == "quick" else [a, b] + [p + a for p in pre_sample[:4]] + [p + b for p in pre_sample[:4]])
    fams = {"temperature": temp, "angle": ang}
    for i, e in enumerate(em):
        fams[f"em:{em_pairs[i][0]}"] = e
    # commensurable groups from the table, with prefixes
    bydim = gen.names_by_dim()
    groups = [g for g in bydim.values() if len(g) >= 3]
    ngroups = 6 if tier == "quick" else len(groups)
    for g in rng.sample(groups, min(ngroups, len(groups))):
        g = [s for s in g if lut[s][1] == 0]
        names = list(g)
        for s in g:
            if lut[s][3]:
                names.append(rng.choice(pre_sample) + s)
        if len(names) >= 3:
            fams["dim:" + names[0]] = rng.sample(names, min(len(names), 7 if tier == "quick" else 12))
    # compounds: re-expressions of the same compound shape
    ncomp = 4 if tier == "quick" else 30
    for i in range(ncomp):
        shape = [(rng.choice(groups), rng.choice(gen.EXPONENTS)) for _ in range(rng.randint(2, 3))]
        names = []
        for _ in range(4):
            parts = []
            for g, e in shape:
                g0 = [s for s in g if lut[s][1] == 0]
                if not g0:
                    break
                s = rng.choice(g0)
                if lut[s][3] and rng.random() < 0.4:
                    s = rng.choice(pre_sample) + s
                parts.append(f"{s}**({e.numerator}/{e.denominator})")
            else:
                names.append("*".join(parts))
        if len(set(names)) >= 3:
            fams[f"compound:{i}"] = sorted(set(names))
    return fams


def mag(*arrs):
    m = 0.0
    for a in arrs:
        a = np.asarray(a)
        if a.size:
            with np.errstate(all="ignore"):
                v = float(np.nanmax(np.abs(a)))
            if np.isfinite(v):
                m = max(m, v)
    return m


def near(a, b, tol):
    a = np.asarray(a)
    b = np.asarray(b)
    if a.shape != b.shape:
        return False
    with np.errstate(all="ignore"):
        return bool(np.all(np.abs(a - b) <= tol))


def step_info(ua, ub):
    """(|factor|, magnitude of the offset terms that may cancel) of one conversion step.
    Over-approximates: the effective offset of a unit is |o| or |o/s| (prefixed spelling)."""
    if ua.dimensions == ub.dimensions:
        f = abs(ua.base_value / ub.base_value)
        ea = max(abs(ua.base_offset), abs(ua.base_offset / ua.base_value))
        eb = max(abs(ub.base_offset), abs(ub.base_offset / ub.base_value))
        return f, f * ea + eb
    # EM pair: no offsets; factor estimated from the data by the caller
    return None, 0.0


def chain_tol(eps, raw, vals, units_chain):
    """a forward error bound for converting `raw` along units_chain[0] -> [1] -> ...:
    each step contributes c*eps*(|result| + |offset|), carried through later factors"""
    err = 0.0
    prev = mag(raw)
    for i in range(1, len(units_chain)):
        f, o = step_info(units_chain[i - 1], units_chain[i])
        cur = mag(vals[i - 1])
        if f is None:
            f = (cur / prev) if prev else 1.0
        err = err * f + 64 * eps * (cur + o + prev * f)
        prev = cur
    return err


def snippet(body):
    return "import numpy as np, unyt, sys\nfrom unyt import unyt_array, unyt_quantity, Unit\n" + body


# --------------------------------------------------------------------------------------
# conversion histories (UnytModel/ConvHistory.lean, UnytProofs/C03History.lean)

HIST_REPLAY = r"""
import numpy as np, unyt, sys
from unyt import unyt_array, unyt_quantity, Unit
REG = unyt.unit_registry.default_unit_registry
x0, a0, ops, rounds, reps = {x0!r}, {a0!r}, {ops!r}, {rounds!r}, {reps!r}
_fac = {{}}
def by_hand(x, a, b):
    # Unit.get_conversion_factor applied by hand, on long-lived units; b = unit name or ("base", system)
    if (a, b) not in _fac:
        ua = Unit(a, registry=REG)
        ub = ua.get_base_equivalent(b[1]) if isinstance(b, tuple) else Unit(b, registry=REG)
        _fac[a, b] = ua.get_conversion_factor(ub)
    f, o = _fac[a, b]
    return x * f - (o if o else 0.0), abs(x * f) + abs(o or 0.0)
def target_of(op):
    return op[1] if op[0] in ("C", "P") else (op[3] if op[0] in ("T", "I") else ("base", op[1] if op[0] == "PB" else op[3]))
def play():
    obj = unyt_array([x0], a0)
    label = a0
    out = []
    for _ in range(rounds):
        for op in ops:
            if op[0] == "C":
                pre = float(obj.d[0]); obj.convert_to_units(op[1]); out.append((op, pre, label, float(obj.d[0]))); label = op[1]
            elif op[0] == "P":
                pre = float(obj.d[0])
                r = obj.to_value(op[1]) if op[2] == 0 else (obj.to(op[1]).d if op[2] == 1 else obj.in_units(op[1]).d)
                out.append((op, pre, label, float(r[0])))
            elif op[0] == "T":
                out.append((op, op[1], op[2], unyt_quantity(op[1], op[2]).to_value(op[3])))
            elif op[0] == "I":
                t = unyt_array([op[1]], op[2]); t.convert_to_units(op[3]); out.append((op, op[1], op[2], float(t.d[0])))
            elif op[0] == "PB":
                pre = float(obj.d[0])
                r = obj.in_base(op[1]) if op[2] == 0 else getattr(obj, "in_" + op[1])()
                out.append((op, pre, label, float(r.d[0])))
            elif op[0] == "TB":
                q = unyt_quantity(op[1], op[2])
                out.append((op, op[1], op[2], float((q.in_base(op[3]) if op[4] == 0 else getattr(q, "in_" + op[3])()).d)))
            else:
                t = unyt_array([op[1]], op[2])
                t.convert_to_base(op[3]) if op[4] == 0 else getattr(t, "convert_to_" + op[3])()
                out.append((op, op[1], op[2], float(t.d[0])))
    return out
for rep in range(reps):
    for i, (op, pre, label, got) in enumerate(play()):
        tg = target_of(op)
        want, m = by_hand(pre, label, tg)
        assert abs(got - want) <= 64 * 2.0 ** -52 * (m + abs(got)), (
            f"call {{i}} of repetition {{rep}}: {{op}} on {{pre}} {{label}} -> {{tg}} returned {{got}}, "
            f"get_conversion_factor applied by hand gives {{want}}")
"""


def play_history(x0, a0, ops, rounds):
    """the history on the real library, in a tight loop (nothing else is allocated in between, so
    short-lived units are collected and their storage re-used as in user code)"""
    from unyt import unyt_array, unyt_quantity
    obj = unyt_array([x0], a0)
    label = a0
    out = []
    for _ in range(rounds):
        for op in ops:
            if op[0] == "C":
                pre = float(obj.d[0])
                obj.convert_to_units(op[1])
                out.append((op, pre, label, float(obj.d[0])))
                label = op[1]
            elif op[0] == "P":
                pre = float(obj.d[0])
                r = obj.to_value(op[1]) if op[2] == 0 else (obj.to(op[1]).d if op[2] == 1 else obj.in_units(op[1]).d)
                out.append((op, pre, label, float(r[0])))
            elif op[0] == "T":
                out.append((op, op[1], op[2], unyt_quantity(op[1], op[2]).to_value(op[3])))
            elif op[0] == "I":
                t = unyt_array([op[1]], op[2])
                t.convert_to_units(op[3])
                out.append((op, op[1], op[2], float(t.d[0])))
            elif op[0] == "PB":
                pre = float(obj.d[0])
                r = obj.in_base(op[1]) if op[2] == 0 else getattr(obj, "in_" + op[1])()
                out.append((op, pre, label, float(r.d[0])))
            elif op[0] == "TB":
                q = unyt_quantity(op[1], op[2])
                out.append((op, op[1], op[2], float((q.in_base(op[3]) if op[4] == 0 else getattr(q, "in_" + op[3])()).d)))
            else:
                t = unyt_array([op[1]], op[2])
                t.convert_to_base(op[3]) if op[4] == 0 else getattr(t, "convert_to_" + op[3])()
                out.append((op, op[1], op[2], float(t.d[0])))
    return out


def target_of(op):
    """unit name, or ("base", system) for the base-system routes"""
    return op[1] if op[0] in ("C", "P") else (op[3] if op[0] in ("T", "I") else ("base", op[1] if op[0] == "PB" else op[3]))


def histories(chk, fam, famkind, names, units, tier, hist_lines, hist_expect):
    """histories of conversions on one long-lived array and on short-lived temporaries built from
    unit NAMES (a fresh Unit object per temporary).  Oracle (direct): every returned number is
    what Unit.get_conversion_factor applied by hand gives for (numbers, current unit, target) —
    i.e. the result does not depend on the calls made before."""
    rng = chk.rng
    # only one dimension per history (EM families hold two)
    bydim = {}
    for n in names:
        bydim.setdefault(str(units[n].dimensions), []).append(n)
    pools = [g for g in bydim.values() if len(g) >= 2]
    if not pools:
        return
    nh = (10 if famkind in ("temperature", "angle") else 2) if tier == "quick" else (30 if famkind in ("temperature", "angle") else 8)
    rounds = 6
    eps = EPS["float64"]
    fac = {}

    def by_hand(x, a, b):
        if (a, b) not in fac:
            ub = units[a].get_base_equivalent(b[1]) if isinstance(b, tuple) else units[b]
            fac[a, b] = units[a].get_conversion_factor(ub) + (abs(ub.base_offset),)
        f, o, _ = fac[a, b]
        return x * f - (o if o else 0.0), abs(x * f) + abs(o or 0.0), abs(f)

    def base_ok(a, sysname):
        """the base-system routes are compared by hand outside the EM table's dimensions only"""
        if famkind == "em":
            return False
        try:
            by_hand(1.0, a, ("base", sysname))
            return True
        except Exception:
            return False

    for h in range(nh):
        pool = rng.choice(pools)
        # units that are easily mistaken for each other: same scale, another zero point
        # (K/degC/delta_degC, degree/lon, ...), or same zero point and another scale
        srcs = pool
        if rng.random() < 0.7:
            a = rng.choice(pool)
            twins = [n for n in pool if units[n].base_value == units[a].base_value]
            if len({units[n].base_offset for n in twins}) >= 2:
                srcs = twins
        tgts = rng.sample(pool, min(len(pool), 2))
        a0 = rng.choice(srcs)
        x0 = float(gen.data(rng, (), "float64", -1, 3))
        ops = []
        # half of the histories are "focused": one route, one target (or system), only the source
        # unit varies from call to call — the pattern in which any state kept between calls and
        # keyed on less than the data the factor depends on shows
        focus = rng.choice(["T", "I", "TB", "IB"]) if rng.random() < 0.5 else None
        if focus and srcs is pool:
            groups = {}
            for n in pool:
                groups.setdefault(units[n].base_value, []).append(n)
            groups = [g for g in groups.values() if len({units[n].base_offset for n in g}) >= 2]
            if groups:
                srcs = rng.choice(groups)
        ftarget = rng.choice(tgts)
        fsys = rng.choice(["mks", "cgs"])
        for _ in range(rng.randint(4, 7)):
            k = focus or rng.choice("CPTTTIIBBB")
            if k == "B":
                k = rng.choice(["PB", "TB", "TB", "IB"])
            if k in ("PB", "TB", "IB"):
                sysname = fsys if focus else rng.choice(["mks", "cgs"])
                src = rng.choice(srcs)
                if k == "PB" and all(base_ok(n, sysname) for n in set(srcs + tgts)):
                    ops.append(("PB", sysname, rng.randint(0, 1)))
                elif k != "PB" and base_ok(src, sysname):
                    ops.append((k, float(gen.data(rng, (), "float64", -1, 3)), src, sysname, rng.randint(0, 1)))
            elif k == "C":
                ops.append(("C", rng.choice(srcs + tgts)))
            elif k == "P":
                ops.append(("P", rng.choice(tgts), rng.randint(0, 2)))
            else:
                ops.append((k, float(gen.data(rng, (), "float64", -1, 3)), rng.choice(srcs), ftarget if focus else rng.choice(tgts)))
        if not ops:
            continue
        try:
            out = play_history(x0, a0, ops, rounds)
        except Exception as e:
            chk.fail(f"history-raise|{famkind}", f"a conversion history between commensurable units raised {core.exc_name(e)}",
                     {"python": HIST_REPLAY.format(x0=x0, a0=a0, ops=ops, rounds=rounds, reps=1), "error": repr(e)})
            continue
        chk.case(("history", fam, a0, tuple(ops)), {"family": fam, "history": [a0] + [list(o) for o in ops], "rounds": rounds} if len(chk.samples) < 8 else None)
        chk.count("history:" + famkind)
        failed = False
        wire = ["c03.hist", str(core.f2b(x0))] + list(map(str, gen.expr_wire(units[a0].expr)))
        tols = []
        err = 0.0
        for i, (op, pre, label, got) in enumerate(out):
            tg = target_of(op)
            want, m, f = by_hand(pre, label, tg)
            chk.count("history-op:" + op[0])
            if not np.isfinite(got) or abs(got - want) > 64 * eps * (m + abs(got)):
                if not failed:
                    failed = True
                    route = {"C": "convert_to_units", "P": "to_value/to/in_units", "T": "temporary.to_value", "I": "temporary.convert_to_units",
                             "PB": "in_base", "TB": "temporary.in_base", "IB": "temporary.convert_to_base"}[op[0]]
                    chk.fail(f"history|{famkind}|{route}",
                             f"call {i} of a conversion history: {op} on {pre} {label} returned {got}, get_conversion_factor applied by hand gives {want}"
                             " (the result depends on earlier conversions)",
                             {"python": HIST_REPLAY.format(x0=x0, a0=a0, ops=ops, rounds=rounds, reps=30), "units": [label, str(tg)], "history": [a0] + [list(o) for o in ops]})
            # error carried by the in-place chain of the model vs the implementation
            t_i = 512 * eps * (m + abs(got) + abs(units[label].base_offset) + fac[label, tg][2])
            if op[0] == "C":
                err = err * f + t_i
                tols.append(err)
            elif op[0] in ("P", "PB"):
                tols.append(err * f + t_i)
            else:
                tols.append(t_i)
            if op[0] in ("C", "P"):
                wire += [op[0]] + list(map(str, gen.expr_wire(units[tg].expr)))
            elif op[0] in ("T", "I"):
                wire += [op[0], str(core.f2b(op[1]))] + list(map(str, gen.expr_wire(units[op[2]].expr))) + list(map(str, gen.expr_wire(units[tg].expr)))
            elif op[0] == "PB":
                wire += ["PB", op[1]]
            else:
                wire += [op[0], str(core.f2b(op[1]))] + list(map(str, gen.expr_wire(units[op[2]].expr))) + [op[3]]
        hist_lines.append("\t".join(wire))
        hist_expect.append((fam, a0, ops, [o[3] for o in out], tols))


def run(tier, seed):
    import unyt
    from unyt import Unit, unyt_array

    chk = core.Check("C03", tier, seed)
    chk.proof = core.prove("C03", PROOF_MODULES, extra_targets=("unytmodel", "drv_c03"), tier=tier)
    rng = chk.rng
    fams = families(tier, rng)
    model_lines = []
    model_expect = []
    hist_lines = []
    hist_expect = []
    route_lines = []
    route_expect = []
    base_lines = []
    base_expect = []
    seen_base = {}
    dtypes = ["float64", "float32", "complex128", "int32"]
    max_triples = 1500 if tier == "quick" else 40000
    for fam, names in fams.items():
        units = {}
        for n in names:
            try:
                units[n] = Unit(n)
            except Exception as e:  # a listed name that does not parse is C14's business
                chk.count("unparsable:" + core.exc_name(e))
        names = [n for n in names if n in units]
        famkind = fam.split(":")[0]
        triples = list(itertools.product(names, repeat=3))
        if len(triples) > max_triples // max(1, len(fams)) * 3:
            triples = rng.sample(triples, max_triples // max(1, len(fams)) * 3)
        # --- laws on the real code (direct oracle) ---------------------------------
        for (a, b, c) in triples:
            dt = "float64" if rng.random() < 0.7 else rng.choice(dtypes)
            shape = () if rng.random() < 0.25 else (3,)
            raw = gen.data(rng, shape, dt, -2, 3)
            x = unyt_array(raw.copy(), units[a])
            eps = EPS[dt]
            try:
                xa = x.to(units[a])
                xb = x.to(units[b])
                xba = xb.to(units[a])
                xc = x.to(units[c])
                xbc = xb.to(units[c])
            except Exception as e:
                chk.count("law-raised:" + core.exc_name(e))
                chk.fail(f"raise|{famkind}", f"commensurable conversion raised {core.exc_name(e)}",
                         {"python": snippet(f"x = unyt_array(np.array({raw.tolist()!r}, dtype='{dt}'), '{a}')\nx.to('{a}'); x.to('{b}').to('{a}'); x.to('{b}').to('{c}'); x.to('{c}')\n"),
                          "units": [a, b, c], "error": repr(e)})
                continue
            if not all(np.all(np.isfinite(v.d)) for v in (xa, xb, xba, xc, xbc)):
                chk.count("overflow-skipped")
                continue
            if dt != "float64" and dt != "complex128":
                lo_, hi_ = 1e-30, 1e30
                allv = np.concatenate([np.abs(np.atleast_1d(v.d)).ravel() for v in (xb, xc, xbc, xba)])
                # the conversion factor itself is cast to the narrow dtype by NumPy: a factor that is
                # sub-normal or overflows there (yK -> ZK is 1e-45) is outside "up to rounding"
                facs = []
                for (p_, q_) in ((a, b), (b, c), (a, c), (b, a)):
                    if units[p_].dimensions == units[q_].dimensions:
                        facs.append(abs(units[p_].base_value / units[q_].base_value))
                if any(f_ < lo_ or f_ > hi_ for f_ in facs):
                    chk.count("narrow-dtype-factor-range-skipped")
                    continue
                if np.any((allv != 0) & ((allv < lo_) | (allv > hi_))) or np.any(allv == 0):
                    chk.count("narrow-dtype-range-skipped")
                    continue
            ua_, ub_, uc_ = units[a], units[b], units[c]
            tol_inv = chain_tol(eps, raw, [xb.d, xba.d], [ua_, ub_, ua_]) + 8 * eps * mag(raw)
            tol_cmp = chain_tol(eps, raw, [xb.d, xbc.d], [ua_, ub_, uc_]) + chain_tol(eps, raw, [xc.d], [ua_, uc_])
            tol = 8 * eps * mag(raw)
            chk.case((fam, a, b, c), {"family": fam, "A": a, "B": b, "C": c, "dtype": dt, "x": np.asarray(raw).tolist() if dt != "complex128" else str(raw)} if len(chk.samples) < 6 else None)
            chk.count("law:" + famkind)
            body_common = f"x = unyt_array(np.array({raw.tolist()!r}, dtype='{dt}'), '{a}')\ntol = {tol!r}\n"
            if not near(xa.d, raw.astype(xa.dtype), tol):
                chk.fail(f"id|{famkind}", "x.to(own unit) changed the numbers",
                         {"python": snippet(body_common + f"r = x.to('{a}')\nassert np.all(np.abs(r.d - x.d) <= tol), (r, x)\n"), "units": [a]})
            if not near(xba.d, raw.astype(xba.dtype), tol_inv):
                chk.fail(f"inverse|{famkind}", "A->B->A does not return the original numbers",
                         {"python": snippet(body_common + f"tol = {tol_inv!r}\nr = x.to('{b}').to('{a}')\nassert np.all(np.abs(r.d - x.d) <= tol), (r, x)\n"), "units": [a, b]})
            if not near(xbc.d, xc.d, tol_cmp):
                chk.fail(f"composition|{famkind}", "A->B->C differs from A->C",
                         {"python": snippet(body_common + f"tol = {tol_cmp!r}\nr1 = x.to('{b}').to('{c}'); r2 = x.to('{c}')\nassert np.all(np.abs(r1.d - r2.d) <= tol), (r1, r2)\n"), "units": [a, b, c]})
            if xbc.units != xc.units or xba.units != x.units:
                chk.fail(f"unit-label|{famkind}", "resulting unit differs between routes", {"units": [a, b, c]})
        # --- histories on one object and on temporaries ------------------------------
        hnames = []
        for n in names:
            try:
                gen.expr_wire(units[n].expr)
                hnames.append(n)
            except ValueError:
                pass
        histories(chk, fam, famkind, hnames, units, tier, hist_lines, hist_expect)
        # --- routes and the model, on ordered pairs ---------------------------------
        pairs = list(itertools.product(names, repeat=2))
        if tier == "quick" and len(pairs) > 150:
            pairs = rng.sample(pairs, 150)
        for (a, b) in pairs:
            ua, ub = units[a], units[b]
            raw = gen.data(rng, (3,), "float64", -2, 3)
            x = unyt_array(raw.copy(), ua)
            is_em = famkind == "em" and ua.dimensions != ub.dimensions
            results = {}
            try:
                results["to"] = x.to(ub)
                results["in_units"] = x.in_units(b)
                results["to_value"] = unyt_array(x.to_value(ub), ub)
                y = x.copy()
                y.convert_to_units(ub)
                results["convert_to_units"] = y
                q = unyt.unyt_quantity(float(raw[0]), ua)
                results["quantity.to_value"] = unyt_array(np.array([q.to_value(ub)]), ub)
                if not is_em:
                    f, o = ua.get_conversion_factor(ub)
                    results["manual"] = unyt_array(raw * f - (o if o else 0.0), ub)
            except Exception as e:
                chk.fail(f"raise-route|{famkind}", f"a route raised {core.exc_name(e)} for commensurable units",
                         {"python": snippet(f"x = unyt_array(np.array({raw.tolist()!r}), '{a}')\nx.to('{b}'); x.in_units('{b}'); x.to_value('{b}'); y=x.copy(); y.convert_to_units('{b}')\n"), "units": [a, b], "error": repr(e)})
                continue
            ref = results["to"]
            m = mag(raw, ref.d) + abs(ua.base_offset) + abs(ub.base_offset)
            tol = 512 * EPS["float64"] * m
            chk.count("routes:" + famkind)
            chk.case(("routes", fam, a, b))
            for rn, rv in results.items():
                want = ref.d if rn != "quantity.to_value" else ref.d[:1]
                if not near(rv.d, want, tol) or rv.units != ref.units:
                    chk.fail(f"routes|{famkind}|{rn}", f"route {rn} disagrees with .to()",
                             {"python": snippet(f"x = unyt_array(np.array({raw.tolist()!r}), '{a}')\nref = x.to('{b}')\n"
                                                 + {"in_units": f"r = x.in_units('{b}')\n", "to_value": f"r = unyt_array(x.to_value('{b}'), '{b}')\n",
                                                    "convert_to_units": f"r = x.copy(); r.convert_to_units('{b}')\n",
                                                    "manual": f"f, o = Unit('{a}').get_conversion_factor(Unit('{b}')); r = unyt_array(x.d*f - (o or 0.0), '{b}')\n",
                                                    "quantity.to_value": f"r = unyt_array(np.array([unyt_quantity(x.d[0], '{a}').to_value('{b}')]), '{b}'); ref = ref[:1]\n",
                                                    "to": "r = ref\n"}[rn]
                                                 + f"assert np.all(np.abs(r.d - ref.d) <= {tol!r}) and r.units == ref.units, (r, ref)\n"), "units": [a, b]})
            # base-system routes
            for sysname in ("mks", "cgs"):
                try:
                    rb = x.in_base(sysname)
                    y = x.copy()
                    y.convert_to_base(sysname)
                    rs = x.in_cgs() if sysname == "cgs" else x.in_mks()
                    z = x.copy()
                    (z.convert_to_cgs if sysname == "cgs" else z.convert_to_mks)()
                    via = x.to(x.units.get_base_equivalent(sysname))
                except Exception as e:
                    chk.count("base-raised:" + core.exc_name(e))
                    continue
                tolb = 512 * EPS["float64"] * (mag(raw, rb.d) + abs(ua.base_offset))
                chk.count("base-routes:" + sysname)
                if sysname not in seen_base.setdefault(a, set()):
                    seen_base[a].add(sysname)
                    try:
                        base_lines.append("\t".join(["c03.base", sysname, str(core.f2b(float(raw[0])))] + list(map(str, gen.expr_wire(ua.expr)))))
                        base_expect.append((a, sysname, float(rb.d[0]), float(y.d[0]), float(via.d[0]), tolb))
                    except ValueError:
                        pass
                for rn, rv in (("convert_to_base", y), ("in_" + sysname, rs), ("convert_to_" + sysname, z), ("to(get_base_equivalent)", via)):
                    if not near(rv.d, rb.d, tolb) or rv.units != rb.units:
                        chk.fail(f"base-routes|{famkind}|{rn}", f"{rn}({sysname}) disagrees with in_base",
                                 {"python": snippet(f"x = unyt_array(np.array({raw.tolist()!r}), '{a}')\nrb = x.in_base('{sysname}')\ny = x.copy(); y.convert_to_base('{sysname}')\nv = x.to(x.units.get_base_equivalent('{sysname}'))\n"
                                                     f"for r in (y, v, x.in_{sysname}()):\n    assert np.all(np.abs(r.d - rb.d) <= {tolb!r}) and r.units == rb.units, (r, rb)\n"), "units": [a, sysname]})
            # both routes of the model, EM branch included (UnytModel/ConvRoutes.lean)
            try:
                wa = list(map(str, gen.expr_wire(ua.expr)))
                wb = list(map(str, gen.expr_wire(ub.expr)))
                route_lines.append("\t".join(["c03.routes", str(core.f2b(float(raw[0])))] + wa + wb))
                route_expect.append((fam, a, b, float(results["in_units"].d[0]), float(results["convert_to_units"].d[0]), tol, is_em))
            except ValueError:
                pass
            # model comparison (non-EM pairs)
            if not is_em:
                try:
                    ca, fa = gen.expr_wire(ua.expr)
                    cb, fb = gen.expr_wire(ub.expr)
                except ValueError:
                    continue
                f, o = ua.get_conversion_factor(ub)
                xv = float(raw[0])
                model_lines.append("\t".join(["convunits", "0", str(ca), fa, str(cb), fb, str(core.f2b(xv))]))
                model_expect.append((fam, a, b, f, o, float(results["to"].d[0]), xv, tol))
    # --- correspondence: model vs implementation ----------------------------------------
    if chk.proof["build_ok"] or True:
        try:
            replies = core.Model().ask(model_lines)
        except Exception as e:
            replies = []
            chk.disagree("driver", repr(e))
        for rep, (fam, a, b, f, o, res, xv, tol) in zip(replies, model_expect):
            chk.count("model:convunits")
            if rep[0] != "ok":
                chk.disagree("convunits", f"{a}->{b}: model {rep}, implementation factor {f} offset {o}")
                continue
            mf = core.b2f(rep[1])
            mo = None if rep[2] == "none" else core.b2f(rep[2])
            mr = core.b2f(rep[3])
            ok = core.close(mf, f) and ((mo is None) == (o is None) or (mo in (None, 0.0) and o in (None, 0.0)))
            if ok and mo is not None and o is not None:
                ok = abs(mo - o) <= 64 * EPS["float64"] * (abs(o) + abs(f) * 500 + 500)
            if ok:
                ok = abs(mr - res) <= tol
            if not ok:
                chk.disagree("convunits", f"{a}->{b} x={xv}: model ({mf},{mo},{mr}) vs implementation ({f},{o},{res})",
                             {"units": [a, b]})
    try:
        hreplies = core.Model("drv_c03").ask(hist_lines)
    except Exception as e:
        hreplies = []
        chk.disagree("driver", repr(e))
    for rep, (fam, a0, ops, outs, tols) in zip(hreplies, hist_expect):
        chk.count("model:c03.hist")
        if rep[0] != "ok" or len(rep) != len(outs) + 2:
            chk.disagree("c03.hist", f"{fam} {a0} {ops}: model {rep[:4]}")
            continue
        for i, (mv, rv, tl) in enumerate(zip(rep[1:-1], outs, tols)):
            if mv.startswith("err:") or not abs(core.b2f(mv) - rv) <= tl:
                chk.disagree("c03.hist", f"{fam}: call {i} ({ops[i % len(ops)]}) of history from {a0}: model {mv if mv.startswith('err') else core.b2f(mv)} vs implementation {rv}",
                             {"history": [a0] + [list(o) for o in ops]})
                break
    try:
        rreplies = core.Model("drv_c03").ask(route_lines)
    except Exception as e:
        rreplies = []
        chk.disagree("driver", repr(e))
    for rep, (fam, a, b, r_in, r_cv, tol, is_em) in zip(rreplies, route_expect):
        chk.count("model:c03.routes" + (":em" if is_em else ""))
        bad = rep[0] != "ok" or len(rep) != 3 or rep[1].startswith("err") or rep[2].startswith("err")
        if not bad:
            bad = not (abs(core.b2f(rep[1]) - r_in) <= tol and abs(core.b2f(rep[2]) - r_cv) <= tol)
        if bad:
            chk.disagree("c03.routes", f"{a}->{b}: model {rep} vs implementation in_units {r_in} convert_to_units {r_cv}", {"units": [a, b]})
    try:
        breplies = core.Model("drv_c03").ask(base_lines)
    except Exception as e:
        breplies = []
        chk.disagree("driver", repr(e))
    for rep, (a, sysname, r_in, r_cv, r_via, tolb) in zip(breplies, base_expect):
        chk.count("model:c03.base")
        bad = rep[0] != "ok" or len(rep) != 4 or any(f.startswith("err") for f in rep[1:])
        if not bad:
            bad = not all(abs(core.b2f(f) - r) <= tolb for f, r in zip(rep[1:], (r_in, r_cv, r_via)))
        if bad:
            chk.disagree("c03.base", f"{a} into {sysname}: model {rep} vs implementation in_base {r_in} convert_to_base {r_cv} to(get_base_equivalent) {r_via}", {"units": [a, sysname]})
    rule = ("ordered triples (A,B,C) of commensurable unit strings per family (temperature incl. SI prefixes, angle incl. lat/lon, "
            "EM pairs with prefixes, table groups by dimension, re-expressed compounds) x seeded data x dtype x shape; "
            "plus conversion histories (in-place / copy calls on one array interleaved with calls on temporaries built from unit names, 6 rounds each); "
            "distinct = distinct (family,A,B,C), (routes,family,A,B) or (history,family,start,ops); every case has at least one non-identity conversion")
    return chk.finish(rule)
