"""C18 shared helpers: guard-buffer views, snapshots of every observable aspect of an operand,
and the diff that names what changed.  Imported by harness/c18.py and by the replay snippets
(so it must not depend on the run's state).  Never consults the model."""
import warnings

import numpy as np

GUARD = 3           # sentinel elements on either side of the data
SENT_BYTE = 0xA5


class Held:
    """an operand that is a VIEW of a guard buffer: `obj` is what the call receives, `buf` the
    raw byte buffer that owns the memory (sentinel bytes around the data), `base` an independent
    unyt/ndarray object sharing the same memory (what another holder of the data sees)"""

    __slots__ = ("obj", "buf", "lo", "hi", "base", "kind")

    def __init__(self, obj, buf=None, lo=0, hi=0, base=None, kind="view"):
        self.obj, self.buf, self.lo, self.hi, self.base, self.kind = obj, buf, lo, hi, base, kind


def guard_view(data, strided=False):
    """(ndarray view with the contents of `data`, raw uint8 buffer, lo, hi): the view lives inside a
    byte buffer filled with a sentinel; `strided` makes it a non-contiguous view (every second
    element of the last axis)"""
    data = np.asarray(data)
    shape = data.shape
    isz = data.dtype.itemsize
    if strided and data.ndim >= 1 and shape[-1] > 0:
        wide = shape[:-1] + (shape[-1] * 2,)
    else:
        strided = False
        wide = shape
    n = int(np.prod(wide)) if wide else 1
    raw = np.full((n + 2 * GUARD) * isz, SENT_BYTE, dtype=np.uint8)
    lo, hi = GUARD * isz, (GUARD + n) * isz
    inner = raw[lo:hi].view(data.dtype).reshape(wide)
    view = inner[..., ::2] if strided else inner
    view[...] = data
    return view, raw, lo, hi


def hold(data, unit=None, strided=False, quantity_ok=True, name=None, registry=None):
    """an operand holding `data` as a view of a guard buffer, wrapped as unyt_array /
    unyt_quantity in `unit` (None: a bare ndarray view)"""
    import unyt

    d = np.asarray(data)
    view, raw, lo, hi = guard_view(d, strided)
    if unit is None:
        return Held(view, raw, lo, hi, view.view(), "bare")
    u = unit if isinstance(unit, unyt.Unit) else (unyt.Unit(unit, registry=registry) if registry is not None else unyt.Unit(unit))
    if d.ndim == 0 and quantity_ok:
        obj = unyt.unyt_quantity(view, u, name=name)
    else:
        obj = unyt.unyt_array(view, u, name=name)
    if not np.shares_memory(obj, raw):
        # the constructor copied (it does for some inputs): fall back to a view of the copy
        return Held(obj, None, 0, 0, obj.view(np.ndarray), "copy")
    return Held(obj, raw, lo, hi, view.view(), "view")


def unit_sig(u):
    return (str(u.expr), float(u.base_value), float(u.base_offset), str(u.dimensions), id(u.registry))


def snap(o, held=None):
    """everything observable about an operand: class, shape, dtype, bytes (through a plain ndarray
    view), unit (expression, scale, offset, dimensions, registry identity), name, flags; for
    operands that are views: the guard bytes and what the base object reads"""
    import unyt

    s = {}
    if isinstance(o, np.ndarray):
        a = o.view(np.ndarray)
        s["cls"] = type(o).__name__
        s["shape"] = tuple(a.shape)
        s["dtype"] = a.dtype.str
        s["bytes"] = np.ascontiguousarray(a).tobytes()
        s["writeable"] = bool(a.flags.writeable)
        if isinstance(o, unyt.unyt_array):
            s["unit"] = unit_sig(o.units)
            s["unit_id"] = id(o.units)
            s["name"] = o.name
    elif isinstance(o, unyt.Unit):
        s["cls"] = "Unit"
        s["unit"] = unit_sig(o)
    elif isinstance(o, (list, tuple)):
        s["cls"] = type(o).__name__
        s["items"] = tuple(_freeze(snap(x)) for x in o)
    else:
        s["cls"] = type(o).__name__
        s["repr"] = repr(o)
    if held is not None and held.buf is not None:
        s["guard"] = held.buf[: held.lo].tobytes() + held.buf[held.hi:].tobytes()
        b = held.base
        s["base_dtype"] = b.dtype.str
        s["base_bytes"] = np.ascontiguousarray(b).tobytes()
    return s


def _freeze(s):
    return tuple(sorted((k, v) for k, v in s.items()))


def numbers(s):
    """the numbers a snapshot holds, as float64/complex128 (None when not numeric)"""
    if "bytes" not in s:
        return None
    dt = np.dtype(s["dtype"])
    a = np.frombuffer(s["bytes"], dtype=dt).reshape(s["shape"])
    if dt.kind in "biuf":
        with np.errstate(all="ignore"):
            return a.astype(np.float64) if dt.itemsize <= 8 or dt.kind != "f" else a.astype(np.longdouble)
    if dt.kind == "c":
        return a.astype(np.complex128)
    return None


def same_numbers(s0, s1):
    a, b = numbers(s0), numbers(s1)
    if a is None or b is None:
        return s0.get("bytes") == s1.get("bytes")
    return a.shape == b.shape and bool(np.array_equal(a, b, equal_nan=True))


def delta(s0, s1):
    """sorted list of the aspects that differ between two snapshots of the same operand:
       numbers   the values read through the dtype differ (or are no longer readable as the same numbers)
       dtype     dtype differs (numbers may be equal: an int→float re-typing)
       unit      expression / scale / offset / dimensions differ
       registry  same unit, another registry object
       name, shape, class, writeable, items
       base      the memory as read by another holder of the same buffer changed its numbers
       guard     bytes outside the operand's extent were written"""
    out = []
    if s0.get("cls") != s1.get("cls"):
        out.append("class")
    if s0.get("shape") != s1.get("shape"):
        out.append("shape")
    if s0.get("dtype") != s1.get("dtype"):
        out.append("dtype")
    if "bytes" in s0 and not same_numbers(s0, s1):
        out.append("numbers")
    if s0.get("unit") != s1.get("unit"):
        u0, u1 = s0.get("unit"), s1.get("unit")
        if u0 is not None and u1 is not None and u0[:4] == u1[:4]:
            out.append("registry")
        else:
            out.append("unit")
    if s0.get("name") != s1.get("name"):
        out.append("name")
    if s0.get("writeable") != s1.get("writeable"):
        out.append("writeable")
    if s0.get("items") != s1.get("items"):
        out.append("items")
    if s0.get("repr") != s1.get("repr"):
        out.append("value")
    if s0.get("guard") != s1.get("guard"):
        out.append("guard")
    if "base_bytes" in s0:
        b0 = {"bytes": s0["base_bytes"], "dtype": s0["base_dtype"], "shape": (len(s0["base_bytes"]) // np.dtype(s0["base_dtype"]).itemsize,)}
        b1 = {"bytes": s1["base_bytes"], "dtype": s1["base_dtype"], "shape": (len(s1["base_bytes"]) // np.dtype(s1["base_dtype"]).itemsize,)}
        if not same_numbers(b0, b1):
            out.append("base")
    return out


def dtype_class(dt):
    dt = np.dtype(dt)
    if dt.kind in "iu":
        return "int8" if dt.itemsize == 1 else "int"
    if dt.kind == "f":
        return "float"
    if dt.kind == "c":
        return "complex"
    if dt.kind == "b":
        return "bool"
    return "other"


def exc_class(e):
    """canonical exception class name: unyt's own classes by name, builtins by their base"""
    n = type(e).__name__
    if n in ("UFuncTypeError", "_UFuncNoLoopError", "_UFuncOutputCastingError", "_UFuncInputCastingError",
             "_UFuncBinaryResolutionError"):
        return "TypeError"
    if isinstance(e, RecursionError):
        return "RecursionError"
    for c in (KeyError, IndexError, TypeError, ValueError, AttributeError, RuntimeError, ZeroDivisionError, OverflowError):
        if type(e) is c:
            return c.__name__
    mod = type(e).__module__ or ""
    if mod.startswith("unyt"):
        return n
    for c in (KeyError, IndexError, TypeError, ValueError, AttributeError, RuntimeError):
        if isinstance(e, c):
            return c.__name__
    return n


def safe_str(e, n=160):
    """str(exception), never raising (unyt's own `__str__` can fail on odd operands)"""
    if e is None:
        return ""
    try:
        return str(e)[:n]
    except Exception as e2:  # noqa: BLE001
        return f"<{type(e).__name__}: str() raised {type(e2).__name__}>"


def call_quiet(f):
    """(result, exception) with warnings and NumPy floating-point signals silenced"""
    with warnings.catch_warnings():
        warnings.simplefilter("ignore")
        with np.errstate(all="ignore"):
            try:
                return f(), None
            except RecursionError as e:
                return None, e
            except Exception as e:  # noqa: BLE001
                return None, e
