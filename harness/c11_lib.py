"""C11 — the persistence routes of unyt as Python callables, and the single-route probes the
translator plugin (tools/extract.d/c11_routes.py) turns into `Generated/PersistRoutes.lean`.

No dependency on the harness core: imported by the plugin and by harness/c11.py.
Everything here runs on the LIVE library (whatever `import unyt` resolves to).
"""
import copy
import os
import pickle
import shutil
import tempfile

import numpy as np

ROUTES = ["pickleArray", "pickleUnit", "arrayCopy", "copyCopy", "deepcopyArray", "unitCopy",
          "deepcopyUnit", "saveLoadTxt", "unitOfStr", "registryJson"]

# routes whose persisted object is a Unit (the numbers do not travel at all)
UNIT_ROUTES = {"pickleUnit", "unitCopy", "deepcopyUnit", "unitOfStr", "registryJson"}


def rewrap(q, u):
    """the numbers of `q` (untouched) with the restored unit `u` attached"""
    from unyt import unyt_array, unyt_quantity

    cls = unyt_quantity if np.ndim(q) == 0 else unyt_array
    return cls(np.array(q.d, copy=True), u)


def restore(route, q, protocol=None):
    """persist `q` (a unyt_array / unyt_quantity) on `route` and load it back"""
    import unyt
    from unyt import Unit
    from unyt.unit_registry import UnitRegistry

    if route == "pickleArray":
        return pickle.loads(pickle.dumps(q, protocol=protocol if protocol is not None else pickle.DEFAULT_PROTOCOL))
    if route == "pickleUnit":
        return rewrap(q, pickle.loads(pickle.dumps(q.units, protocol=protocol if protocol is not None else pickle.DEFAULT_PROTOCOL)))
    if route == "arrayCopy":
        return q.copy()
    if route == "copyCopy":
        return copy.copy(q)
    if route == "deepcopyArray":
        return copy.deepcopy(q)
    if route == "unitCopy":
        return rewrap(q, q.units.copy())
    if route == "deepcopyUnit":
        return rewrap(q, copy.deepcopy(q.units))
    if route == "saveLoadTxt":
        d = tempfile.mkdtemp(prefix="c11_")
        try:
            fn = os.path.join(d, "a.txt")
            unyt.savetxt(fn, [np.atleast_1d(q)])
            return unyt.loadtxt(fn)
        finally:
            shutil.rmtree(d, ignore_errors=True)
    if route == "unitOfStr":
        return rewrap(q, Unit(str(q.units), registry=q.units.registry))
    if route == "registryJson":
        reg = UnitRegistry.from_json(q.units.registry.to_json())
        return rewrap(q, Unit(str(q.units.expr), registry=reg))
    raise ValueError(route)


def cold_unit(name, reg=None):
    """a Unit for `name` that is NOT in its registry's string cache (built from the sympy
    expression, as `Unit.__mul__` etc. build their results), so that routes which look the
    string up in a shared `_unit_object_cache` are probed on their miss path"""
    from unyt import Unit
    from unyt._parsing import parse_unyt_expr
    from unyt.unit_registry import UnitRegistry

    if reg is None:
        reg = UnitRegistry()
    return Unit(parse_unyt_expr(name), registry=reg)


def origin_registry(route1, unit_system=None):
    """a registry object the user did NOT build: the registry of what came back from `route1` applied
    to a quantity of the DEFAULT registry (a deep copy, an unpickled copy, a `from_json` copy, … of the
    default registry — whatever class and whatever pickling path such an object has).  The second step
    of a two-step history starts here: the user adds units of their own to it and persists again.
    Raises ValueError when that registry shares its table with the default registry (nothing can be
    added to it without editing the default registry itself)."""
    from unyt import unyt_quantity
    from unyt.unit_registry import default_unit_registry
    from unyt.unit_systems import unit_system_registry

    q0 = unyt_quantity(1.0, cold_unit("km", default_unit_registry))
    reg = restore(route1, q0).units.registry
    if reg is default_unit_registry or reg.lut is default_unit_registry.lut:
        raise ValueError(f"{route1}: the restored registry shares its table with the default registry")
    if unit_system is not None:
        reg.unit_system = unit_system_registry[unit_system]
    return reg


def private_origin_routes():
    """the routes that hand a default-registry object back on a registry of its own"""
    out = []
    for r in ROUTES:
        try:
            origin_registry(r)
            out.append(r)
        except ValueError:
            pass
    return out


def set_row_value(reg, sym, value):
    """`reg.modify(sym, value)`; on a registry class that refuses `modify` (the class of the default
    registry), the same row written through `add` (which that class allows)"""
    try:
        reg.modify(sym, value)
        return "modify"
    except TypeError:
        v = reg.lut[sym]
        reg.add(sym, float(value), v[1], tex_repr=v[3], offset=(float(v[2]) if v[2] else None), prefixable=bool(v[4]))
        return "add"


def base_symbols():
    import unyt.dimensions as D

    return {"angle": D.angle, "temperature": D.temperature, "logarithmic": D.logarithmic}


def dim_identity(u):
    """'canon' when `u.dimensions` IS one of the three singleton symbols the code tests with
    `is`, 'lost' when it is EQUAL to one of them but a different object, None otherwise"""
    for _n, s in base_symbols().items():
        if u.dimensions is s:
            return "canon"
        if u.dimensions == s:
            return "lost"
    return None


def noncanon(sym):
    """an equal-but-not-identical copy of a dimension symbol (what pickle/deepcopy produce)"""
    c = copy.copy(sym)
    if c is sym:  # pragma: no cover - sympy hands the same object back
        c = pickle.loads(pickle.dumps(sym))
    return c


# ---------------------------------------------------------------------------------------
# single-route probes (translator)


def _outcome(f):
    try:
        return ("ok", f())
    except Exception as e:  # noqa: BLE001
        return ("exc", type(e).__name__)


def probe_route(route, mkreg=None):
    """the flags of `RouteCfg` for one route, each from ONE persist+load of a purpose-built object.
    `mkreg(unit_system=None)` builds the registry the probe objects hang on (default: a fresh
    `UnitRegistry`; the translator also passes `origin_registry(route1)` factories)"""
    import unyt.dimensions as D
    from unyt import Unit, unyt_array, unyt_quantity
    from unyt.unit_registry import UnitRegistry

    out = {}
    notes = {}
    unit_route = route in UNIT_ROUTES
    if mkreg is None:
        def mkreg(unit_system=None):
            return UnitRegistry(unit_system=unit_system) if unit_system else UnitRegistry()
    _cold = globals()["cold_unit"]

    _shared = []

    def cold_unit(name, reg=None):  # noqa: F811 - every probe object hangs on a registry of the probed kind
        if reg is None:
            # the probes that never edit their registry share one
            if not _shared:
                _shared.append(mkreg())
            reg = _shared[0]
        return _cold(name, reg)

    # --- numbers, dtype, class -----------------------------------------------------------------
    x = unyt_array(np.array([1.5, -2.25e-7, 3.0000000000000004e30, 0.1]), cold_unit("km"))
    r = restore(route, x)
    out["keepsValues"] = bool(np.asarray(r.d).shape == x.d.shape and np.array_equal(np.asarray(r.d), x.d))
    xi = unyt_array(np.array([1, -2, 3], dtype="int32"), cold_unit("km"))
    xf = unyt_array(np.array([1.5, 2.5], dtype="float32"), cold_unit("km"))
    ri, rf = restore(route, xi), restore(route, xf)
    out["keepsDtype"] = bool(ri.dtype == xi.dtype and rf.dtype == xf.dtype and np.array_equal(ri.d, xi.d) and np.array_equal(rf.d, xf.d))
    xq = unyt_quantity(2.5, cold_unit("km"))
    rq = restore(route, xq)
    out["keepsClass"] = type(rq) is type(xq) and type(r) is type(x)
    # --- the unit: same object? by which string? data carried or recomputed? ---------------------
    out["unitSame"] = r.units is x.units
    dq = unyt_quantity(2.0, cold_unit("delta_degC"))
    o = _outcome(lambda: restore(route, dq))
    if o[0] == "ok":
        out["unitByDisplayStr"] = False
        notes["delta_degC"] = str(o[1].units)
    elif o[1] == "UnitParseError":
        out["unitByDisplayStr"] = True
    else:
        raise RuntimeError(f"{route}: delta_degC probe raised {o[1]}")
    reg = mkreg()
    reg.add("vfoo", 3.0, D.length)
    sq = unyt_quantity(2.0, cold_unit("vfoo", reg))
    assert sq.units.base_value == 3.0 and "vfoo" not in reg._unit_object_cache
    set_row_value(reg, "vfoo", 5.0)
    o = _outcome(lambda: restore(route, sq).units.base_value)
    # carried: the (stale) value 3.0 the object holds; recomputed: 5.0 from the table (or refused,
    # when the route does not carry the registry at all)
    out["unitDataCarried"] = o == ("ok", 3.0)
    notes["stale"] = o
    # --- identity of the unit's own dimension object ---------------------------------------------
    cq = unyt_quantity(90.0, cold_unit("degree"))
    assert dim_identity(cq.units) == "canon"
    out["unitCanonOnCanon"] = dim_identity(restore(route, cq).units) == "canon"
    reg = mkreg()
    nu = Unit(Unit("degree").expr, base_value=Unit("degree").base_value, base_offset=0.0, dimensions=noncanon(D.angle), registry=reg)
    assert dim_identity(nu) == "lost"
    nq = unyt_quantity(90.0, nu)
    assert dim_identity(nq.units) == "lost"
    out["unitCanonOnNon"] = dim_identity(restore(route, nq).units) == "canon"
    # --- the registry ----------------------------------------------------------------------------
    def custom(unit_system=None):
        reg = mkreg(unit_system)
        reg.add("vfoo", 3.0, D.angle, prefixable=True)
        reg.add("vbar", 7.0, noncanon(D.angle))
        set_row_value(reg, "g", 2.0)
        try:
            reg.remove("lb")
        except TypeError:
            # the class of the default registry refuses `remove`: "a removed default" is not a state
            # the API reaches on such a registry; the flag is reported as not observable
            notes["removeRefused"] = True
        v = reg.lut["degree"]
        reg.lut["arcsec"] = (reg.lut["arcsec"][0], noncanon(D.angle)) + tuple(reg.lut["arcsec"][2:])
        assert v[1] is D.angle
        return reg

    reg = custom()
    rq = restore(route, unyt_quantity(2.0, cold_unit("km", reg)))
    L = rq.units.registry.lut
    out["regSame"] = L is reg.lut
    out["keepsAdded"] = "vfoo" in L and L["vfoo"][0] == 3.0 and bool(L["vfoo"][4]) and "vbar" in L
    out["keepsModifiedDefault"] = L["g"][0] == 2.0
    out["keepsRemoved"] = None if notes.get("removeRefused") else "lb" not in L
    if out["keepsAdded"]:
        out["userRowCanonOnCanon"] = L["vfoo"][1] is D.angle
        out["userRowCanonOnNon"] = L["vbar"][1] is D.angle
    else:
        # user rows do not travel at all: nothing to observe (reported as "keep", never read)
        out["userRowCanonOnCanon"], out["userRowCanonOnNon"] = True, False
    out["dfltRowCanonOnCanon"] = L["degree"][1] is D.angle
    out["dfltRowCanonOnNon"] = L["arcsec"][1] is D.angle
    reg = custom("cgs")
    rq = restore(route, unyt_quantity(2.0, cold_unit("km", reg)))
    us = rq.units.registry.unit_system
    out["keepsUnitSystem"] = getattr(us, "name", str(us)) == "cgs"
    # --- default rows re-declared through add() with exactly the default data except ONE field ------
    reg = mkreg()
    for sym, field in (("ft", "value"), ("AU", "dimensions"), ("hr", "offset"), ("ly", "tex"),
                       ("mile", "prefixable"), ("bar", "prefixable"), ("Msun", "prefixable")):
        redeclare(reg, sym, field)
    want = {k: tuple(reg.lut[k]) for k in ("ft", "AU", "hr", "ly", "mile", "bar", "Msun")}
    assert want["mile"][4] is True and want["bar"][4] is False and want["Msun"][4] is True
    rq = restore(route, unyt_quantity(2.0, cold_unit("km", reg)))
    L = rq.units.registry.lut
    lost = {k: row_diff(want[k], L[k]) if k in L else ["missing"] for k in want}
    out["keepsModifiedDefault"] = bool(out["keepsModifiedDefault"] and not lost["ft"] and not lost["AU"] and not lost["hr"])
    out["keepsFlagOnlyDefault"] = not lost["mile"] and not lost["bar"] and not lost["Msun"]
    notes["texOnlyKept"] = not lost["ly"]
    notes["oneFieldRowsLost"] = {k: v for k, v in lost.items() if v}
    if unit_route:
        # nothing but the unit travels: the numbers are the caller's own
        out["keepsValues"] = out["keepsDtype"] = out["keepsClass"] = True
    return out, notes


FLAG_ORDER = ["keepsValues", "keepsDtype", "keepsClass", "unitSame", "unitByDisplayStr", "unitDataCarried",
              "unitCanonOnCanon", "unitCanonOnNon", "regSame", "keepsAdded", "keepsModifiedDefault", "keepsRemoved",
              "userRowCanonOnCanon", "userRowCanonOnNon", "dfltRowCanonOnCanon", "dfltRowCanonOnNon", "keepsUnitSystem",
              "keepsFlagOnlyDefault"]


# ---------------------------------------------------------------------------------------
# observation helpers shared by the harness and by the replay snippets (this whole file is
# embedded in every replay, so a replay runs exactly what the harness ran)


_BASELINE = {}


def reset_default_registry():
    """put the default registry's string cache, table and derived-symbol set back to what they were
    when this module was first used (right after `import unyt`): a case must not depend on which
    cases ran before it in the same process"""
    from unyt.unit_registry import default_unit_registry as reg

    if not _BASELINE:
        _BASELINE["cache"] = dict(reg._unit_object_cache)
        _BASELINE["lut"] = dict(reg.lut)
        _BASELINE["derived"] = set(getattr(reg, "_derived_symbols", None) or ())
        return
    reg._unit_object_cache.clear()
    reg._unit_object_cache.update(_BASELINE["cache"])
    for k in [k for k in reg.lut if k not in _BASELINE["lut"]]:
        del reg.lut[k]
    reg.lut.update(_BASELINE["lut"])
    if getattr(reg, "_derived_symbols", None) is not None:
        reg._derived_symbols.clear()
        reg._derived_symbols.update(_BASELINE["derived"])
    reg._unit_system_id = None


def clear_caches():
    """empty the process-wide lru caches of unyt (unit rules, EM check): a 'cold' start"""
    import unyt.array as ua
    import unyt.unit_object as uo

    for mod in (ua, uo):
        for v in vars(mod).values():
            if callable(getattr(v, "cache_clear", None)):
                v.cache_clear()


def unit_descr(u):
    return (str(u.expr), float(u.base_value), float(u.base_offset), str(u.dimensions))


def outcome(f):
    """value / unit / exception class of a follow-up"""
    from unyt import Unit

    try:
        r = f()
    except Exception as e:  # noqa: BLE001
        return ("exc", type(e).__name__)
    if isinstance(r, Unit):
        return ("unit", unit_descr(r))
    if hasattr(r, "units") and hasattr(r, "d"):
        return ("q", np.asarray(r.d).tolist(), unit_descr(r.units), type(r).__name__)
    if isinstance(r, np.ndarray) or np.isscalar(r):
        return ("v", np.asarray(r).tolist())
    return ("o", repr(r))


def _close(a, b, rtol=1e-12):
    if isinstance(a, (list, tuple)) and isinstance(b, (list, tuple)):
        return len(a) == len(b) and all(_close(p, q, rtol) for p, q in zip(a, b))
    if isinstance(a, complex) or isinstance(b, complex):
        return abs(a - b) <= rtol * max(abs(a), abs(b))
    if isinstance(a, float) or isinstance(b, float):
        if isinstance(a, (str, bool)) or isinstance(b, (str, bool)):
            return a == b
        if a != a and b != b:
            return True
        if a == b:
            return True
        return abs(a - b) <= rtol * max(abs(a), abs(b))
    return a == b


def same_outcome(a, b):
    return _close(a, b)


def lut_entry(v):
    """(base_value, dimensions, offset, prefixable) — the dimensions as the sympy object (compared
    with sympy's structural `==`; printing 150 expressions per table is what would cost)"""
    return (float(v[0]), v[1], float(v[2]), bool(v[4]))


def same_entry(a, b):
    return a is b or (float(a[0]) == float(b[0]) and float(a[2]) == float(b[2]) and bool(a[4]) == bool(b[4])
                      and (a[1] is b[1] or a[1] == b[1]))


_B3NAMES = ("(angle)", "(temperature)", "(logarithmic)")


def base3_row(v):
    """the row's dimension is exactly one of the three symbols the code tests with `is`"""
    d = v[1]
    return getattr(d, "is_Symbol", False) and d.name in _B3NAMES


def base3_row_lost(v):
    return base3_row(v) and not any(v[1] is s for s in base_symbols().values())


def is_derived(k, lut):
    """k is a written-back SI-prefixed entry (prefix + a prefixable symbol of the same table)"""
    from unyt._unit_lookup_table import default_unit_symbol_lut, unit_prefixes

    if k in default_unit_symbol_lut:
        return False
    for p in ("da",) if k.startswith("da") else (k[:1],):
        rest = k[len(p):]
        if p in unit_prefixes and rest in lut and lut[rest][4]:
            return True
    return False


def contents(reg):
    """symbol -> entry, written-back prefixed entries left out"""
    lut = reg.lut
    from unyt._unit_lookup_table import default_unit_symbol_lut as dflt

    return {k: (dflt[k] if dflt.get(k) is v else v) for k, v in lut.items() if k in dflt or not is_derived(k, lut)}


def canon_all(d):
    """a dimension that is a bare base symbol IS the library's singleton.  (Compound dimension
    objects are not looked at: sympy's own expression cache hands back whichever equal object was
    built first in the process, so their identity is history-dependent even without persistence.)"""
    import sympy
    import unyt.dimensions as D

    if isinstance(d, sympy.Symbol):
        return any(d is b for b in D.base_dimensions)
    return True


def state_diff(q, r):
    """the components of the persisted state in which the restored object `r` differs from the
    original `q` (the direct oracle of the first half of the property)"""
    from unyt._unit_lookup_table import default_unit_symbol_lut as dflt

    out = []
    qa, ra = np.asarray(q.d), np.asarray(r.d)
    if qa.size != ra.size or not np.array_equal(qa.ravel(), ra.ravel(), equal_nan=True):
        out.append("values")
    if not (r.units == q.units) or unit_descr(r.units)[1:] != unit_descr(q.units)[1:] or r.units.expr != q.units.expr:
        out.append("units")
    if canon_all(q.units.dimensions) and not canon_all(r.units.dimensions):
        out.append("identity")
    R, Q = r.units.registry, q.units.registry
    if R is not Q:
        cr, cq = contents(R), contents(Q)
        for k in sorted(set(cq) | set(cr)):
            if k in cq and k in cr and same_entry(cq[k], cr[k]):
                continue
            if k not in cr:
                out.append("added-lost" if k not in dflt else "default-lost")
            elif k not in cq:
                out.append("removed-default-back" if k in dflt else "spurious-row")
            else:
                out.append("modified-default-reset" if k in dflt and same_entry(cr[k], dflt[k]) else "row-changed")
        dq, dr = getattr(Q, "_derived_symbols", None), getattr(R, "_derived_symbols", None)
        if dq is not None and dr is not None:
            # rows the original registry knows to be written-back prefixed entries (it forgets them on
            # the next edit) that the restored registry holds as ordinary rows
            if any(k in R.lut and k not in dr for k in dq):
                out.append("derived-marks-lost")
        for k, v in Q.lut.items():
            if k in R.lut and canon_all(v[1]) and not canon_all(R.lut[k][1]):
                out.append("identity")
                break
        if getattr(R.unit_system, "name", None) != getattr(Q.unit_system, "name", None):
            out.append("unit-system")
    seen = []
    for o in out:
        if o not in seen:
            seen.append(o)
    return seen


# ---------------------------------------------------------------------------------------
# registry CONTENTS, field by field: registries whose rows differ from the default table in ONE
# field, sent through every route (also routes on which only a registry travels), and the direct
# oracle "the restored registry's observable contents equal the original's"


# routes on which a registry (or a Unit with its registry) travels without any array; the object
# handed back is the caller's numbers with the unit rebuilt by its expression in the restored registry
REGISTRY_ROUTES = ["pickleRegistry", "copyRegistry", "deepcopyRegistry", "unitCopyDeep"]
CONTENT_ROUTES = ROUTES + REGISTRY_ROUTES
PICKLE_ROUTES = ("pickleArray", "pickleUnit", "pickleRegistry")


def restore_contents(route, q, protocol=None):
    """`restore` extended by the registry-only routes"""
    from unyt import Unit

    if route in ROUTES:
        return restore(route, q, protocol)
    reg = q.units.registry
    if route == "pickleRegistry":
        reg2 = pickle.loads(pickle.dumps(reg, protocol=protocol if protocol is not None else pickle.DEFAULT_PROTOCOL))
    elif route == "copyRegistry":
        reg2 = copy.copy(reg)
    elif route == "deepcopyRegistry":
        reg2 = copy.deepcopy(reg)
    elif route == "unitCopyDeep":
        return rewrap(q, q.units.copy(deep=True))
    else:
        raise ValueError(route)
    return rewrap(q, Unit(str(q.units.expr), registry=reg2))


ROW_FIELDS = ("value", "dimensions", "offset", "tex", "prefixable")


def redeclare(reg, sym, field, tex="auto"):
    """re-declare the DEFAULT symbol `sym` through `reg.add` with exactly the default table's data
    except for ONE field: 'value' | 'dimensions' | 'offset' | 'prefixable' (flag flipped) | 'tex';
    field 'none' re-declares it unchanged.  tex='auto': `tex_repr` is passed only when add()'s own
    guess would not give the wanted text; tex='explicit': always passed"""
    import unyt.dimensions as D
    from unyt._unit_lookup_table import default_unit_symbol_lut as dflt

    v, dims, off, t, pfx = dflt[sym]
    v, off, pfx = float(v), float(off), bool(pfx)
    if field == "value":
        v = v * 1.5
    elif field == "dimensions":
        dims = dims * D.luminous_intensity
    elif field == "offset":
        off = off + 10.0
    elif field == "prefixable":
        pfx = not pfx
    elif field == "tex":
        t = r"\rm{x" + sym + "}"
    elif field != "none":
        raise ValueError(field)
    guess = r"\rm{" + sym.replace("_", r"\ ") + "}"
    reg.add(sym, v, dims, tex_repr=(t if (tex == "explicit" or t != guess) else None), offset=(off if off != 0.0 else None),
            prefixable=pfx)


def row_diff(a, b):
    """the fields in which two table rows differ"""
    out = []
    if float(a[0]) != float(b[0]):
        out.append("value")
    if not (a[1] is b[1] or a[1] == b[1]):
        out.append("dimensions")
    if float(a[2]) != float(b[2]):
        out.append("offset")
    if a[3] != b[3]:
        out.append("tex")
    if len(a) != len(b) or (len(a) > 4 and bool(a[4]) != bool(b[4])):
        out.append("prefixable")
    return out


def symbol_class(sym):
    """'user' for a symbol that is not in the default table; else whether the default tex is what
    `UnitRegistry.add` guesses when no tex_repr is given"""
    from unyt._unit_lookup_table import default_unit_symbol_lut as dflt

    if sym not in dflt:
        return "user"
    return "tex-guess" if dflt[sym][3] == r"\rm{" + sym.replace("_", r"\ ") + "}" else "tex-other"


def prefixed_behaviour(R, sym):
    """what registry `R` answers for the SI-prefixed spellings of `sym`: known or unknown, what
    2 <sym> converts to in them (value + unit, or the refusal), and 2 <sym> in mks"""
    from unyt import unyt_quantity

    out = []
    for p in ("k", "m"):
        name = p + sym
        out.append((name, "known", outcome(lambda n=name: n in R)))
        out.append((name, "to", outcome(lambda n=name: unyt_quantity(2.0, sym, registry=R).to(n))))
    out.append((sym, "mks", outcome(lambda: unyt_quantity(2.0, sym, registry=R).in_mks())))
    return out


def watched_symbols(Q, R, extra=()):
    """every symbol whose row differs from the default table (in any of the five fields) in the
    original or in the restored registry, user symbols, and default symbols missing from either"""
    from unyt._unit_lookup_table import default_unit_symbol_lut as dflt

    cq, cr = contents(Q), contents(R)
    watch = set(extra)
    for k in set(cq) | set(cr) | set(dflt):
        d = dflt.get(k)
        a, b = cq.get(k), cr.get(k)
        if d is None or a is None or b is None or (a is not d and row_diff(a, d)) or (b is not d and row_diff(b, d)):
            watch.add(k)
    return sorted(watch), cq, cr


def contents_check(q, r, extra=()):
    """DIRECT ORACLE (never consults the model): the restored object's registry has the same
    observable contents as the original's.  -> [(symbol, observed, detail)], observed one of
      row:value | row:dimensions | row:offset | row:tex | row:prefixable | row:missing | row:spurious
          (table rows, for every symbol that differs from the default table on either side)
      prefixed:known | prefixed:to | prefixed:mks
          (the SI-prefixed spellings k<sym>, m<sym> are known/unknown alike, 2 <sym> converts to them
           and to mks alike: same value and unit, or the same refusal)
      own:to   (the restored OBJECT converts to the prefixed spellings of its own unit as the original does)"""
    Q, R = q.units.registry, r.units.registry
    obs = []
    watch, cq, cr = watched_symbols(Q, R, extra)
    for k in watch:
        a, b = cq.get(k), cr.get(k)
        if a is None and b is None:
            continue
        if a is None:
            obs.append((k, "row:spurious", f"absent -> {b!r}"))
        elif b is None:
            obs.append((k, "row:missing", f"{a!r} -> absent"))
        elif a is not b:
            for f in row_diff(a, b):
                obs.append((k, "row:" + f, f"{a!r} -> {b!r}"))
    if R is not Q:
        clear_caches()
        bq = {k: prefixed_behaviour(Q, k) for k in watch}
        br = {k: prefixed_behaviour(R, k) for k in watch}
        for k in watch:
            for (name, what, o1), (_n, _w, o2) in zip(bq[k], br[k]):
                if not same_outcome(o1, o2):
                    obs.append((k, "prefixed:" + what, f"{name}: original {o1!r}, restored {o2!r}"))
    if r.units is not q.units:
        names = [str(s) for s in q.units.expr.free_symbols]
        if len(names) == 1 and q.units.expr.is_Symbol:
            for p in ("k", "m"):
                o1 = outcome(lambda: q.to(p + names[0]))
                o2 = outcome(lambda: r.to(p + names[0]))
                if not same_outcome(o1, o2):
                    obs.append((names[0], "own:to", f"x.to({p + names[0]!r}): original {o1!r}, restored {o2!r}"))
    return obs


# ---------------------------------------------------------------------------------------
# attribution of a behavioural difference to a difference of the persisted state, by repairing
# ONE component of the restored object at a time and running the follow-up again


def intern_dims(d):
    """the same dimension expression built from the library's singleton symbols"""
    import unyt.dimensions as D

    if not hasattr(d, "free_symbols"):
        return d
    m = {}
    for s in d.free_symbols:
        for b in D.base_dimensions:
            if b == s and b is not s:
                m[s] = b
    if not m:
        return d
    if d in m:
        return m[d]
    return d.xreplace(m)


REPAIRS = ["cache-seeded", "identity", "units", "derived-marks-lost", "modified-default-reset", "row-changed",
           "removed-default-back", "added-lost", "default-lost", "spurious-row", "unit-system"]


def repair(r, q, causes):
    """a copy of the restored object `r` in which the listed components are put back to what the
    original `q` has; the registry is always rebuilt (empty string cache)"""
    from unyt import Unit
    from unyt.unit_registry import UnitRegistry

    R, Q = r.units.registry, q.units.registry
    lut = dict(R.lut)
    allc = "all" in causes
    if allc or "identity" in causes:
        lut = {k: (v[0], intern_dims(v[1])) + tuple(v[2:]) for k, v in lut.items()}
    cq, cr = contents(Q), contents(R)
    for k in set(cq) | set(cr):
        if k in cq and k in cr and same_entry(cq[k], cr[k]):
            continue
        if k not in cr:
            if allc or "added-lost" in causes or "default-lost" in causes:
                lut[k] = Q.lut[k]
        elif k not in cq:
            if allc or "removed-default-back" in causes or "spurious-row" in causes:
                lut.pop(k, None)
        elif allc or "modified-default-reset" in causes or "row-changed" in causes:
            lut[k] = Q.lut[k]
            for kk in [x for x in lut if x != k and is_derived(x, lut) and x.endswith(k)]:
                lut.pop(kk, None)
    us = getattr(Q.unit_system if (allc or "unit-system" in causes) else R.unit_system, "name", "mks")
    reg = UnitRegistry(lut=lut, add_default_symbols=False, unit_system=us)
    if hasattr(reg, "_derived_symbols"):
        marks = getattr(Q if (allc or "derived-marks-lost" in causes) else R, "_derived_symbols", None) or ()
        reg._derived_symbols = {k for k in marks if k in lut}
    u = r.units
    dims = intern_dims(u.dimensions) if (allc or "identity" in causes) else u.dimensions
    src = q.units if (allc or "units" in causes) else u
    nu = Unit(u.expr, base_value=src.base_value, base_offset=src.base_offset, dimensions=dims if src is u else intern_dims(src.dimensions) if allc else src.dimensions,
              registry=reg)
    return type(r)(np.array(r.d, copy=True), nu)


def attribute(build, opsrc, order, env):
    """`build()` -> (q, r) fresh original and restored objects.  None when the follow-up `opsrc`
    gives the same outcome on both; else the single component of the state whose repair makes the
    outcomes agree, 'several' when only repairing all of them does, 'unexplained' when even that
    does not"""

    def run(fix):
        q, r = build()
        if fix is not None:
            r = repair(r, q, fix)
        clear_caches()

        def op(x):
            e = dict(env)
            e["x"] = x
            e["R"] = x.units.registry
            return outcome(lambda: eval(opsrc, e))  # noqa: S307

        if order == "orig-first":
            a = op(q)
            b = op(r)
        else:
            b = op(r)
            a = op(q)
        return a, b, q, r

    a, b, q, r = run(None)
    if same_outcome(a, b):
        return None
    diffs = state_diff(q, r)
    for c in ["cache-seeded"] + [d for d in REPAIRS if d in diffs]:
        a, b, _q, _r = run({c})
        if same_outcome(a, b):
            return c
    a, b, _q, _r = run({"all"})
    return "several" if same_outcome(a, b) else "unexplained"


def attribute_history(build, opsrc, env):
    """the ORIGINAL's outcome alone vs after the same call on the restored object: None when equal,
    else the component whose repair (on the restored object) makes the original unaffected"""

    def op(x):
        e = dict(env)
        e["x"] = x
        e["R"] = x.units.registry
        return outcome(lambda: eval(opsrc, e))  # noqa: S307

    q, r = build()
    clear_caches()
    alone = op(q)

    def after(fix):
        q, r = build()
        if fix is not None:
            r = repair(r, q, fix)
        clear_caches()
        op(r)
        return op(q), q, r

    o, q, r = after(None)
    if same_outcome(alone, o):
        return None
    diffs = state_diff(q, r)
    for c in ["cache-seeded"] + [d for d in REPAIRS if d in diffs]:
        o, _q, _r = after({c})
        if same_outcome(alone, o):
            return c
    o, _q, _r = after({"all"})
    return "several" if same_outcome(alone, o) else "unexplained"


def attribute_battery(build, opsrcs, i, order, env):
    """like `attribute`, for a difference of operation `i` that only shows after the other operations
    of the battery ran (caches seeded by earlier operations): the whole battery is re-run, in the same
    order, with one component of the restored object repaired at a time"""

    def run(fix):
        q, r = build()
        if fix is not None:
            r = repair(r, q, fix)
        clear_caches()

        def bat(x):
            e = dict(env)
            e["x"] = x
            e["R"] = x.units.registry
            return [outcome(lambda s=s: eval(s, e)) for s in opsrcs]  # noqa: S307

        if order == "orig-first":
            a = bat(q)
            b = bat(r)
        else:
            b = bat(r)
            a = bat(q)
        return a[i], b[i], q, r

    a, b, q, r = run(None)
    if same_outcome(a, b):
        return None
    diffs = state_diff(q, r)
    for c in ["cache-seeded"] + [d for d in REPAIRS if d in diffs]:
        a, b, _q, _r = run({c})
        if same_outcome(a, b):
            return c
    a, b, _q, _r = run({"all"})
    return "several" if same_outcome(a, b) else "unexplained"
