"""C11 — the persistence routes of unyt as Python callables, and the single-route probes the
translator plugin (tools/extract.d/c11_routes.py) turns into `Generated/PersistRoutes.lean`.

No dependency on the harness core: imported by the plugin and by harness/c11.py.
Everything here runs on the LIVE library (whatever `import unyt` resolves to).
"""
import copy
import os
import pickle
import shutil
import tempfile

import numpy as np

ROUTES = ["pickleArray", "pickleUnit", "arrayCopy", "copyCopy", "deepcopyArray", "unitCopy",
          "deepcopyUnit", "saveLoadTxt", "unitOfStr", "registryJson"]

# routes whose persisted object is a Unit (the numbers do not travel at all)
UNIT_ROUTES = {"pickleUnit", "unitCopy", "deepcopyUnit", "unitOfStr", "registryJson"}


def rewrap(q, u):
    """the numbers of `q` (untouched) with the restored unit `u` attached"""
    from unyt import unyt_array, unyt_quantity

    cls = unyt_quantity if np.ndim(q) == 0 else unyt_array
    return cls(np.array(q.d, copy=True), u)


def restore(route, q, protocol=None):
    """persist `q` (a unyt_array / unyt_quantity) on `route` and load it back"""
    import unyt
    from unyt import Unit
    from unyt.unit_registry import UnitRegistry

    if route == "pickleArray":
        return pickle.loads(pickle.dumps(q, protocol=protocol if protocol is not None else pickle.DEFAULT_PROTOCOL))
    if route == "pickleUnit":
        return rewrap(q, pickle.loads(pickle.dumps(q.units, protocol=protocol if protocol is not None else pickle.DEFAULT_PROTOCOL)))
    if route == "arrayCopy":
        return q.copy()
    if route == "copyCopy":
        return copy.copy(q)
    if route == "deepcopyArray":
        return copy.deepcopy(q)
    if route == "unitCopy":
        return rewrap(q, q.units.copy())
    if route == "deepcopyUnit":
        return rewrap(q, copy.deepcopy(q.units))
    if route == "saveLoadTxt":
        d = tempfile.mkdtemp(prefix="c11_")
        try:
            fn = os.path.join(d, "a.txt")
            unyt.savetxt(fn, [np.atleast_1d(q)])
            return unyt.loadtxt(fn)
        finally:
            shutil.rmtree(d, ignore_errors=True)
    if route == "unitOfStr":
        return rewrap(q, Unit(str(q.units), registry=q.units.registry))
    if route == "registryJson":
        reg = UnitRegistry.from_json(q.units.registry.to_json())
        return rewrap(q, Unit(str(q.units.expr), registry=reg))
    raise ValueError(route)


def cold_unit(name, reg=None):
    """a Unit for `name` that is NOT in its registry's string cache (built from the sympy
    expression, as `Unit.__mul__` etc. build their results), so that routes which look the
    string up in a shared `_unit_object_cache` are probed on their miss path"""
    import sympy
    from unyt import Unit
    from unyt.unit_registry import UnitRegistry

    if reg is None:
        reg = UnitRegistry()
    try:
        expr = Unit(name).expr
    except Exception:  # noqa: BLE001 - a symbol only `reg` knows
        expr = sympy.Symbol(name, positive=True)
    return Unit(expr, registry=reg)


def base_symbols():
    import unyt.dimensions as D

    return {"angle": D.angle, "temperature": D.temperature, "logarithmic": D.logarithmic}


def dim_identity(u):
    """'canon' when `u.dimensions` IS one of the three singleton symbols the code tests with
    `is`, 'lost' when it is EQUAL to one of them but a different object, None otherwise"""
    for _n, s in base_symbols().items():
        if u.dimensions is s:
            return "canon"
        if u.dimensions == s:
            return "lost"
    return None


def noncanon(sym):
    """an equal-but-not-identical copy of a dimension symbol (what pickle/deepcopy produce)"""
    c = copy.copy(sym)
    if c is sym:  # pragma: no cover - sympy hands the same object back
        c = pickle.loads(pickle.dumps(sym))
    return c


# ---------------------------------------------------------------------------------------
# single-route probes (translator)


def _outcome(f):
    try:
        return ("ok", f())
    except Exception as e:  # noqa: BLE001
        return ("exc", type(e).__name__)


def probe_route(route):
    """the flags of `RouteCfg` for one route, each from ONE persist+load of a purpose-built object"""
    import unyt.dimensions as D
    from unyt import Unit, unyt_array, unyt_quantity
    from unyt.unit_registry import UnitRegistry

    out = {}
    notes = {}
    unit_route = route in UNIT_ROUTES

    # --- numbers, dtype, class -----------------------------------------------------------------
    x = unyt_array(np.array([1.5, -2.25e-7, 3.0000000000000004e30, 0.1]), cold_unit("km"))
    r = restore(route, x)
    out["keepsValues"] = bool(np.asarray(r.d).shape == x.d.shape and np.array_equal(np.asarray(r.d), x.d))
    xi = unyt_array(np.array([1, -2, 3], dtype="int32"), cold_unit("km"))
    xf = unyt_array(np.array([1.5, 2.5], dtype="float32"), cold_unit("km"))
    ri, rf = restore(route, xi), restore(route, xf)
    out["keepsDtype"] = bool(ri.dtype == xi.dtype and rf.dtype == xf.dtype and np.array_equal(ri.d, xi.d) and np.array_equal(rf.d, xf.d))
    xq = unyt_quantity(2.5, cold_unit("km"))
    rq = restore(route, xq)
    out["keepsClass"] = type(rq) is type(xq) and type(r) is type(x)
    # --- the unit: same object? by which string? data carried or recomputed? ---------------------
    out["unitSame"] = r.units is x.units
    dq = unyt_quantity(2.0, cold_unit("delta_degC"))
    o = _outcome(lambda: restore(route, dq))
    if o[0] == "ok":
        out["unitByDisplayStr"] = False
        notes["delta_degC"] = str(o[1].units)
    elif o[1] == "UnitParseError":
        out["unitByDisplayStr"] = True
    else:
        raise RuntimeError(f"{route}: delta_degC probe raised {o[1]}")
    reg = UnitRegistry()
    reg.add("vfoo", 3.0, D.length)
    sq = unyt_quantity(2.0, cold_unit("vfoo", reg))
    assert sq.units.base_value == 3.0 and "vfoo" not in reg._unit_object_cache
    reg.modify("vfoo", 5.0)
    o = _outcome(lambda: restore(route, sq).units.base_value)
    # carried: the (stale) value 3.0 the object holds; recomputed: 5.0 from the table (or refused,
    # when the route does not carry the registry at all)
    out["unitDataCarried"] = o == ("ok", 3.0)
    notes["stale"] = o
    # --- identity of the unit's own dimension object ---------------------------------------------
    cq = unyt_quantity(90.0, cold_unit("degree"))
    assert dim_identity(cq.units) == "canon"
    out["unitCanonOnCanon"] = dim_identity(restore(route, cq).units) == "canon"
    reg = UnitRegistry()
    nu = Unit(Unit("degree").expr, base_value=Unit("degree").base_value, base_offset=0.0, dimensions=noncanon(D.angle), registry=reg)
    assert dim_identity(nu) == "lost"
    nq = unyt_quantity(90.0, nu)
    assert dim_identity(nq.units) == "lost"
    out["unitCanonOnNon"] = dim_identity(restore(route, nq).units) == "canon"
    # --- the registry ----------------------------------------------------------------------------
    def custom(unit_system=None):
        reg = UnitRegistry(unit_system=unit_system) if unit_system else UnitRegistry()
        reg.add("vfoo", 3.0, D.angle, prefixable=True)
        reg.add("vbar", 7.0, noncanon(D.angle))
        reg.modify("g", 2.0)
        reg.remove("lb")
        v = reg.lut["degree"]
        reg.lut["arcsec"] = (reg.lut["arcsec"][0], noncanon(D.angle)) + tuple(reg.lut["arcsec"][2:])
        assert v[1] is D.angle
        return reg

    reg = custom()
    rq = restore(route, unyt_quantity(2.0, cold_unit("km", reg)))
    L = rq.units.registry.lut
    out["regSame"] = L is reg.lut
    out["keepsAdded"] = "vfoo" in L and L["vfoo"][0] == 3.0 and bool(L["vfoo"][4]) and "vbar" in L
    out["keepsModifiedDefault"] = L["g"][0] == 2.0
    out["keepsRemoved"] = "lb" not in L
    if out["keepsAdded"]:
        out["userRowCanonOnCanon"] = L["vfoo"][1] is D.angle
        out["userRowCanonOnNon"] = L["vbar"][1] is D.angle
    else:
        # user rows do not travel at all: nothing to observe (reported as "keep", never read)
        out["userRowCanonOnCanon"], out["userRowCanonOnNon"] = True, False
    out["dfltRowCanonOnCanon"] = L["degree"][1] is D.angle
    out["dfltRowCanonOnNon"] = L["arcsec"][1] is D.angle
    reg = custom("cgs")
    rq = restore(route, unyt_quantity(2.0, cold_unit("km", reg)))
    us = rq.units.registry.unit_system
    out["keepsUnitSystem"] = getattr(us, "name", str(us)) == "cgs"
    if unit_route:
        # nothing but the unit travels: the numbers are the caller's own
        out["keepsValues"] = out["keepsDtype"] = out["keepsClass"] = True
    return out, notes


FLAG_ORDER = ["keepsValues", "keepsDtype", "keepsClass", "unitSame", "unitByDisplayStr", "unitDataCarried",
              "unitCanonOnCanon", "unitCanonOnNon", "regSame", "keepsAdded", "keepsModifiedDefault", "keepsRemoved",
              "userRowCanonOnCanon", "userRowCanonOnNon", "dfltRowCanonOnCanon", "dfltRowCanonOnNon", "keepsUnitSystem"]
