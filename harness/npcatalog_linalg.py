"""npcatalog templates, part 3: numpy.linalg and numpy.fft."""
import numpy as np

import npcatalog_funcs2  # noqa: F401  (part 2 of the numpy namespace is registered on import)
from npcatalog import K, T

SQ = ("sq",)
D2 = ("2d", "sq")
ND = ("1d", "2d", "sq")


def L(f):
    return "numpy.linalg." + f


def F(f):
    return "numpy.fft." + f


def stack3(c, g=0):
    return c.A((2, c.k, c.k), g=g)


for f in ["det", "inv", "eig", "eigvals", "slogdet"]:
    T(L(f), "pos", lambda c: K(c.A()), shapes=SQ)
    T(L(f), "stack", lambda c: K(stack3(c)), shapes=SQ)
    T(L(f), "1x1", lambda c: K(c.A((1, 1))), shapes=SQ)
for f in ["eigh", "eigvalsh"]:
    T(L(f), "pos", lambda c: K(c.SPD()), shapes=SQ)
    T(L(f), "uplo", lambda c: K(c.SPD(), UPLO="U"), shapes=SQ)
    T(L(f), "uplopos", lambda c: K(c.SPD(), "U"), shapes=SQ)
T(L("cholesky"), "pos", lambda c: K(c.SPD()), shapes=SQ)
T(L("cholesky"), "upper", lambda c: K(c.SPD(), upper=True), shapes=SQ)
T(L("cond"), "pos", lambda c: K(c.A()), shapes=D2)
T(L("cond"), "p", lambda c: K(c.A(), p=1), shapes=SQ)
T(L("cond"), "fro", lambda c: K(c.A(), "fro"), shapes=SQ)
T(L("pinv"), "pos", lambda c: K(c.A()), shapes=D2)
T(L("pinv"), "rcond", lambda c: K(c.A(), rcond=0.3), shapes=D2)
T(L("pinv"), "rtol", lambda c: K(c.A(), rtol=0.3), shapes=D2)
T(L("pinv"), "hermitian", lambda c: K(c.SPD(), hermitian=True), shapes=SQ)
T(L("pinv"), "rcondpos", lambda c: K(c.A(), 0.5), shapes=D2)
T(L("tensorinv"), "pos", lambda c: K(c.A((2, 3, 6))), shapes=("2d",))
T(L("tensorinv"), "ind", lambda c: K(c.A((6, 2, 3)), ind=1), shapes=("2d",))
T(L("tensorinv"), "indpos", lambda c: K(c.A((6, 2, 3)), 1), shapes=("2d",))
T(L("tensorsolve"), "pos", lambda c: K(c.A((2, 3, 6)), c.A((2, 3), g=1)), shapes=("2d",))
T(L("tensorsolve"), "axes", lambda c: K(c.A((2, 6, 3)), c.A((2, 3), g=1), axes=(1,)), shapes=("2d",))
T(L("solve"), "pos", lambda c: K(c.A(), c.A((c.k,), g=1)), shapes=SQ)
T(L("solve"), "mat", lambda c: K(c.A(), c.A((c.k, 2), g=1)), shapes=SQ)
T(L("lstsq"), "pos", lambda c: K(c.A(), c.A((c.shp[0],), g=1)), shapes=D2)
T(L("lstsq"), "rcond", lambda c: K(c.A(), c.A((c.shp[0], 2), g=1), rcond=0.2), shapes=D2)
T(L("lstsq"), "rcondpos", lambda c: K(c.A(), c.A((c.shp[0],), g=1), 0.3), shapes=D2)
T(L("svd"), "pos", lambda c: K(c.A()), shapes=D2)
T(L("svd"), "kw", lambda c: K(c.A(), full_matrices=False), shapes=D2)
T(L("svd"), "nouv", lambda c: K(c.A(), compute_uv=False), shapes=D2)
T(L("svd"), "allpos", lambda c: K(c.A(), False, True), shapes=D2)
T(L("svd"), "hermitian", lambda c: K(c.SPD(), hermitian=True), shapes=SQ)
T(L("svd"), "hermpos", lambda c: K(c.SPD(), True, False, True), shapes=SQ)
T(L("svdvals"), "pos", lambda c: K(c.A()), shapes=D2)
T(L("qr"), "pos", lambda c: K(c.A()), shapes=D2)
T(L("qr"), "mode", lambda c: K(c.A(), mode="complete"), shapes=D2)
T(L("qr"), "r", lambda c: K(c.A(), "r"), shapes=D2)
T(L("norm"), "pos", lambda c: K(c.A()))
T(L("norm"), "ord", lambda c: K(c.A(), ord=1), shapes=ND)
T(L("norm"), "ordpos", lambda c: K(c.A(), np.inf), shapes=ND)
T(L("norm"), "axis", lambda c: K(c.A(), axis=c.ax0(), keepdims=True), shapes=ND)
T(L("norm"), "nuc", lambda c: K(c.A(), "nuc", (0, 1)), shapes=D2)
T(L("norm"), "ord3", lambda c: K(c.A(), ord=3, axis=-1), shapes=ND)
T(L("matrix_norm"), "pos", lambda c: K(c.A()), shapes=D2)
T(L("matrix_norm"), "kw", lambda c: K(c.A(), keepdims=True, ord=1), shapes=D2)
T(L("vector_norm"), "pos", lambda c: K(c.A()))
T(L("vector_norm"), "kw", lambda c: K(c.A(), axis=c.ax0(), keepdims=True, ord=1), shapes=ND)
T(L("matrix_rank"), "pos", lambda c: K(c.A()), shapes=ND)
T(L("matrix_rank"), "tol", lambda c: K(c.A(), tol=2.0), shapes=D2)
T(L("matrix_rank"), "rtol", lambda c: K(c.SPD(), hermitian=True, rtol=0.2), shapes=SQ)
T(L("matrix_power"), "pos", lambda c: K(c.A(), 3), shapes=SQ)
T(L("matrix_power"), "neg", lambda c: K(c.A(), n=-2), shapes=SQ, dtypes="fc")
T(L("matrix_power"), "zero", lambda c: K(c.A(), 0), shapes=SQ)
T(L("multi_dot"), "pos", lambda c: K([c.A((3, 4)), c.A((4, 2), g=1), c.A((2, 5), g=2)]), shapes=("2d",))
T(L("multi_dot"), "two", lambda c: K([c.A((3, 4)), c.A((4,), g=1)]), shapes=("2d",))
T(L("multi_dot"), "out", lambda c: K([c.A((3, 4)), c.A((4, 2), g=1), c.A((2, 5), g=2)], out=c.O(c.data((3, 5)))), shapes=("2d",), out_form=True)
T(L("matmul"), "pos", lambda c: K(c.A(), c.A((c.shp[1], 2), g=1)), shapes=D2)
T(L("matmul"), "vec", lambda c: K(c.A(), c.A((c.shp[-1],), g=1)), shapes=ND)
T(L("outer"), "pos", lambda c: K(c.A((c.n,)), c.A((c.m,), g=1)), shapes=("1d",))
T(L("cross"), "pos", lambda c: K(c.A((3,)), c.A((3,), g=1)), shapes=("1d",))
T(L("cross"), "axis", lambda c: K(c.A((3, c.n)), c.A((3, c.n), g=1), axis=0), shapes=("2d",))
T(L("tensordot"), "pos", lambda c: K(c.A((3, 4)), c.A((3, 4), g=1)), shapes=("2d",))
T(L("tensordot"), "axes", lambda c: K(c.A((3, 4)), c.A((4, 2), g=1), axes=1), shapes=("2d",))
T(L("vecdot"), "pos", lambda c: K(c.A(), c.A(g=1)), shapes=ND)
T(L("vecdot"), "axis", lambda c: K(c.A(), c.A(g=1), axis=0), shapes=ND)
T(L("diagonal"), "pos", lambda c: K(c.A()), shapes=D2)
T(L("diagonal"), "offset", lambda c: K(c.A(), offset=1), shapes=D2)
T(L("trace"), "pos", lambda c: K(c.A()), shapes=D2)
T(L("trace"), "kw", lambda c: K(c.A(), offset=-1, dtype=np.complex128), shapes=D2)
T(L("matrix_transpose"), "pos", lambda c: K(c.A()), shapes=D2)
T("numpy.matrix_transpose", "stack", lambda c: K(stack3(c)), shapes=SQ)

# ------------------------------------------------------------------ fft
for f in ["fft", "ifft", "rfft", "irfft", "hfft", "ihfft"]:
    real_in = f in ("rfft", "ihfft")
    dts = "fi" if real_in else "fic"
    T(F(f), "pos", lambda c: K(c.A()), shapes=ND, dtypes=dts, auto_out=True)
    T(F(f), "n", lambda c: K(c.A(), n=6), shapes=ND, dtypes=dts, auto_out=True)
    T(F(f), "npos", lambda c: K(c.A(), 3, 0), shapes=ND, dtypes=dts)
    T(F(f), "axis", lambda c: K(c.A(), axis=0), shapes=ND, dtypes=dts, auto_out=True)
    T(F(f), "norm", lambda c: K(c.A(), norm="ortho"), shapes=ND, dtypes=dts)
    T(F(f), "forward", lambda c: K(c.A(), None, -1, "forward"), shapes=ND, dtypes=dts)
for f in ["fft2", "ifft2", "rfft2", "irfft2", "fftn", "ifftn", "rfftn", "irfftn"]:
    real_in = f in ("rfft2", "rfftn")
    dts = "fi" if real_in else "fic"
    T(F(f), "pos", lambda c: K(c.A()), shapes=D2, dtypes=dts, auto_out=True)
    T(F(f), "s", lambda c: K(c.A(), s=(4, 6), axes=(0, 1)), shapes=D2, dtypes=dts, auto_out=True)
    T(F(f), "axes", lambda c: K(c.A(), axes=(1, 0)), shapes=D2, dtypes=dts)
    T(F(f), "norm", lambda c: K(c.A(), norm="ortho"), shapes=D2, dtypes=dts)
    T(F(f), "allpos", lambda c: K(c.A(), (2, 4), (0, 1), "forward"), shapes=D2, dtypes=dts)
for f in ["fftn", "ifftn", "rfftn"]:
    T(F(f), "1d", lambda c: K(c.A()), shapes=("1d",), dtypes="fi")
for f in ["fftshift", "ifftshift"]:
    T(F(f), "pos", lambda c: K(c.A()))
    T(F(f), "axes", lambda c: K(c.A(), axes=0), shapes=ND)
    T(F(f), "axespos", lambda c: K(c.A(), (0, 1)), shapes=D2)
