"""C06 differential core: run one catalogue case on bare data and on quantities and compare
`np.asarray(result)` (element-wise for tuples), shape, dtype kind, the contents of out= buffers
and the post-call contents of every operand, bit for bit.  Never consults the model."""
import io
import warnings

import numpy as np

import npcatalog as C

UNITS = ("m", "s", "kg")


def canon(x, depth=0):
    """canonical, comparable form of a result"""
    if isinstance(x, np.ndarray) or isinstance(x, np.generic):
        a = np.asarray(x)
        if type(a) is not np.ndarray:
            a = a.view(np.ndarray)
        if a.dtype.kind == "O":
            return ("objarr", a.shape, tuple(canon(v, depth + 1) for v in a.ravel().tolist()))
        if a.dtype.kind == "V":
            return ("arr", a.shape, "V", a.dtype.str, np.ascontiguousarray(a).tobytes())
        return ("arr", a.shape, a.dtype.kind, a.dtype.str, np.ascontiguousarray(a).tobytes())
    if isinstance(x, (tuple, list)) and depth < 6:
        return ("seq", tuple(canon(v, depth + 1) for v in x))
    if isinstance(x, (bool, int, float, complex)):
        a = np.asarray(x)
        return ("arr", (), a.dtype.kind, a.dtype.str, a.tobytes())
    if x is None or isinstance(x, (str, bytes, np.dtype, type)):
        return ("py", repr(x))
    if isinstance(x, dict):
        return ("dict", tuple(sorted((repr(k), canon(v, depth + 1)) for k, v in x.items())))
    if hasattr(x, "_fields") and isinstance(x, tuple):
        return ("seq", tuple(canon(v, depth + 1) for v in x))
    if isinstance(x, np.flatiter):
        return canon(np.array(x), depth + 1)
    return ("other", type(x).__name__ if not type(x).__module__.startswith("unyt") else "unyt-object")


def same(cu, cb):
    """compare canonical forms: shape, dtype kind and bytes (a 0-d array equals a scalar)"""
    if cu[0] == "arr" and cb[0] == "arr":
        if cu[1] != cb[1] or cu[2] != cb[2]:
            return False
        if cu[3] == cb[3]:
            return cu[4] == cb[4]
        # same kind, different width: compare values after promotion
        a = np.frombuffer(cu[4], dtype=np.dtype(cu[3])).astype(np.complex128 if cu[2] == "c" else np.float64)
        b = np.frombuffer(cb[4], dtype=np.dtype(cb[3])).astype(np.complex128 if cb[2] == "c" else np.float64)
        return a.tobytes() == b.tobytes()
    if cu[0] != cb[0]:
        return False
    if cu[0] == "seq":
        return len(cu[1]) == len(cb[1]) and all(same(x, y) for x, y in zip(cu[1], cb[1]))
    if cu[0] == "objarr":
        return cu[1] == cb[1] and all(same(x, y) for x, y in zip(cu[2], cb[2]))
    if cu[0] == "dict":
        return len(cu[1]) == len(cb[1]) and all(k1 == k2 and same(v1, v2) for (k1, v1), (k2, v2) in zip(cu[1], cb[1]))
    return cu == cb


def leaves(c, out):
    if c[0] == "seq":
        for v in c[1]:
            leaves(v, out)
    elif c[0] == "objarr":
        out.append(("objshape", c[1]))
        for v in c[2]:
            leaves(v, out)
    else:
        out.append(c)
    return out


def classify(cu, cb, retype_ok=False):
    """None when identical, else the kind of the first difference:
    structure | shape | dtype-kind | values | int-out-retyped"""
    if same(cu, cb):
        return None
    lu, lb = leaves(cu, []), leaves(cb, [])
    if len(lu) != len(lb):
        return "structure"
    for x, y in zip(lu, lb):
        if x[0] != y[0]:
            return "structure"
        if x[0] != "arr":
            if x != y:
                return "structure" if x[0] == "objshape" else "values"
            continue
        if same(x, y):
            continue
        if x[1] != y[1]:
            return "shape"
        if x[2] != y[2]:
            if retype_ok and y[2] in "iu" and x[2] == "f":
                a = np.frombuffer(x[4], dtype=np.dtype(x[3])).astype(np.float64)
                b = np.frombuffer(y[4], dtype=np.dtype(y[3])).astype(np.float64)
                if a.shape == b.shape and bool(np.array_equal(a, b, equal_nan=True)):
                    return "int-out-retyped"
            return "dtype-kind"
        return "values"
    return "values"


def shape_only(c):
    if c[0] == "arr":
        return ("arr", c[1], c[2])
    if c[0] == "seq":
        return ("seq", tuple(shape_only(v) for v in c[1]))
    return c


def brief(c, depth=0):
    if c[0] == "arr":
        try:
            v = np.frombuffer(c[4], dtype=np.dtype(c[3])).reshape(c[1])
            return f"{c[3]}{list(c[1])}:{np.array2string(v, threshold=6, precision=6)[:120]}"
        except Exception:  # noqa: BLE001
            return f"{c[3]}{list(c[1])}"
    if c[0] == "seq":
        return "(" + ", ".join(brief(v, depth + 1) for v in c[1][:4]) + ")"
    return str(c)[:120]


def sinks(args, kwargs):
    out = []
    for v in list(args) + list(kwargs.values()):
        if isinstance(v, io.BytesIO):
            out.append(v.getvalue())
        elif isinstance(v, io.StringIO):
            out.append(v.getvalue().encode())
    return out


def run_side(t, call, wrap):
    """returns dict(outcome='ok'|'raise', result canon, operand canons, sinks, exc)"""
    args, kwargs, objs = call.materialize(wrap)
    with warnings.catch_warnings():
        warnings.simplefilter("ignore")
        try:
            r = t.invoke(args, kwargs)
        except Exception as e:  # noqa: BLE001
            return {"outcome": "raise", "exc": type(e).__name__, "msg": str(e)[:200]}
    if t.result == "archive":
        sk = []
    else:
        sk = sinks(args, kwargs)
    res = canon(r) if t.result != "string" else ("py", "<string>")
    return {
        "outcome": "ok",
        "result": res,
        "ops": [(op.role, canon(np.asarray(o)) if isinstance(o, np.ndarray) else canon(o)) for op, o in objs],
        "sinks": sk,
    }


def compare(t, dk, sc, seed, out_mode="unyt", units=UNITS):
    """one case.  Returns (status, detail):
       'skip-build'      the template cannot be instantiated for this dtype/shape
       'both-raise'      NumPy raises on the bare data and unyt raises too
       'numpy-raises'    NumPy raises on the bare data, unyt returns  (reported by the caller)
       'unyt-raises'     unyt raises, NumPy does not (allowed by the property)
       'same'            identical
       'differ'          detail = what differs"""
    try:
        call = t.instantiate(dk, sc, seed)
    except Exception as e:  # noqa: BLE001
        return "skip-build", type(e).__name__
    b = run_side(t, call, C.bare_wrap)
    u = run_side(t, call, C.unyt_wrap(units, out=out_mode))
    if b["outcome"] == "raise":
        return ("both-raise", b["exc"]) if u["outcome"] == "raise" else ("numpy-raises", b["exc"] + ": " + b["msg"])
    if u["outcome"] == "raise":
        return "unyt-raises", u["exc"] + ": " + u["msg"]
    diffs = []
    retype_ok = t.out_form or t.func.startswith("ndarray.__i")
    if t.values:
        w = classify(u["result"], b["result"], retype_ok)
        if w:
            diffs.append((w, f"result: unyt {brief(u['result'])} numpy {brief(b['result'])}"))
    else:
        if shape_only(u["result"]) != shape_only(b["result"]):
            diffs.append(("shape", f"result: unyt {brief(u['result'])} numpy {brief(b['result'])}"))
    for i, ((role, cu), (_r, cb)) in enumerate(zip(u["ops"], b["ops"])):
        w = classify(cu, cb, retype_ok)
        if w:
            if w != "int-out-retyped":
                w = "out-buffer" if role == "out" else "operand-after"
            diffs.append((w, f"operand {i} ({role}) after the call: unyt {brief(cu)} numpy {brief(cb)}"))
    if u["sinks"] != b["sinks"]:
        diffs.append(("written-bytes", "file contents differ"))
    if diffs:
        return "differ", diffs
    return "same", None


def replay_snippet(t, dk, sc, seed, out_mode, harness_dir, units=UNITS, what=None):
    """self-contained python: exits non-zero iff the case still differs (or NumPy raises while unyt returns)"""
    return (
        "import sys, warnings\n"
        "warnings.simplefilter('ignore')\n"
        f"sys.path.insert(0, {harness_dir!r})\n"
        "import numpy as np\n"
        "np.seterr(all='ignore')\n"
        "import npcatalog as C, c06_diff as D\n"
        "try:\n    import c06_alias as A\n    A.register()\nexcept ImportError:\n    pass\n"
        f"t = [t for t in C.templates() if t.tid == {t.tid!r}][0]\n"
        f"st, detail = D.compare(t, {dk!r}, {sc!r}, {seed!r}, {out_mode!r}, {tuple(units)!r})\n"
        f"call = t.instantiate({dk!r}, {sc!r}, {seed!r})\n"
        "print('call:', t.func, '(', call.describe(), ')  status:', st, detail)\n"
        f"bad = {(what or '').split('@')[0] or None!r}\n"
        "hit = (st == 'numpy-raises' and bad in ('numpy-raises', 'int-out-retyped')) or (st == 'differ' and (bad is None or any(d[0] == bad for d in detail)))\n"
        "assert not hit, (st, detail)\n"
    )
