"""npcatalog templates, part 4: ndarray methods (receiver = first value operand), value-carrying
attributes and the indexing / operator dunders whose numbers must equal NumPy's."""
import operator
import os
import tempfile

import numpy as np

from npcatalog import K, Op, T

ND = ("1d", "2d", "sq")
ND0 = ("1d", "2d", "sq", "empty")
D2 = ("2d", "sq")


def M(f):
    return "ndarray." + f


for f in ["all", "any", "max", "min", "sum", "prod", "mean", "std", "var", "argmax", "argmin"]:
    T(M(f), "pos", lambda c: K(c.A()), auto_out=True)
    T(M(f), "axis", lambda c: K(c.A(), axis=c.ax()), shapes=ND0, auto_out=True)
    T(M(f), "axispos", lambda c: K(c.A(), c.ax0()), shapes=ND)
    T(M(f), "keepdims", lambda c: K(c.A(), axis=c.ax(), keepdims=True), shapes=ND)
for f in ["sum", "prod", "mean", "std", "var", "cumsum", "cumprod"]:
    T(M(f), "dtype", lambda c: K(c.A(), axis=c.ax(), dtype=np.complex128), auto_out=True)
for f in ["max", "min", "sum", "prod"]:
    T(M(f), "initial", lambda c: K(c.A(), axis=c.ax(), initial=c.Q(), where=c.mask()), shapes=ND)
for f in ["all", "any", "mean", "std", "var"]:
    T(M(f), "where", lambda c: K(c.A(), axis=c.ax(), where=c.mask()), shapes=ND)
for f in ["std", "var"]:
    T(M(f), "ddof", lambda c: K(c.A(), axis=c.ax(), ddof=1), shapes=ND)
for f in ["cumsum", "cumprod"]:
    T(M(f), "pos", lambda c: K(c.A()), auto_out=True)
    T(M(f), "axis", lambda c: K(c.A(), axis=c.ax0()), shapes=ND, auto_out=True)
for f in ["conj", "conjugate", "copy", "flatten", "nonzero", "ravel", "squeeze", "tolist", "tobytes", "transpose",
          "byteswap", "item", "sort", "argsort", "round", "view"]:
    T(M(f), "pos", lambda c: K(c.A()))
T(M("dumps"), "pos", lambda c: K(c.A()), result="string")  # a pickle: carries the class, not only numbers
T(M("copy"), "order", lambda c: K(c.A(), order="F"), shapes=D2)
T(M("copy"), "orderpos", lambda c: K(c.A(), "F"), shapes=D2)
T(M("flatten"), "order", lambda c: K(c.A(), order="F"), shapes=D2)
T(M("ravel"), "order", lambda c: K(c.A(), "F"), shapes=D2)
T(M("tobytes"), "order", lambda c: K(c.A(), order="F"), shapes=D2)
T(M("byteswap"), "inplace", lambda c: K(c.A(), inplace=True))
T(M("item"), "idx", lambda c: K(c.A(), 1), shapes=ND)
T(M("item"), "tuple", lambda c: K(c.A(), (1, 0)), shapes=D2)
T(M("squeeze"), "axis", lambda c: K(c.A((1,) + c.shp), axis=0))
T(M("transpose"), "axes", lambda c: K(c.A(), (1, 0)), shapes=D2)
T(M("transpose"), "star", lambda c: K(c.A(), 1, 0), shapes=D2)
T(M("round"), "decimals", lambda c: K(c.A(), decimals=1), auto_out=True)
T(M("round"), "decpos", lambda c: K(c.A(), 2))
T(M("sort"), "axis", lambda c: K(c.A(), axis=0, kind="stable"), shapes=ND)
T(M("sort"), "stable", lambda c: K(c.A(), stable=True), shapes=ND)
T(M("argsort"), "axis", lambda c: K(c.A(), axis=0, kind="stable"), shapes=ND)
T(M("argsort"), "axispos", lambda c: K(c.A(), 0), shapes=ND)
T(M("argsort"), "stable", lambda c: K(c.A(), stable=True), shapes=ND)
T(M("partition"), "pos", lambda c: K(c.A(), 1), shapes=ND)
T(M("partition"), "kw", lambda c: K(c.A(), kth=2, axis=0), shapes=ND)
T(M("argpartition"), "pos", lambda c: K(c.A(uniq=True), 1), shapes=ND)
T(M("argpartition"), "kw", lambda c: K(c.A(uniq=True), kth=2, axis=0), shapes=ND)
T(M("astype"), "pos", lambda c: K(c.A(), np.complex128))
T(M("astype"), "kw", lambda c: K(c.A(), dtype=np.float32, order="F", casting="unsafe", copy=True))
T(M("astype"), "nocopy", lambda c: K(c.A(), np.float64, copy=False), dtypes="f")
T(M("view"), "dtype", lambda c: K(c.A(), np.uint8), shapes=ND)
T(M("view"), "type", lambda c: K(c.A(), type=np.ndarray))
T(M("choose"), "pos", lambda c: K(Op(c.idx(c.n, 2), "value", 1, True), [c.A((c.n,)), c.A((c.n,))]), shapes=("1d",), dtypes="i")
T(M("choose"), "mode", lambda c: K(Op(c.idx(c.n, 7), "value", 1, True), [c.A((c.n,)), c.A((c.n,))], mode="wrap"), shapes=("1d",), dtypes="i")
T(M("clip"), "pos", lambda c: K(c.A(), c.Q(), c.Q()), dtypes="fi", auto_out=True)
T(M("clip"), "kw", lambda c: K(c.A(), min=c.Q(), max=c.Q()), dtypes="fi")
T(M("clip"), "bare", lambda c: K(c.A(), -1, 1), dtypes="fi")
T(M("clip"), "onesided", lambda c: K(c.A(), max=c.Q()), dtypes="fi")
T(M("compress"), "pos", lambda c: K(c.A(), c.mask((c.shp[0],))), shapes=ND, auto_out=True)
T(M("compress"), "axis", lambda c: K(c.A(), c.mask((c.shp[-1],)), axis=-1), shapes=ND)
T(M("diagonal"), "pos", lambda c: K(c.A()), shapes=D2)
T(M("diagonal"), "kw", lambda c: K(c.A(), offset=1, axis1=1, axis2=0), shapes=D2)
T(M("trace"), "pos", lambda c: K(c.A()), shapes=D2, auto_out=True)
T(M("trace"), "kw", lambda c: K(c.A(), offset=1, axis1=1, axis2=0, dtype=np.complex128), shapes=D2)
T(M("dot"), "pos", lambda c: K(c.A(), c.A((c.shp[-1],) if c.nd else (), g=1)))
T(M("dot"), "mat", lambda c: K(c.A(), c.A((c.shp[1], 2), g=1)), shapes=D2)
T(M("dot"), "out", lambda c: (lambda a, b: K(a, b, out=c.O(a.data.dot(b.data))))(c.A(), c.A((c.shp[1], 2), g=1)), shapes=D2, out_form=True)
T(M("dot"), "outpos", lambda c: (lambda a, b: K(a, b, c.O(a.data.dot(b.data))))(c.A(), c.A((c.shp[1], 2), g=1)), shapes=D2, out_form=True)
T(M("dot"), "bare", lambda c: K(c.A(), c.data((c.shp[-1],) if c.nd else ())))
T(M("fill"), "pos", lambda c: K(c.A(), c.Q()))
T(M("fill"), "bare", lambda c: K(c.A(), 3))
T(M("getfield"), "pos", lambda c: K(c.A(), np.uint8, 1))
T(M("setfield"), "pos", lambda c: K(c.A(), 3, np.uint8, 0))
T(M("setflags"), "pos", lambda c: K(c.A(), write=False))
T(M("put"), "pos", lambda c: K(c.A(), [0, 2], c.A((2,))), shapes=ND)
T(M("put"), "mode", lambda c: K(c.A(), [1, 105, -3], c.A((3,)), mode="wrap"), shapes=ND)
T(M("put"), "clip", lambda c: K(c.A(), [1, 105], 3, "clip"), shapes=ND)
T(M("repeat"), "pos", lambda c: K(c.A(), 2))
T(M("repeat"), "axis", lambda c: K(c.A(), repeats=2, axis=c.ax0()), shapes=ND)
T(M("reshape"), "pos", lambda c: K(c.A(), -1))
T(M("reshape"), "tuple", lambda c: K(c.A(), (c.shp[1], c.shp[0])), shapes=D2)
T(M("reshape"), "star", lambda c: K(c.A(), c.shp[1], c.shp[0], order="F"), shapes=D2)
T(M("reshape"), "scalar", lambda c: K(c.A(), (1, 1)), shapes=("0d",))
T(M("resize"), "pos", lambda c: K(c.A(), (2, 3), refcheck=False))
T(M("searchsorted"), "pos", lambda c: K(c.A((c.n,), sort=True), c.A()), dtypes="fi")
T(M("searchsorted"), "side", lambda c: K(c.A((c.n,), sort=True), c.Q(), side="right"), dtypes="fi")
T(M("searchsorted"), "bare", lambda c: K(c.A((c.n,), sort=True), 0.5, "right"), dtypes="fi")
T(M("swapaxes"), "pos", lambda c: K(c.A(), 0, 1), shapes=D2)
T(M("take"), "pos", lambda c: K(c.A(), [0, 2, 1]), shapes=ND, auto_out=True)
T(M("take"), "axis", lambda c: K(c.A(), [1, 0], axis=c.ax0()), shapes=ND, auto_out=True)
T(M("take"), "mode", lambda c: K(c.A(), [7, -9, 100], mode="wrap"), shapes=ND)
T(M("take"), "allpos", lambda c: K(c.A(), [7, -9], 0, None, "clip"), shapes=ND)
T(M("take"), "scalar", lambda c: K(c.A(), 1), shapes=ND)
T(M("to_device"), "pos", lambda c: K(c.A(), "cpu"))


def _dump(a):
    d = tempfile.mkdtemp(prefix="npcat_")
    p = os.path.join(d, "x.bin")
    try:
        a.dump(p)
        with open(p, "rb") as f:
            return len(f.read()) > 0
    finally:
        try:
            os.remove(p)
        finally:
            os.rmdir(d)


def _tofile(a, **kw):
    d = tempfile.mkdtemp(prefix="npcat_")
    p = os.path.join(d, "x.bin")
    try:
        a.tofile(p, **kw)
        with open(p, "rb") as f:
            return f.read()
    finally:
        try:
            os.remove(p)
        finally:
            os.rmdir(d)


T(M("dump"), "pos", lambda c: K(c.A()), invoke=_dump)
T(M("tofile"), "pos", lambda c: K(c.A()), invoke=_tofile)
T(M("tofile"), "sep", lambda c: K(c.A(), sep=",", format="%s"), invoke=_tofile, dtypes="fi")

# ---------------------------------------------------------------- attributes that carry values
for a in ["T", "mT", "real", "imag", "flat"]:
    T(M(a), "get", lambda c: K(c.A()), invoke=(lambda x, a=a: np.array(getattr(x, a)) if a == "flat" else getattr(x, a)),
      shapes=(D2 if a == "mT" else ("0d", "1d", "2d", "sq", "empty")))
for a in ["shape", "ndim", "size", "dtype", "itemsize", "nbytes", "strides"]:
    T(M(a), "get", lambda c: K(c.A()), invoke=lambda x, a=a: getattr(x, a))

# ---------------------------------------------------------------- indexing
T(M("__getitem__"), "int", lambda c: K(c.A(), 1), shapes=ND)
T(M("__getitem__"), "neg", lambda c: K(c.A(), -1), shapes=ND)
T(M("__getitem__"), "slice", lambda c: K(c.A(), slice(1, None, 2)), shapes=ND0)
T(M("__getitem__"), "tuple", lambda c: K(c.A(), (1, 0)), shapes=D2)
T(M("__getitem__"), "mixed", lambda c: K(c.A(), (slice(None), 1)), shapes=D2)
T(M("__getitem__"), "ellipsis", lambda c: K(c.A(), Ellipsis))
T(M("__getitem__"), "empty", lambda c: K(c.A(), ()))
T(M("__getitem__"), "newaxis", lambda c: K(c.A(), (None, Ellipsis)))
T(M("__getitem__"), "fancy", lambda c: K(c.A(), np.array([2, 0, 1])), shapes=ND)
T(M("__getitem__"), "mask", lambda c: K(c.A(), c.mask()))
T(M("__getitem__"), "list", lambda c: K(c.A(), [0, 1]), shapes=ND)
T(M("__setitem__"), "int", lambda c: K(c.A(), 1, c.Q()), shapes=ND)
T(M("__setitem__"), "slice", lambda c: K(c.A(), slice(0, 2), c.A((2,) + c.shp[1:])), shapes=ND)
T(M("__setitem__"), "mask", lambda c: K(c.A(), c.mask(), c.Q()))
T(M("__setitem__"), "fancy", lambda c: K(c.A(), np.array([2, 0]), c.A((2,) + c.shp[1:])), shapes=ND)
T(M("__setitem__"), "ellipsis", lambda c: K(c.A(), Ellipsis, c.A()))
T(M("__setitem__"), "bare", lambda c: K(c.A(), 0, 3), shapes=ND)
T(M("__iter__"), "list", lambda c: K(c.A()), invoke=lambda x: list(x), shapes=ND0)
T(M("__len__"), "len", lambda c: K(c.A()), invoke=len, shapes=ND0)
T(M("__contains__"), "in", lambda c: (lambda a: K(a, Op(a.data.ravel()[0].item() if a.data.size else 0, "value", 0)))(c.A()),
  invoke=lambda x, v: v in x, shapes=ND)
for nm, fn in [("__abs__", operator.abs), ("__neg__", operator.neg), ("__pos__", operator.pos),
               ("__float__", float), ("__int__", int), ("__complex__", complex), ("__bool__", bool),
               ("__copy__", lambda x: x.__copy__()), ("__deepcopy__", lambda x: x.__deepcopy__({})),
               ("__array__", lambda x: x.__array__())]:
    T(M(nm), "call", lambda c: K(c.A()), invoke=fn)
T(M("__matmul__"), "mat", lambda c: K(c.A(), c.A((c.shp[1], 2), g=1)), invoke=operator.matmul, shapes=D2)
T(M("__matmul__"), "vec", lambda c: K(c.A(), c.A((c.shp[-1],), g=1)), invoke=operator.matmul, shapes=ND)
T(M("__rmatmul__"), "bare", lambda c: K(c.data((2, c.shp[0])), c.A()), invoke=operator.matmul, shapes=ND)
T(M("__divmod__"), "pos", lambda c: K(c.A(), c.A(pos=True)), invoke=divmod, dtypes="fi")
for nm, fn in [("__add__", operator.add), ("__sub__", operator.sub), ("__lt__", operator.lt), ("__ge__", operator.ge),
               ("__eq__", operator.eq), ("__ne__", operator.ne), ("__mod__", operator.mod), ("__floordiv__", operator.floordiv)]:
    T(M(nm), "same", lambda c: K(c.A(), c.A(pos=True)), invoke=fn, dtypes=("fi" if nm in ("__mod__", "__floordiv__", "__lt__", "__ge__") else "fic"))
for nm, fn in [("__mul__", operator.mul), ("__truediv__", operator.truediv)]:
    T(M(nm), "two", lambda c: K(c.A(), c.A(g=1, pos=True)), invoke=fn)
    T(M(nm), "bare", lambda c: K(c.A(), 2.5), invoke=fn)
T(M("__pow__"), "int", lambda c: K(c.A(pos=True), 2), invoke=operator.pow)
T(M("__pow__"), "half", lambda c: K(c.A(pos=True), 0.5), invoke=operator.pow)
T(M("__pow__"), "zero", lambda c: K(c.A(), 0), invoke=operator.pow)
for nm, fn in [("__iadd__", operator.iadd), ("__isub__", operator.isub)]:
    T(M(nm), "same", lambda c: K(c.A(), c.A()), invoke=fn)
for nm, fn in [("__imul__", operator.imul), ("__itruediv__", operator.itruediv)]:
    T(M(nm), "bare", lambda c: K(c.A(), 2.0), invoke=fn, dtypes="fc")
