"""./vcheck front end."""
import argparse
import importlib
import json
import os
import signal
import subprocess
import sys

sys.path.insert(0, os.path.dirname(os.path.abspath(__file__)))
import core  # noqa: E402

# the library under test: /repo's working tree (UNYT_REPO overrides, for scratch copies)
sys.path.insert(0, core.REPO)


def replay(path):
    """Re-execute a replay file against the current tree: exit 1 if it still fails."""
    data = json.load(open(path, encoding="utf-8"))
    rp = data.get("replay")
    if data.get("no_failing_input_found") or not rp:
        print(f"replay {path}: no failing input recorded; unchecked obligations:")
        print(json.dumps(data.get("unchecked"), indent=1, ensure_ascii=False)[:4000])
        return 1
    code = rp.get("python") if isinstance(rp, dict) else None
    if not code:
        print(json.dumps(rp, indent=1, ensure_ascii=False)[:4000])
        return 1
    p = subprocess.run([core.PY, "-W", "ignore", "-c", code], cwd=core.REPO, capture_output=True, text=True)
    sys.stdout.write(p.stdout)
    sys.stderr.write(p.stderr[-2000:])
    if p.returncode != 0:
        print(f"replay {path}: FAILS on the current tree (property violated)")
        return 1
    print(f"replay {path}: passes on the current tree")
    return 0


def main():
    ap = argparse.ArgumentParser()
    ap.add_argument("prop", nargs="?")
    ap.add_argument("--tier", default=os.environ.get("VERIF_TIER", "quick"), choices=["quick", "thorough"])
    ap.add_argument("--replay")
    ap.add_argument("--timeout", type=int, default=0)
    a = ap.parse_args()
    if a.replay:
        sys.exit(replay(a.replay))
    if not a.prop:
        ap.error("property id required")
    seed = int(os.environ.get("VERIF_SEED", "0") or 0)
    limit = a.timeout or (900 if a.tier == "quick" else 3600)

    def on_alarm(_s, _f):
        print(f"TIMEOUT property={a.prop} after {limit}s", file=sys.stderr)
        os._exit(2)

    signal.signal(signal.SIGALRM, on_alarm)
    signal.alarm(limit)
    core.quiet_numpy()
    import unyt

    if not os.path.abspath(unyt.__file__).startswith(os.path.abspath(core.REPO) + os.sep):
        print(f"unyt imported from {unyt.__file__}, expected under {core.REPO}", file=sys.stderr)
        sys.exit(2)
    mod = importlib.import_module(a.prop.lower())
    try:
        rc = mod.run(a.tier, seed)
    except Exception:  # noqa: BLE001
        # the harness could not complete on this tree (an operation the model/oracle relies on
        # raised something unexpected): the property is no longer shown to hold.  Report it in the
        # protocol's terms instead of dying with a traceback.
        import traceback

        tb = traceback.format_exc()
        sys.stderr.write(tb)
        path = core.write_replay(a.prop, {"property": a.prop, "key": "harness-crash", "seed": seed, "tier": a.tier,
                                          "no_failing_input_found": True,
                                          "unchecked": {"correspondence": "the check's harness raised before finishing", "traceback": tb[-3000:]}})
        print(f"VIOLATION property={a.prop} replay={path} no-failing-input-found")
        rc = 1
    sys.exit(rc)


if __name__ == "__main__":
    main()
