"""C11 — persisted quantities and units come back meaning and behaving the same.

Three parts, on every run:

1. Proof + translation: the route table `Generated/PersistRoutes.lean` is regenerated from the live
   code by single-route probes (tools/extract.d/c11_routes.py), `UnytProofs/C11*.lean` are built
   and audited, and the table the driver holds is compared with what the translator measured.
2. Correspondence: objects (cold units: not in any string cache) are persisted and loaded on every
   route by the real library and by the compiled model (`Persist.restore`, drv_c11): numbers, dtype,
   class, unit data and identity bit, registry rows (added / modified / removed / identity bits),
   unit system, or the refusal, are compared; then follow-up operations are run on original and
   restored objects by the library and by `Persist.follow` / `runProg`.
3. Direct oracle (never consults the model): restored state vs original state, and a battery of
   follow-up operations on original and restored in both orders, from cold process-wide caches;
   outcome triples (value, unit, or exception class) must coincide.  The witnesses of the
   counterexample theorems are replayed on the real code.
"""
import multiprocessing
import os
import random
import time

import numpy as np

import core
import gen

import c11_lib as L

L.reset_default_registry()  # records the baseline of the default registry (string cache, table)

PROOF_MODULES = ["UnytProofs.C11", "UnytProofs.C11Tab", "UnytProofs.C11Tab2", "UnytProofs.C11Tab3", "UnytProofs.C11Chain"]

LIB_SRC = open(os.path.join(os.path.dirname(os.path.abspath(__file__)), "c11_lib.py"), encoding="utf-8").read()
PRE = (LIB_SRC + "\nimport unyt, sympy\nfrom unyt import Unit, unyt_array, unyt_quantity\n"
       "from unyt.unit_registry import UnitRegistry, default_unit_registry\nimport unyt.dimensions as D\nreset_default_registry()\n")

# ----------------------------------------------------------------------------------------
# object families: python source that leaves `reg`; `post` runs after the object `q` exists

ADDED = ("reg = UnitRegistry()\nreg.add('vfoo', 3.0, D.length, prefixable=True)\nreg.add('vang', 0.5, D.angle)\n"
         "reg.add('vtem', 2.0, D.temperature, offset=10.0)\nreg.add('vlog', 1.0, D.logarithmic)\n")
FAMILIES = {
    "default": ("reg = default_unit_registry\n", ""),
    "added": (ADDED, ""),
    "modified-default": ("reg = UnitRegistry()\nreg.modify('g', 2.0)\n", ""),
    "removed-default": ("reg = UnitRegistry()\nreg.remove('lb')\n", ""),
    "unit-system": ("reg = UnitRegistry(unit_system='cgs')\n", ""),
    "stale": (ADDED, "reg.modify('vfoo', 5.0)\n"),
    "stale-quantity": (ADDED, "reg.modify('vfoo', unyt_quantity(7.0, 'km', registry=reg))\n"),
    # default symbols re-declared with exactly the default data and the OTHER prefixable flag
    # (mile, Msun: made prefixable; bar: made non-prefixable)
    "redeclared-flag": ("reg = UnitRegistry()\nredeclare(reg, 'mile', 'prefixable')\nredeclare(reg, 'bar', 'prefixable')\n"
                        "redeclare(reg, 'Msun', 'prefixable')\n", ""),
}

# TWO-STEP HISTORIES: the registry is what a route hands back for a default-registry quantity (a deep
# copy / unpickled copy / from_json copy of the default registry: a registry object the user did not
# build, of whatever class that route gives it); the user adds units of their own to it, and the object
# is persisted again on every route.  One family per route that yields such a private registry.
AFTER = "after-"
try:
    ORIGIN_ROUTES = L.private_origin_routes()
except Exception:  # noqa: BLE001 - a route that cannot even restore a default quantity shows elsewhere
    ORIGIN_ROUTES = []
for _r1 in ORIGIN_ROUTES:
    FAMILIES[AFTER + _r1] = (ADDED.replace("reg = UnitRegistry()\n", f"reg = origin_registry({_r1!r})\n"), "")
L.reset_default_registry()

CORE_UNITS = {
    "default": ["degree", "lat", "lon", "rad", "mrad", "arcmin", "K", "R", "degC", "degF", "delta_degC", "delta_degF",
                "mK", "dB", "Np", "km", "m/s", "g", "kg*m**2/s**2", "dimensionless", "percent", "T", "statC", "rad*m/km", "1/K", "delta_degC*mol", "K*mol", "dB*mol"],
    "added": ["vfoo", "kvfoo", "vang", "vtem", "vlog", "vfoo*s", "degree", "K", "dB", "km"],
    "modified-default": ["g", "kg", "km", "degree", "K"],
    "removed-default": ["km", "degree", "K", "dB"],
    "unit-system": ["km", "g", "degree", "K", "erg"],
    "stale": ["vfoo", "kvfoo", "vfoo/s"],
    "stale-quantity": ["vfoo"],
    "redeclared-flag": ["mile", "kmile", "bar", "kMsun"],
}

for _r1 in ORIGIN_ROUTES:
    CORE_UNITS[AFTER + _r1] = ["vfoo", "vang", "km"]

DATA = {
    "q": ("unyt_quantity", "90.0"),
    "a": ("unyt_array", "np.array([90.0, 30.0, -45.5])"),
    "a2": ("unyt_array", "np.array([[1.5, 2.5], [3.5, -4.25]])"),
    "i": ("unyt_array", "np.array([90, 30, -45], dtype='int32')"),
    "f4": ("unyt_array", "np.array([90.0, 30.5], dtype='float32')"),
    # numbers that need all 53 bits (a text route that rounds shows here)
    "p": ("unyt_array", "np.array([0.1, 1.0 / 3.0, 2.718281828459045e-07, 3.0000000000000004e+30])"),
}


def case_src(family, unit, data, warm=False):
    pre, post = FAMILIES[family]
    pre = "reset_default_registry()\n" + pre
    cls, d = DATA[data]
    if warm:
        u = f"Unit({unit!r}, registry=reg)"
    else:
        u = f"cold_unit({unit!r}, reg)"
    return f"{pre}q = {cls}({d}, {u})\n{post}"


# ----------------------------------------------------------------------------------------
# the follow-up battery: python expressions over `x` (R = x.units.registry)

TO_TARGETS = ["deg", "rad", "K", "degF", "degC", "delta_degC", "kg", "m", "cm", "vfoo", "kvfoo", "dB", "s"]
OPS = [
    ("sin", "np.sin(x)"), ("cos", "np.cos(x)"), ("tan", "np.tan(x)"),
    ("add_degC", "x + unyt_quantity(1.0, 'degC', registry=R)"),
    ("add_K", "x + unyt_quantity(1.0, 'K', registry=R)"),
    ("add_ddegC", "x + unyt_quantity(1.0, 'delta_degC', registry=R)"),
    ("radd_degC", "unyt_quantity(1.0, 'degC', registry=R) + x"),
    ("sub_self", "x - x"), ("add_self", "x + x"),
    ("diff", "np.diff(np.atleast_1d(x).ravel())"), ("ptp", "np.ptp(np.atleast_1d(x))"),
    ("mul_m", "x * unyt_quantity(2.0, 'm', registry=R)"),
    ("unit_mul_m", "x.units * Unit('m', registry=R)"),
    ("unit_mul_dB", "x.units * Unit('dB', registry=R)"),
    ("unit_div_s", "x.units / Unit('s', registry=R)"),
    ("unit_pow2", "x.units ** 2"), ("mul_self", "x * x"), ("div_self", "x / x"), ("sqrt", "np.sqrt(x)"),
    ("in_base", "x.in_base()"), ("in_cgs", "x.in_cgs()"), ("in_mks", "x.in_mks()"),
    ("in_imperial", "x.in_base('imperial')"), ("in_galactic", "x.in_base('galactic')"),
] + [("to_" + t, f"x.to({t!r})") for t in TO_TARGETS] + [
    ("sin_to_deg", "np.sin(x.to('deg'))"),
    ("to_degC_add_K", "x.to('degC') + unyt_quantity(1.0, 'K', registry=R)"),
    ("eq_self", "x == x"), ("lt_2x", "x < 2 * x"), ("eq_unit_str", "x.units == Unit(str(x.units.expr), registry=R)"),
    ("is_dimensionless", "x.units.is_dimensionless"),
    ("base_equiv", "x.units.get_base_equivalent()"),
]
OPCLASS = {"sin": "trig", "cos": "trig", "tan": "trig", "sin_to_deg": "trig"}
for _n in ("add_degC", "add_K", "add_ddegC", "radd_degC", "sub_self", "add_self", "diff", "ptp", "to_degC_add_K"):
    OPCLASS[_n] = "arith"
for _n in ("mul_m", "unit_mul_m", "unit_mul_dB", "unit_div_s", "unit_pow2", "mul_self", "div_self", "sqrt"):
    OPCLASS[_n] = "mul"
for _n in ("in_base", "in_cgs", "in_mks", "in_imperial", "in_galactic", "base_equiv"):
    OPCLASS[_n] = "base"
for _t in TO_TARGETS:
    OPCLASS["to_" + _t] = "to"
for _n in ("eq_self", "lt_2x", "eq_unit_str", "is_dimensionless"):
    OPCLASS[_n] = "compare"

CAUSE_ORDER = {
    "trig": ["identity", "row-identity"],
    "arith": ["identity", "row-identity"],
    "mul": ["identity", "row-identity"],
    "list-same-dimensions": ["any-identity"],
    "base": ["unit-system", "units", "modified-default-reset", "row-changed"],
    "to": ["units", "modified-default-reset", "row-changed", "removed-default-back", "added-lost"],
    "compare": ["units"],
}
GENERIC = ["units", "modified-default-reset", "row-changed", "removed-default-back", "added-lost", "default-lost",
           "spurious-row", "unit-system", "identity", "row-identity"]


def cause_of(opclass, diffs):
    for c in CAUSE_ORDER.get(opclass, []) + GENERIC:
        if c in diffs:
            return c
    if opclass == "list-same-dimensions":
        return "any-identity"
    return "none"


# ----------------------------------------------------------------------------------------
# running one (case, route) on the real library


def base_ns():
    ns = {}
    exec(compile(PRE_IMPORTS, "<c11-pre>", "exec"), ns)
    return ns


PRE_IMPORTS = ("import copy, pickle, os, tempfile, shutil\nimport numpy as np\nfrom c11_lib import *\nimport unyt, sympy\n"
               "from unyt import Unit, unyt_array, unyt_quantity\nfrom unyt.unit_registry import UnitRegistry, default_unit_registry\n"
               "import unyt.dimensions as D\n")

_NS = None


def fresh_ns():
    global _NS
    if _NS is None:
        _NS = base_ns()
    return dict(_NS)


def route_src(route, proto, container):
    p = "None" if proto is None else str(proto)
    if container:
        pp = "pickle.DEFAULT_PROTOCOL" if proto is None else str(proto)
        return (f"q2 = q.copy()\nbox = pickle.loads(pickle.dumps({{'a': [q, (q2, 'txt')], 'b': q2}}, protocol={pp}))\n"
                "r = box['a'][0]\n")
    return f"r = restore({route!r}, q, {p})\n"


def unit_class(family, unit):
    if unit.startswith("delta_deg"):
        return "delta-display"
    if (family in ("added", "stale", "stale-quantity") or family.startswith(AFTER)) and ("vfoo" in unit or unit in ("vang", "vtem", "vlog")):
        return "user-symbol"
    if family == "redeclared-flag" and unit in ("kmile", "kMsun"):
        return "user-symbol"  # a spelling that exists only through the user's declaration
    return "other"


def battery(x, ns):
    R = x.units.registry
    env = dict(ns)
    env["x"] = x
    env["R"] = R
    out = []
    for _name, src in OPS:
        out.append(L.outcome(lambda s=src: eval(s, env)))  # noqa: S307 - fixed expressions
    return out


def run_pair(src, route, proto, container):
    """-> dict(raises | diffs, oo, ro, oo2, ro2): outcomes orig-first and restored-first"""
    rs = route_src(route, proto, container)
    res = {}
    for order in ("orig-first", "restored-first"):
        if order == "restored-first" and route in ("arrayCopy", "copyCopy") and res.get("same-unit"):
            # the restored object holds the very same Unit object: nothing can depend on the order
            res[order] = res["orig-first"]
            break
        ns = fresh_ns()
        exec(src, ns)  # noqa: S102 - harness-generated source
        q = ns["q"]
        try:
            exec(rs, ns)  # noqa: S102
        except Exception as e:  # noqa: BLE001
            res["raises"] = type(e).__name__
            return res
        r = ns["r"]
        if order == "orig-first":
            res["same-unit"] = r.units is q.units
            res["diffs"] = L.state_diff(q, r)
            res["canon"] = (L.dim_identity(q.units), L.dim_identity(r.units))
        L.clear_caches()
        if order == "orig-first":
            oo = battery(q, ns)
            ro = battery(r, ns)
        else:
            ro = battery(r, ns)
            oo = battery(q, ns)
        res[order] = (oo, ro)
    return res


def build_src(src, route, proto, container):
    return ("SRC = " + repr(src + route_src(route, proto, container)) + "\n"
            "def build():\n    ns = dict(globals())\n    exec(SRC, ns)\n    return ns['q'], ns['r']\n")


def replay_follow(src, route, proto, container, opsrc, order, cause):
    return (PRE + build_src(src, route, proto, container)
            + f"c = attribute(build, {opsrc!r}, {order!r}, globals())\n"
            + f"assert c != {cause!r}, ('the follow-up differs between original and restored object; attributed to', c)\n")


def replay_follow_battery(src, route, proto, container, i, order, cause):
    return (PRE + build_src(src, route, proto, container)
            + "OPSRCS = " + repr([s_ for _n, s_ in OPS]) + "\n"
            + f"c = attribute_battery(build, OPSRCS, {i}, {order!r}, globals())\n"
            + f"assert c != {cause!r}, ('operation', OPSRCS[{i}], 'differs between original and restored object after the battery ran; attributed to', c)\n")


def replay_state(src, route, proto, container, diff):
    return (PRE + build_src(src, route, proto, container)
            + "q, r = build()\nd = state_diff(q, r)\n"
            + f"assert {diff!r} not in d, ('restored state differs from the original in', d, unit_descr(q.units), unit_descr(r.units))\n")


def replay_raises(src, route, proto, container):
    return PRE + build_src(src, route, proto, container) + "q, r = build()\n"


def replay_history(src, route, proto, container, opsrc, cause):
    return (PRE + build_src(src, route, proto, container)
            + f"c = attribute_history(build, {opsrc!r}, globals())\n"
            + f"assert c != {cause!r}, ('the ORIGINAL answers differently after the same call ran on the restored object; attributed to', c)\n")


_MEMO = {}


def judge_job(job, src, res):
    """direct oracle on one (case, route): -> (failures [(key, what, replay dict)], counts {bucket: n})"""
    family, unit, data, warm, route, proto, container = job
    fails, counts = [], {}

    def count(b):
        counts[b] = counts.get(b, 0) + 1

    ucls = unit_class(family, unit)
    tag = route + ("+container" if container else "")
    info = {"family": family, "unit": unit, "data": data, "warm": warm, "route": route, "protocol": proto, "container": container}
    if "raises" in res:
        exc = res["raises"]
        if route == "saveLoadTxt" and ucls == "user-symbol":
            key = "C11|saveLoadTxt|registry-not-carried"
        elif ucls == "delta-display" and exc == "UnitParseError":
            key = f"C11|{route}|delta-display-unreadable"
        else:
            key = f"C11|{route}|raises:{exc}:{ucls}"
        fails.append((key, f"{tag}: restoring {unit} ({family}) raised {exc}", dict(info, python=replay_raises(src, route, proto, container))))
        count("state:raises")
        return fails, counts
    diffs = res["diffs"]
    if route == "saveLoadTxt" and family != "default":
        # a text file carries no registry: one finding for the route, nothing further to compare
        if [d for d in diffs if d in REGISTRY_DIFFS] or "units" in diffs:
            fails.append(("C11|saveLoadTxt|registry-not-carried", f"{tag}: {unit} ({family}): the restored registry/unit differs: {diffs}",
                          dict(info, python=replay_state(src, route, proto, container, diffs[0]))))
            count("state:registry-not-carried")
            return fails, counts
    for d in diffs:
        fails.append((f"C11|{route}|{d}", f"{tag}: {unit} ({family}, {data}): restored state differs from the original: {d}",
                      dict(info, python=replay_state(src, route, proto, container, d), diffs=diffs)))
        count("state:" + d)
    if not diffs:
        count("state:equal")
    (oo1, ro1) = res["orig-first"]
    (oo2, ro2) = res["restored-first"]
    rsrc = route_src(route, proto, container)
    env = fresh_ns()

    def build():
        ns = dict(env)
        exec(src + rsrc, ns)  # noqa: S102
        return ns["q"], ns["r"]

    for i, (name, opsrc) in enumerate(OPS):
        oc = OPCLASS.get(name, "misc")
        for order, oo, ro in (("orig-first", oo1, ro1), ("restored-first", oo2, ro2)):
            if L.same_outcome(oo[i], ro[i]):
                continue
            mk = ("F", family, unit, warm, route, container, name, order)
            if mk not in _MEMO:
                try:
                    _MEMO[mk] = L.attribute(build, opsrc, order, env)
                except Exception as e:  # noqa: BLE001
                    _MEMO[mk] = "attribution-raised:" + type(e).__name__
            c = _MEMO[mk]
            rp = None
            if c is None:
                # differs only after the other operations of the battery ran (caches seeded by them):
                # attribute by re-running the whole battery with one component repaired at a time
                try:
                    c = L.attribute_battery(build, [s_ for _n, s_ in OPS], i, order, env) or "battery-only"
                except Exception as e:  # noqa: BLE001
                    c = "attribution-raised:" + type(e).__name__
                _MEMO[mk] = c
                rp = replay_follow_battery(src, route, proto, container, i, order, c)
            fails.append((f"C11|{route}|{c}",
                          f"{tag}: {unit} ({family}): `{opsrc}` gives {short(oo[i])} on the original and {short(ro[i])} on the restored object ({order}); cause: {c}",
                          dict(info, python=rp or replay_follow(src, route, proto, container, opsrc, order, c), op=opsrc, order=order, state_diffs=diffs)))
            count("follow-differs:" + oc)
            break
        else:
            count("follow-same:" + oc)
        if not L.same_outcome(oo1[i], oo2[i]):
            mk = ("H", family, unit, warm, route, container, name)
            if mk not in _MEMO:
                try:
                    _MEMO[mk] = L.attribute_history(build, opsrc, env)
                except Exception as e:  # noqa: BLE001
                    _MEMO[mk] = "attribution-raised:" + type(e).__name__
            c = _MEMO[mk] or "battery-only"
            fails.append((f"C11|{route}|history|{c}",
                          f"{tag}: {unit} ({family}): `{opsrc}` on the ORIGINAL gives {short(oo1[i])} alone and {short(oo2[i])} after the restored object ran; cause: {c}",
                          dict(info, python=replay_history(src, route, proto, container, opsrc, c), op=opsrc)))
            count("history-differs:" + oc)
    return fails, counts


REGISTRY_DIFFS = {"added-lost", "default-lost", "removed-default-back", "spurious-row", "modified-default-reset", "row-changed", "unit-system"}


def short(o):
    s = repr(o)
    return s if len(s) < 140 else s[:137] + "..."


# ----------------------------------------------------------------------------------------
# registry contents field by field: registries whose rows differ from the default table in ONE field
# (value | dimensions | offset | prefixable flag, both directions | tex), added / modified / removed
# symbols, through every route incl. the registry-only ones; oracle `c11_lib.contents_check`

REDECL_SYMS = ["mile", "ft", "bar", "AU", "ly", "hr", "lb", "pc", "eV",    # default tex = what add() guesses
               "Msun", "degC", "day", "inch", "degree", "Ω"]           # default tex differs from the guess
REDECL_FIELDS = ["value", "dimensions", "offset", "prefixable", "tex"]
ADD_SRC = {
    "vfoo": ("added-prefixable", "reg.add('vfoo', 3.0, D.length, prefixable=True)\n"),
    "vbar": ("added", "reg.add('vbar', 7.0, D.mass)\n"),
    "vtem": ("added-offset", "reg.add('vtem', 2.0, D.temperature, offset=10.0)\n"),
    "vpre": ("added-prefixable", "reg.add('vpre', 4.0, D.time, tex_repr=r'\\rm{v}', offset=0.5, prefixable=True)\n"),
}


def decl_src(d):
    if d[0] == "redeclare":
        return f"redeclare(reg, {d[1]!r}, {d[2]!r}, {d[3]!r})\n"
    if d[0] == "modify":
        return f"reg.modify({d[1]!r}, reg.lut[{d[1]!r}][0] * 2.0)\n"
    if d[0] == "remove":
        return f"reg.remove({d[1]!r})\n"
    if d[0] == "add":
        return ADD_SRC[d[1]][1]
    raise ValueError(d)


def decl_variant(d, dflt):
    """the seed-independent name of what was done to the symbol"""
    if d[0] == "redeclare":
        if d[2] == "prefixable":
            return "redeclared-prefixable-" + ("off" if dflt[d[1]][4] else "on")
        return "redeclared-" + ("same" if d[2] == "none" else d[2])
    if d[0] == "modify":
        return "modified"
    if d[0] == "remove":
        return "removed"
    return ADD_SRC[d[1]][0]


def content_src(decls, usym, data, route, proto):
    cls, d = DATA[data]
    return ("reset_default_registry()\nreg = UnitRegistry()\n" + "".join(decl_src(x) for x in decls)
            + f"q = {cls}({d}, cold_unit({usym!r}, reg))\n"
            + f"r = restore_contents({route!r}, q, {proto!r})\n")


def content_plan(tier, rng):
    """(label, decls, usym, data, route, protocol) jobs"""
    import pickle
    from unyt._unit_lookup_table import default_unit_symbol_lut as dflt

    protos = list(range(2, pickle.HIGHEST_PROTOCOL + 1))
    syms = [s_ for s_ in REDECL_SYMS if s_ in dflt]

    def own(sym):
        return "km" if sym == "Ω" else sym

    singles, multis = [], []
    for sym in syms:
        for f in REDECL_FIELDS:
            singles.append((f"one:{sym}:{f}", (("redeclare", sym, f, "auto"),), own(sym)))
        if L.symbol_class(sym) == "tex-guess":
            singles.append((f"one:{sym}:prefixable:explicit-tex", (("redeclare", sym, "prefixable", "explicit"),), own(sym)))
    for f in REDECL_FIELDS + ["none"]:
        multis.append((f"all:{f}", tuple(("redeclare", s_, f, "auto") for s_ in syms), "mile"))
    k = rng.randrange(len(REDECL_FIELDS))
    multis.append(("mixed", tuple(("redeclare", s_, REDECL_FIELDS[(i + k) % len(REDECL_FIELDS)], "auto") for i, s_ in enumerate(syms) if s_ != "lb")
                   + (("add", "vfoo"), ("add", "vtem"), ("modify", "g"), ("remove", "lb")), "vfoo"))
    multis.append(("added", tuple(("add", n) for n in ADD_SRC), "vpre"))
    multis.append(("modified:g", (("modify", "g"),), "g"))
    multis.append(("modified:mile", (("modify", "mile"),), "mile"))
    multis.append(("modified:Msun", (("modify", "Msun"),), "Msun"))
    multis.append(("removed:lb", (("remove", "lb"),), "km"))
    multis.append(("removed:bar", (("remove", "bar"),), "km"))
    multis.append(("removed:Msun", (("remove", "Msun"),), "km"))
    multis.append(("added+modified+removed", (("add", "vfoo"), ("add", "vbar"), ("modify", "g"), ("modify", "ft"), ("remove", "lb"), ("remove", "inch")), "kvfoo"))
    jobs = []
    n = 0
    for group, full in ((singles, tier == "thorough"), (multis, True)):
        for label, decls, usym in group:
            for route in L.CONTENT_ROUTES:
                n += 1
                data = "a" if (route == "saveLoadTxt" or n % 2) else "q"
                if route in L.PICKLE_ROUTES:
                    for p in (protos if full else [protos[n % len(protos)]]):
                        jobs.append((label, decls, usym, data, route, p))
                else:
                    jobs.append((label, decls, usym, data, route, None))
    # seeded extras: any symbol of the default table, any field, any route
    allsyms = sorted(dflt)
    for i in range(60 if tier == "quick" else 600):
        sym = rng.choice(allsyms)
        f = rng.choice(REDECL_FIELDS)
        route = rng.choice(L.CONTENT_ROUTES)
        tex = rng.choice(["auto", "explicit"])
        usym = sym if (sym.isascii() and sym.isidentifier()) else "km"
        jobs.append((f"seeded:{f}", (("redeclare", sym, f, tex),), usym, "a", route, rng.choice(protos) if route in L.PICKLE_ROUTES else None))
    return jobs


def content_key(route, variant, cls, observed, spurious_removed):
    if route == "saveLoadTxt":
        return "C11|saveLoadTxt|registry-not-carried"  # a text file carries no registry: one finding for the route
    if variant == "removed" and (observed == "row:spurious" or (spurious_removed and observed.startswith("prefixed:"))):
        return f"C11|{route}|removed-default-back"     # the removed default row is back, and answers again
    return f"C11|{route}|{variant}|{cls}|{observed}"


def _work_contents(jobs):
    from unyt._unit_lookup_table import default_unit_symbol_lut as dflt

    core.quiet_numpy()
    out, seen_keys = [], set()
    for job in jobs:
        label, decls, usym, data, route, proto = job
        src = content_src(decls, usym, data, route, proto)
        variants = {d[1]: decl_variant(d, dflt) for d in decls}
        info = {"registry": label, "unit": usym, "data": data, "route": route, "protocol": proto}
        ns = fresh_ns()
        fails, counts = [], {}
        build, _sep, rest = src.rpartition("r = restore_contents(")
        try:
            exec(build, ns)  # noqa: S102 - harness-generated source
        except Exception as e:  # noqa: BLE001
            out.append((job, None, {"contents:case-not-buildable:" + type(e).__name__: 1}))
            continue
        try:
            exec(_sep + rest, ns)  # noqa: S102
            obs = L.contents_check(ns["q"], ns["r"])
        except Exception as e:  # noqa: BLE001
            usv = variants.get(usym, variants.get(usym[1:], "untouched"))
            key = ("C11|saveLoadTxt|registry-not-carried" if route == "saveLoadTxt" and usv.startswith("added")
                   else f"C11|{route}|{usv}|{L.symbol_class(usym if usym in variants else usym[1:] if usym[1:] in variants else usym)}|raises:{type(e).__name__}")
            fails.append((key, f"{route} (protocol {proto}), registry {label}: restoring a {usym} object or reading the restored registry raised {type(e).__name__}: {e}",
                          dict(info, python=PRE + src + "contents_check(q, r)\n")))
            obs = []
            counts["contents:raises"] = 1
        spurious = {k for k, o, _d in obs if o == "row:spurious"}
        for sym, observed, detail in obs:
            variant = variants.get(sym, "untouched")
            key = content_key(route, variant, L.symbol_class(sym), observed, sym in spurious)
            counts["contents:differs:" + observed] = counts.get("contents:differs:" + observed, 0) + 1
            if (key, label) in seen_keys:
                continue
            seen_keys.add((key, label))
            fails.append((key, f"{route} (protocol {proto}), registry {label}: {sym} ({variant}): {observed}: {detail}",
                          dict(info, symbol=sym, observed=observed, python=PRE + src
                               + f"obs = contents_check(q, r)\nbad = [o for o in obs if o[0] == {sym!r} and o[1] == {observed!r}]\n"
                               + "assert not bad, ('the restored registry does not have the contents of the original', bad)\n")))
        if not obs and not fails:
            counts["contents:equal"] = 1
        for v in set(variants.values()):
            counts["contents:variant:" + v] = counts.get("contents:variant:" + v, 0) + 1
        out.append((job, fails, counts))
    # one replay per key is enough for the report: keep the first of each key in this chunk
    kept = set()
    for _job, fails, _c in out:
        if fails:
            fails[:] = [f for f in fails if not (f[0] in kept or kept.add(f[0]))]
    return out


# ----------------------------------------------------------------------------------------
# wire encoding for the model


def default_rows():
    ex = gen.extract()
    return ex["lut"]


def entry_wire(k, v):
    return f"{k}&{core.f2b(v[0])}&{core.f2b(v[2])}&{gen.dim_vec(v[1])}&{1 if v[4] else 0}"


def reg_fields(reg):
    """extra rows / removed keys / non-canonical base-symbol rows / unit system"""
    from unyt._unit_lookup_table import default_unit_symbol_lut as dflt

    extra, non = [], []
    marked = getattr(reg, "_derived_symbols", None) or ()
    for k, v in reg.lut.items():
        if k in marked:
            # a written-back prefixed entry the registry itself knows to be derived: a cache of what the
            # other rows imply (forgotten on every edit, not persisted), not part of the contents
            continue
        dv = dflt.get(k)
        if dv is None or not L.same_entry(dv, v):
            extra.append(entry_wire(k, v))
        if L.base3_row_lost(v):
            non.append(k)
    removed = [k for k in dflt if k not in reg.lut]
    return ["|".join(extra), ",".join(removed), ",".join(non), getattr(reg.unit_system, "name", "mks")]


def obj_fields(q):
    u = q.units
    c, fac = gen.expr_wire(u.expr)
    ident = L.dim_identity(u)
    vals = ",".join(str(core.f2b(v)) for v in np.asarray(q.d, dtype="float64").ravel())
    return ([str(q.dtype), "1" if type(q).__name__ == "unyt_quantity" else "0", vals, str(core.f2b(u.base_value)), str(core.f2b(u.base_offset)),
             gen.dim_vec(u.dimensions), str(c), fac, "0" if ident == "lost" else "1"] + reg_fields(u.registry))


def expr_field(name):
    from unyt import Unit

    c, fac = gen.expr_wire(Unit(name).expr)
    return f"{c}@{fac}"


def parse_obj_reply(rep):
    """ok dtype isQ vals scale off dim coeff factors canon extra removed non usys"""
    d = {"dtype": rep[1], "isq": rep[2] == "1", "vals": [core.b2f(b) for b in rep[3].split(",")] if rep[3] else [],
         "scale": core.b2f(rep[4]), "offset": core.b2f(rep[5]), "dim": rep[6], "coeff": core.b2f(rep[7]),
         "factors": gen.parse_factors(rep[8]), "canon": rep[9] == "1"}
    extra = {}
    if rep[10]:
        for item in rep[10].split("|"):
            n, sc, off, dm, p = item.split("&")
            extra[n] = (core.b2f(sc), core.b2f(off), dm, p == "1")
    d["extra"] = extra
    d["removed"] = set(rep[11].split(",")) if rep[11] else set()
    d["non"] = rep[12]
    d["usys"] = rep[13]
    return d


MODEL_OPS = {
    "sin": ["unary", "sin"], "cos": ["unary", "cos"], "tan": ["unary", "tan"],
    "add_degC": ["binaryQ", "add", "@degC", "1.0"], "add_K": ["binaryQ", "add", "@K", "1.0"],
    "add_ddegC": ["binaryQ", "add", "@delta_degC", "1.0"],
    "sub_self": ["binarySelf", "subtract"], "add_self": ["binarySelf", "add"], "mul_self": ["binarySelf", "multiply"],
    "unit_mul_m": ["mulUnit", "@m"], "unit_mul_dB": ["mulUnit", "@dB"], "unit_pow2": ["powUnit", "2"],
    "in_base": ["inBase", "-"], "in_cgs": ["inBase", "cgs"], "in_mks": ["inBase", "mks"], "in_imperial": ["inBase", "imperial"],
}
for _t in TO_TARGETS:
    MODEL_OPS["to_" + _t] = ["toUnit", "@" + _t]
MODEL_VALUES = {"sin", "cos", "tan", "in_base", "in_cgs", "in_mks", "in_imperial"} | {"to_" + t for t in TO_TARGETS}


def op_fields(spec, reg):
    out = []
    for s in spec:
        if s.startswith("@"):
            from unyt import Unit

            c, fac = gen.expr_wire(Unit(s[1:], registry=reg).expr)
            out.append(f"{c}@{fac}")
        elif s in ("1.0",):
            out.append(str(core.f2b(float(s))))
        else:
            out.append(s)
    return out


def is_em(u):
    import unyt.dimensions as D

    return D.current_mks in u.dimensions.atoms()


# ----------------------------------------------------------------------------------------
# workers


def _work(args):
    core.quiet_numpy()
    jobs = args
    out = []
    for (family, unit, data, warm, route, proto, container) in jobs:
        src = case_src(family, unit, data, warm)
        try:
            res = run_pair(src, route, proto, container)
        except Exception as e:  # noqa: BLE001 - the CASE itself could not be built
            res = {"build-error": f"{type(e).__name__}: {e}"}
        job = (family, unit, data, warm, route, proto, container)
        if "build-error" in res:
            out.append((job, None, {"case-not-buildable": 1}))
            continue
        try:
            fails, counts = judge_job(job, src, res)
        except Exception as e:  # noqa: BLE001
            import traceback

            fails, counts = [("C11|harness|judge-raised", traceback.format_exc()[-600:], {})], {}
        out.append((job, fails, counts))
    return out


def chunks(xs, n):
    k = max(1, (len(xs) + n - 1) // n)
    return [xs[i:i + k] for i in range(0, len(xs), k)]


def plan(tier, rng):
    """the (family, unit, data, warm, route, protocol, container) jobs: a fixed core + seeded extras"""
    import pickle

    jobs = []
    protos = list(range(2, pickle.HIGHEST_PROTOCOL + 1))
    for fam, units in CORE_UNITS.items():
        for u in units:
            for route in L.ROUTES:
                jobs.append((fam, u, "a", False, route, None, False))
            if fam.startswith(AFTER):
                # the second step of a history: every route (above), a bare Unit under a rotating pickle
                # protocol, and the warm path of Unit.copy
                jobs.append((fam, u, "q", False, "pickleUnit", protos[len(jobs) % len(protos)], False))
                jobs.append((fam, u, "a", True, "unitCopy", None, False))
                continue
            # quantities, warm units, containers, explicit protocols on a rotating subset
            jobs.append((fam, u, "q", False, "pickleArray", protos[len(jobs) % len(protos)], False))
            jobs.append((fam, u, "q", True, "deepcopyArray", None, False))
            jobs.append((fam, u, "a", True, "unitCopy", None, False))
            jobs.append((fam, u, "a", True, "unitOfStr", None, False))
            jobs.append((fam, u, "a", False, "pickleArray", protos[(len(jobs) + 1) % len(protos)], True))
    for d in ("a2", "i", "f4", "p"):
        for route in L.ROUTES:
            if route == "saveLoadTxt" and d != "p":
                continue  # a text file of %.18e columns: 1-D float64 data only
            jobs.append(("default", "km", d, False, route, None, False))
            jobs.append(("default", "degree", d, False, route, None, False))
    # seeded extras: table symbols and generated compounds, default and custom registries
    ex = gen.extract()
    syms = [k for k in ex["lut"] if k not in ("delta_degC", "delta_degF")]
    n_extra = 30 if tier == "quick" else 400
    for i in range(n_extra):
        if rng.random() < 0.5:
            s = rng.choice(syms)
            if ex["lut"][s][3] and rng.random() < 0.3:
                s = rng.choice(["k", "m", "M", "da", "n"]) + s
        else:
            s = gen.random_compound(rng, max_factors=3)
        fam = rng.choice(["default", "default", "added", "modified-default", "removed-default", "unit-system"])
        route = rng.choice(L.ROUTES)
        proto = rng.choice(protos) if route.startswith("pickle") else None
        jobs.append((fam, s, "a" if route == "saveLoadTxt" else rng.choice(["a", "q", "a2"]), rng.random() < 0.3, route, proto,
                     route == "pickleArray" and rng.random() < 0.2))
    if tier == "thorough":
        for fam, units in CORE_UNITS.items():
            for u in units:
                if fam.startswith(AFTER) and u != "vfoo":
                    continue
                for p in protos:
                    for r in ("pickleArray", "pickleUnit"):
                        jobs.append((fam, u, "q", False, r, p, False))
                for route in L.ROUTES:
                    jobs.append((fam, u, "q", True, route, None, False))
    # a text file holds columns: `loadtxt` returns arrays (a 0-d array for one number), whatever was
    # written — the class of the result is C16's business, so this route is run on arrays only
    jobs = [(f, u, ("a" if (r == "saveLoadTxt" and d not in ("a", "p")) else d), w, r, p, c) for (f, u, d, w, r, p, c) in jobs]
    seen, out = set(), []
    for j in jobs:
        if j not in seen:
            seen.add(j)
            out.append(j)
    return out


# ----------------------------------------------------------------------------------------
# correspondence with the model


def correspond(chk, tier, rng):
    """cold objects: model `restore` / `guard` / `follow` vs the real library"""
    from unyt import Unit  # noqa: F401

    model = core.Model("drv_c11")
    # (a) the table the driver holds is the table the translator measured
    try:
        ex = core.json.load(open(os.path.join(core.BUILD, "extract_c11_routes.json"), encoding="utf-8"))
        rep = model.ask(["c11.routes"])[0]
        held = dict(item.split("=") for item in rep[1:])
        for r in L.ROUTES:
            want = "".join("1" if ex["flags"][r][k] else "0" for k in L.FLAG_ORDER)
            chk.count("dump:route-row")
            if held.get(r) != want:
                chk.disagree("c11.routes", f"{r}: driver holds {held.get(r)}, translator measured {want}")
        live = {r: L.probe_route(r)[0] for r in L.ROUTES}
        for r in L.ROUTES:
            if live[r] != ex["flags"][r]:
                chk.disagree("c11.routes", f"{r}: probes in the harness process {live[r]} differ from the translator's {ex['flags'][r]}")
    except Exception as e:  # noqa: BLE001
        chk.disagree("c11.routes", repr(e))
        return
    # (a') the per-origin table: driver vs translator; origins the harness sees vs the translator's
    rep_of = {}
    try:
        exo = core.json.load(open(os.path.join(core.BUILD, "extract_c11_routes_origins.json"), encoding="utf-8"))
        rep_of = exo["origin_rep"]
        rep = model.ask(["c11.origins"])[0]
        held = dict(item.split("=") for item in rep[1:])
        for r1 in exo["reps"]:
            for r in L.ROUTES:
                want = "".join("1" if exo["flags"][r1][r][k] else "0" for k in L.FLAG_ORDER)
                chk.count("dump:origin-row")
                if held.get(f"{r1}/{r}") != want:
                    chk.disagree("c11.origins", f"{r1}/{r}: driver holds {held.get(r1 + '/' + r)}, translator measured {want}")
        if sorted(exo["private"]) != sorted(ORIGIN_ROUTES):
            chk.disagree("c11.origins", f"routes yielding a private registry: harness {ORIGIN_ROUTES}, translator {exo['private']}")
    except Exception as e:  # noqa: BLE001
        chk.disagree("c11.origins", repr(e))
    # (b) restore + follow-ups
    cases = []
    for fam, units in CORE_UNITS.items():
        for u in units:
            cases.append((fam, u, "a"))
            if tier == "thorough" or fam == "default":
                cases.append((fam, u, "q"))
    cases += [("default", "km", "i"), ("default", "degree", "f4"), ("added", "vfoo", "a2")]
    if tier == "thorough":
        ex2 = gen.extract()
        syms = [k for k in ex2["lut"]]
        # compounds over non-logarithmic symbols: a product containing a power of B / Np is refused or
        # accepted by `Unit.simplify()` inside `_multiply_units`, which the follow-up context takes as a
        # parameter (C04/C05 model it); atomic logarithmic units are in the core set
        plain = [k for k, v in ex2["lut"].items() if v[2][7] == "0" and v[1] == 0]
        for _ in range(150):
            cases.append((rng.choice(["default", "added", "modified-default", "removed-default", "unit-system"]),
                          rng.choice(syms) if rng.random() < 0.6 else gen.random_compound(rng, max_factors=3, pool=plain), rng.choice(["a", "q"])))
    lines, meta = [], []
    FEW = ["sin", "cos", "add_degC", "add_K", "sub_self", "mul_self", "unit_mul_m", "unit_mul_dB", "unit_pow2", "in_base", "in_cgs",
           "to_deg", "to_K", "to_kg", "to_m", "to_vfoo"]

    def add_follow(x, fam, unit, data, where, names):
        try:
            xf = obj_fields(x)
        except ValueError:
            return
        R = x.units.registry
        env = fresh_ns()
        env["x"] = x
        env["R"] = R
        try:
            own = gen.expr_wire(x.units.expr)[1]
        except ValueError:
            own = "?"
        L.clear_caches()
        for name in names:
            spec = MODEL_OPS[name]
            if name.startswith("in_") and (is_em(x.units) or (where != "original" and fam in ("modified-default", "stale", "stale-quantity"))):
                # EM units: C10's known rows.  A restored unit whose carried data disagrees with its
                # registry: `get_base_equivalent` answers from the unit system's memo (process-wide,
                # filled by earlier calls) — C10's memo model, direct oracle here
                continue
            try:
                fields = op_fields(spec, R)
            except Exception:  # noqa: BLE001 - the target does not exist in this registry
                continue
            if where != "original" and any(f.endswith("@" + own) for f in fields):
                # `Unit.copy` stores the copy in the (new or shared) registry's string cache under its own
                # string, so `Unit(<that string>, registry=…)` answers with the copy: warm path, oracle only
                chk.count("corr:own-string-target-skipped")
                continue
            ro = L.outcome(lambda s=dict(OPS)[name]: eval(s, env))  # noqa: S307
            lines.append("\t".join(["c11.follow"] + xf + fields))
            meta.append(("follow", fam, unit, data, where, name, ro))
        try:  # a two-step program
            fields = ["1"] + op_fields(["toUnit", "@deg"], R) + ["unary", "sin"]
            ro = L.outcome(lambda: eval("np.sin(x.to('deg'))", env))  # noqa: S307
            lines.append("\t".join(["c11.prog"] + xf + fields))
            meta.append(("follow", fam, unit, data, where, "sin_to_deg", ro))
        except Exception:  # noqa: BLE001
            pass

    for fam, unit, data in cases:
        src = case_src(fam, unit, data, False)
        for route in L.ROUTES:
            if route == "saveLoadTxt" and data not in ("a", "q"):
                continue
            ns = fresh_ns()
            try:
                exec(src, ns)  # noqa: S102
            except Exception:  # noqa: BLE001
                chk.count("corr:case-not-buildable")
                break
            q = ns["q"]
            try:
                of = obj_fields(q)
            except ValueError:
                chk.count("corr:outside-vocabulary")
                break
            if route in ("unitCopy", "unitOfStr") and str(q.units.expr) in q.units.registry._unit_object_cache:
                # the registry's string cache already holds this unit (always so for atomic units of the
                # default registry): the route returns the cached object; the model is the miss path
                chk.count("corr:warm-string-cache-skipped")
                continue
            try:
                r = L.restore(route, q)
                real = ("ok", r, snapshot(q, r))
            except Exception as e:  # noqa: BLE001
                real = ("err", type(e).__name__)
            if fam.startswith(AFTER):
                # second step of a history: the configuration is looked up for the ORIGIN of the registry
                o = rep_of.get(fam[len(AFTER):], fam[len(AFTER):])
                lines.append("\t".join(["c11.restoreAt", o, route] + of))
                meta.append(("restore", fam, unit, data, route, q, real))
                lines.append("\t".join(["c11.guardAt", o, route] + of))
                meta.append(("guard", fam, unit, data, route, q, real))
                chk.count("corr:second-step")
                if data == "a" and unit == "km":
                    # a longer history in the model: add a row, copy (same Unit: the origin stays), add
                    # another row, persist on `route` — against the library doing the same
                    try:
                        ns2 = fresh_ns()
                        exec(case_src("default", "km", "a", False).replace("reg = default_unit_registry\n", f"reg = origin_registry({fam[len(AFTER):]!r})\n"), ns2)  # noqa: S102
                        q0 = ns2["q"]
                        of0 = obj_fields(q0)
                        import unyt.dimensions as D
                        q0.units.registry.add("vfoo", 3.0, D.length, prefixable=True)
                        a1 = entry_wire("vfoo", q0.units.registry.lut["vfoo"])
                        q1 = L.restore("arrayCopy", q0)
                        q1.units.registry.add("vang", 0.5, D.angle)
                        a2 = entry_wire("vang", q1.units.registry.lut["vang"])
                        try:
                            r2 = L.restore(route, q1)
                            real2 = ("ok", r2, snapshot(q1, r2))
                        except Exception as e:  # noqa: BLE001
                            real2 = ("err", type(e).__name__)
                        lines.append("\t".join(["c11.chain", o] + of0 + ["2", a1, "", "arrayCopy", a2, "", route]))
                        meta.append(("chain", fam, unit, data, route, q1, real2))
                    except Exception as e:  # noqa: BLE001
                        chk.disagree("c11.chain", f"{fam} {route}: could not run the history: {e!r}")
            else:
                lines.append("\t".join(["c11.restore", route] + of))
                meta.append(("restore", fam, unit, data, route, q, real))
                lines.append("\t".join(["c11.guard", route] + of))
                meta.append(("guard", fam, unit, data, route, q, real))
            if data != "a" or real[0] != "ok":
                continue
            if route == "arrayCopy":
                add_follow(q, fam, unit, data, "original", list(MODEL_OPS))
            elif route in ("pickleArray", "deepcopyArray", "unitCopy", "registryJson"):
                add_follow(real[1], fam, unit, data, route + ":restored", FEW)
    try:
        replies = model.ask(lines)
    except Exception as e:  # noqa: BLE001
        chk.disagree("driver", repr(e))
        return
    for rep, m in zip(replies, meta):
        if m[0] == "restore":
            compare_restore(chk, rep, m)
        elif m[0] == "guard":
            compare_guard(chk, rep, m)
        elif m[0] == "chain":
            chk.count("corr:chain")
            if rep[0] == "ok":
                # ok <final origin> <chainGuard> obj…
                compare_guard(chk, ["ok", rep[2]], ("guard",) + m[1:])
                compare_restore(chk, ["ok"] + rep[3:], ("restore",) + m[1:])
            else:
                compare_restore(chk, rep, ("restore",) + m[1:])
        else:
            compare_follow(chk, rep, m)


ERRMAP = {"AttributeError": "Other", "IndexError": "Other", "ZeroDivisionError": "Other"}


def snapshot(q, r):
    """everything the comparison reads off the restored object, taken right after restoring
    (later follow-ups write prefixed rows back into the registries)"""
    u = r.units
    lut = u.registry.lut
    try:
        fac = gen.unit_factors(u)
    except ValueError:
        fac = None
    return {"dtype": str(r.dtype), "cls": type(r).__name__, "vals": [float(v) for v in np.asarray(r.d, dtype="float64").ravel()],
            "scale": float(u.base_value), "offset": float(u.base_offset), "dim": gen.dim_vec(u.dimensions), "factors": fac,
            "expr": str(u.expr), "ident": L.dim_identity(u), "reg": reg_fields(u.registry),
            "derived": {k for k in lut if L.is_derived(k, lut)},
            "b3keys": {k for k, v in lut.items() if L.base3_row(v)},
            "diff": L.state_diff(q, r)}


def compare_restore(chk, rep, m):
    _k, fam, unit, data, route, q, real = m
    chk.count("corr:restore:" + route)
    chk.case(("restore", fam, unit, data, route), {"family": fam, "unit": unit, "data": data, "route": route, "real": real[0]} if len(chk.samples) < 6 else None)
    where = f"{route} {unit} ({fam},{data})"
    if real[0] == "err":
        if rep[0] != "err" or rep[1] != ERRMAP.get(real[1], real[1]):
            chk.disagree("c11.restore", f"{where}: implementation raised {real[1]}, model {rep[:2]}")
        return
    if rep[0] != "ok":
        chk.disagree("c11.restore", f"{where}: implementation restored, model {rep[:2]}")
        return
    S = real[2]
    d = parse_obj_reply(rep)
    probs = []
    if d["dtype"] != S["dtype"]:
        probs.append(f"dtype {d['dtype']} vs {S['dtype']}")
    if d["isq"] != (S["cls"] == "unyt_quantity"):
        probs.append(f"class quantity={d['isq']} vs {S['cls']}")
    rv = S["vals"]
    if len(rv) != len(d["vals"]) or any(core.f2b(a) != core.f2b(b) for a, b in zip(rv, d["vals"])):
        probs.append("values")
    if not core.close(d["scale"], S["scale"]) or not core.close(d["offset"], S["offset"], atol=1e-300):
        probs.append(f"unit data ({d['scale']},{d['offset']}) vs ({S['scale']},{S['offset']})")
    if d["dim"] != S["dim"]:
        probs.append("unit dimension")
    if S["factors"] is not None and S["factors"] != d["factors"]:
        probs.append(f"unit expression {d['factors']} vs {S['expr']}")
    ident = S["ident"]
    if ident is not None and len(d["factors"]) == 1 and d["canon"] != (ident == "canon"):
        probs.append(f"identity bit {d['canon']} vs {ident}")
    rf = S["reg"]
    real_extra = {}
    if rf[0]:
        for item in rf[0].split("|"):
            n, sc, off, dm, p = item.split("&")
            real_extra[n] = (core.b2f(sc), core.b2f(off), dm, p == "1")
    me = dict(d["extra"])
    for k in set(real_extra) | set(me):
        a, b = real_extra.get(k), me.get(k)
        if a is None or b is None:
            # written-back prefixed rows exist on one side only when only that side looked the symbol up
            if k in S["derived"] or (a is None and b is not None and False):
                continue
            probs.append(f"row {k}: implementation {a}, model {b}")
        elif not core.close(a[0], b[0]) or a[2:] != b[2:] or not core.close(a[1], b[1], atol=1e-300):
            probs.append(f"row {k}: implementation {a}, model {b}")
    real_removed = set(rf[1].split(",")) if rf[1] else set()
    if real_removed != d["removed"]:
        probs.append(f"removed defaults {sorted(real_removed)} vs {sorted(d['removed'])}")
    real_non = set(rf[2].split(",")) if rf[2] else set()
    b3keys = S["b3keys"]
    if d["non"] == "*":
        model_non = set(b3keys)
    else:
        model_non = (set(d["non"].split(",")) if d["non"] else set()) & b3keys
    real_non -= S["derived"]
    model_non -= S["derived"]
    if real_non != model_non:
        probs.append(f"row identity: lost in the implementation only {sorted(real_non - model_non)[:6]}, in the model only {sorted(model_non - real_non)[:6]}")
    if rf[3] != d["usys"]:
        probs.append(f"unit system {rf[3]} vs {d['usys']}")
    if probs:
        chk.disagree("c11.restore", f"{where}: " + "; ".join(probs[:4]))


# components of the real state that the Lean model does not carry (direct oracle only)
UNMODELLED_STATE = {"derived-marks-lost"}


def compare_guard(chk, rep, m):
    """the model's guard says the round trip is exact -> the real restored state must be the original"""
    _k, fam, unit, data, route, q, real = m
    chk.count("corr:guard")
    if rep[0] != "ok":
        chk.disagree("c11.guard", f"{route} {unit}: {rep[:2]}")
        return
    if rep[1] == "1":
        chk.count("corr:guard-true")
        if real[0] != "ok":
            chk.disagree("c11.guard", f"{route} {unit} ({fam}): guard holds but the implementation raised {real[1]}")
        else:
            d = [x for x in real[2]["diff"] if x not in UNMODELLED_STATE]
            if d:
                chk.disagree("c11.guard", f"{route} {unit} ({fam}): guard holds but the restored state differs: {d}")


def compare_follow(chk, rep, m):
    _k, fam, unit, data, where, name, ro = m
    chk.count("corr:follow:" + OPCLASS.get(name, "misc"))
    chk.case(("follow", fam, unit, data, where, name))
    loc = f"{where} {unit} ({fam},{data}) {name}"
    if ro[0] == "exc":
        want = ERRMAP.get(ro[1], ro[1])
        if rep[0] != "err" or rep[1] != want:
            chk.disagree("c11.follow", f"{loc}: implementation raised {ro[1]}, model {rep[:3]}")
        return
    if rep[0] != "ok":
        chk.disagree("c11.follow", f"{loc}: implementation returned {short(ro)}, model {rep[:2]}")
        return
    if ro[0] == "unit":
        ud = ro[1]
        vals = None
    elif ro[0] == "q":
        ud = ro[2]
        vals = ro[1]
    else:
        ud = None
        vals = ro[1]
    if ud is None:
        if rep[2] != "none":
            chk.disagree("c11.follow", f"{loc}: implementation returned a plain value, model a unit")
    else:
        if rep[2] == "none":
            chk.disagree("c11.follow", f"{loc}: implementation returned unit {ud}, model none")
            return
        sc, off, dm = core.b2f(rep[2]), core.b2f(rep[3]), rep[4]
        if name in ("mul_self",):
            # `_multiply_units` simplifies and splits a coefficient off (C04's business): only refusal
            # vs result is compared for products
            return
        if not core.close(sc, ud[1], rtol=1e-9) or not core.close(off, ud[2], rtol=1e-9, atol=1e-300):
            chk.disagree("c11.follow", f"{loc}: unit data model ({sc},{off}) vs implementation ({ud[1]},{ud[2]})")
    if name in MODEL_VALUES or name == "sin_to_deg":
        mv = [core.b2f(b) for b in rep[1].split(",")] if rep[1] else []
        rv = [float(v) for v in np.asarray(vals, dtype="float64").ravel()] if vals is not None else []
        if len(mv) != len(rv) or any(not core.close(a, b, rtol=1e-9, atol=1e-12) for a, b in zip(mv, rv)):
            chk.disagree("c11.follow", f"{loc}: numbers model {mv[:3]} vs implementation {rv[:3]}")


# ----------------------------------------------------------------------------------------
# witnesses of the counterexample theorems, replayed on the real code


WITNESSES = [
    # (theorem, route, setup, op source or None, the theorem says the round trip FAILS here)
    ("identity_kept_on_every_route", "pickleArray", "reg = default_unit_registry\nq = unyt_quantity(90.0, cold_unit('degree', reg))\n", "np.sin(x)", False),
    ("identity_kept_on_every_route", "deepcopyArray", "reg = default_unit_registry\nq = unyt_quantity(300.0, cold_unit('K', reg))\n",
     "x + unyt_quantity(1.0, 'degC', registry=R)", False),
    ("identity_kept_on_every_route", "pickleUnit", "reg = default_unit_registry\nq = unyt_quantity(3.0, cold_unit('dB', reg))\n", "x.units * Unit('m', registry=R)", False),
    ("identity_kept_on_every_route", "unitCopy", "reg = UnitRegistry()\nq = unyt_quantity(90.0, cold_unit('degree', reg))\n", "np.sin(x)", False),
    ("guards_inhabited", "deepcopyArray", "reg = UnitRegistry()\nreg.modify('g', 2.0)\nq = unyt_quantity(2.0, cold_unit('g', reg))\n", "x.to('kg')", False),
    ("guards_inhabited", "deepcopyArray", "reg = UnitRegistry()\nreg.remove('lb')\nq = unyt_quantity(2.0, cold_unit('km', reg))\n", None, False),
    ("guards_inhabited", "deepcopyUnit", "reg = UnitRegistry(unit_system='cgs')\nq = unyt_quantity(2.0, cold_unit('km', reg))\n", "x.in_base()", False),
    ("guards_reject_witnesses", "pickleArray", "reg = default_unit_registry\nq = unyt_quantity(2.0, cold_unit('delta_degC', reg))\n", None, False),
    ("C11_counterexample", "pickleArray", "reg = UnitRegistry()\nreg.add('vfoo', 3.0, D.length)\nq = unyt_quantity(2.0, cold_unit('vfoo', reg))\nreg.modify('vfoo', 5.0)\n", None, True),
    ("other_defects_show", "pickleArray", "reg = UnitRegistry()\nreg.remove('lb')\nq = unyt_quantity(2.0, cold_unit('km', reg))\n", None, True),
    ("other_defects_show", "registryJson", "reg = UnitRegistry(unit_system='cgs')\nq = unyt_quantity(2.0, cold_unit('km', reg))\n", "x.in_base()", True),
    ("other_defects_show", "unitOfStr", "reg = UnitRegistry()\nreg.add('vfoo', 3.0, D.length)\nq = unyt_quantity(2.0, cold_unit('vfoo', reg))\nreg.modify('vfoo', 5.0)\n", None, True),
    ("other_defects_show", "saveLoadTxt", "reg = UnitRegistry()\nreg.add('vfoo', 3.0, D.length)\nq = unyt_array(np.array([2.0]), cold_unit('vfoo', reg))\n", None, True),
]


def replay_witnesses(chk):
    for thm, route, setup, opsrc, expect_fail in WITNESSES:
        ns = fresh_ns()
        exec(setup, ns)  # noqa: S102
        q = ns["q"]
        chk.count("witness")
        try:
            r = L.restore(route, q)
        except Exception as e:  # noqa: BLE001
            chk.count("witness:restore-raises")
            fails = True
            what = f"restore raised {type(e).__name__}"
        else:
            if opsrc is None:
                d = L.state_diff(q, r)
                fails = bool(d)
                what = f"state differs: {d}"
            else:
                L.clear_caches()
                env = dict(ns)
                oq = L.outcome(lambda: eval(opsrc, dict(env, x=q, R=q.units.registry)))  # noqa: S307
                orr = L.outcome(lambda: eval(opsrc, dict(env, x=r, R=r.units.registry)))  # noqa: S307
                fails = not L.same_outcome(oq, orr)
                what = f"{opsrc}: {short(oq)} vs {short(orr)}"
        if fails != expect_fail:
            chk.disagree("witness", f"{thm} ({route}): the theorem's witness {'does not fail' if expect_fail else 'fails'} on the real code — {what}")


# ----------------------------------------------------------------------------------------


def run(tier, seed):
    chk = core.Check("C11", tier, seed)
    chk.proof = core.prove("C11", PROOF_MODULES, extra_targets=("drv_c11",), tier=tier)
    rng = chk.rng
    t0 = time.time()
    # --- direct oracle: started first, in 3 worker processes, collected after the correspondence ---
    jobs = plan(tier, rng)
    nproc = 3
    pool = multiprocessing.get_context("fork").Pool(nproc)
    pending = pool.map_async(_work, chunks(jobs, nproc * 8))
    pool.close()
    cjobs = content_plan(tier, rng)
    cpool = multiprocessing.get_context("fork").Pool(4)
    cpending = cpool.map_async(_work_contents, chunks(cjobs, 4 * 6))
    cpool.close()
    # --- correspondence (this process) ----------------------------------------------------------
    if chk.proof["build_ok"] or os.path.exists(os.path.join(core.LEAN, ".lake", "build", "bin", "drv_c11")):
        try:
            correspond(chk, tier, rng)
        except Exception as e:  # noqa: BLE001
            import traceback

            chk.disagree("harness", traceback.format_exc()[-1500:] or repr(e))
    chk.extra["correspondence_wall_s"] = round(time.time() - t0, 1)
    replay_witnesses(chk)
    recs = []
    for part in pending.get():
        recs.extend(part)
    pool.join()
    for job, fails, counts in recs:
        family, unit, data, warm, route, proto, container = job
        for b, n in counts.items():
            chk.count(b, n)
        if fails is None:
            continue
        chk.case(job, {"family": family, "unit": unit, "data": data, "warm": warm, "route": route, "protocol": proto, "container": container}
                 if len(chk.samples) < 12 else None)
        chk.count("route:" + route)
        chk.count("family:" + family)
        for key, what, replay in fails:
            chk.fail(key, what, replay)
    chk.extra["oracle_wall_s"] = round(time.time() - t0, 1)
    crecs = []
    for part in cpending.get():
        crecs.extend(part)
    cpool.join()
    for job, fails, counts in crecs:
        label, decls, usym, data, route, proto = job
        for b, n in counts.items():
            chk.count(b, n)
        if fails is None:
            continue
        chk.case(("contents",) + job, None)
        chk.count("contents:route:" + route)
        for key, what, replay in fails:
            chk.fail(key, what, replay)
    chk.extra["contents_wall_s"] = round(time.time() - t0, 1)
    chk.assumptions = [
        "sympy's parser/printer round trip of unit expressions (C20) and the identity of sympy objects after pickle/deepcopy are observed, not derived",
        "pickle protocols 0 and 1 are refused by sympy itself (NotImplementedError in sympy.core.basic) and are outside the claim",
        "the string caches are modelled on their miss path; warm paths are covered by the direct oracle only",
    ]
    rule = ("(family, unit, data, warm/cold, route, pickle protocol, container) cases: every route x core units of 7 registry families "
            "(default, added symbols, modified default, removed default, unit system, objects created before modify) and of the two-step-history "
            "families `after-<route1>` (the registry a route hands back for a default-registry quantity, user units added, persisted again) "
            "+ seeded table symbols and "
            "generated compounds; each case runs the 44-operation follow-up battery on original and restored in both orders; "
            "registry-contents cases (registry, unit, data, route incl. registry-only routes, protocol): default symbols re-declared with ONE field "
            "changed (value, dimensions, offset, prefixable flag either way, tex) singly and together, added / modified / removed symbols, "
            "rows and prefixed spellings compared field by field; "
            "distinct = distinct case tuples and distinct (restore|follow, family, unit, data, route, op) correspondence lines")
    return chk.finish(rule)
