"""C17 — conversions and mixed-unit arithmetic never truncate to integers.

Direct oracle (never consults the model): for every dtype x route x scalar/array x unit pair the
result dtype must be the float of the same item size (float16 for 1-byte integers; raising is
accepted only there), floats/complex keep their dtype, and the values must be the exact rational
conversion (fractions, hand-written exact factors) rounded to the result dtype — within a few
ulps of that dtype, i.e. never integer-truncated; copy and in-place routes must agree; a
RuntimeWarning must be issued whenever a converted integer is not representable in the result
float.  The same for the converted second operand of mixed-unit binary ufuncs and for `out=`.

Correspondence: the compiled Lean model (drv_c17: dtype of every route, binary operand/result,
out promotion, LARGE_INPUT warning, bit-exact value path at binary16/32/64) against the library on
the same inputs; the regenerated tables are read back through dump opcodes.
"""
import itertools
import math
import os
import warnings
from fractions import Fraction

import numpy as np

import core

PROOF_MODULES = ["UnytProofs.C17", "UnytProofs.C17Observed", "UnytProofs.C17Chains", "UnytProofs.C17Factor", "UnytProofs.C17Offset", "UnytProofs.Real.C17Real"]

PREC = {2: 11, 4: 24, 8: 53, 16: 64}
# precision the *values* can have: the conversion factor is a Python float (binary64)
VPREC = {2: 11, 4: 24, 8: 53, 16: 53}
FMAX = {2: Fraction(65504), 4: Fraction(2) ** 128, 8: Fraction(2) ** 1024, 16: Fraction(2) ** 16384}
FMIN = {2: Fraction(1, 2 ** 14), 4: Fraction(1, 2 ** 126), 8: Fraction(1, 2 ** 1022), 16: Fraction(1, 2 ** 16382)}

# hand-written exact conversions: new = old * factor - offset   (SI brochure / international yard & pound)
PAIRS = [
    ("km", "m", Fraction(1000), Fraction(0)),
    ("m", "km", Fraction(1, 1000), Fraction(0)),
    ("km", "mile", Fraction(15625, 25146), Fraction(0)),
    ("km", "km", Fraction(1), Fraction(0)),
    ("hr", "s", Fraction(3600), Fraction(0)),
    ("inch", "cm", Fraction(254, 100), Fraction(0)),
    ("degC", "K", Fraction(1), Fraction(-27315, 100)),
    ("degF", "degC", Fraction(5, 9), Fraction(160, 9)),  # formed as (5/9)*459.67 - 273.15: see CANCEL
    ("C", "statC", Fraction(2997924580), Fraction(0)),  # EM branch (CGS <-> SI)
    # results below the normal range of binary16/32 for small integers: rounding to the float type may
    # underflow (int8 1 nm -> 0.0 m in float16) — outside the value oracle's range, inside the bit-exact
    # correspondence with the model's IEEE instance
    ("nm", "m", Fraction(1, 10 ** 9), Fraction(0)),
]
# magnitude of the terms that cancel when the offset of a pair is formed (enters the tolerance)
CANCEL = {("degF", "degC"): Fraction(530), ("degC", "K"): Fraction(27315, 100), ("degC", "mks"): Fraction(27315, 100), ("K", "degC"): Fraction(27315, 100)}
# base-system routes: unit, system, target spelled by hand, factor
BASES = [
    ("km", "cgs", "cm", Fraction(100000), Fraction(0)),
    ("km", "mks", "m", Fraction(1000), Fraction(0)),
    ("hr", "mks", "s", Fraction(3600), Fraction(0)),
    ("g", "mks", "kg", Fraction(1, 1000), Fraction(0)),
    ("degC", "mks", "K", Fraction(1), Fraction(-27315, 100)),
    ("C", "cgs", "statC", Fraction(2997924580), Fraction(0)),
]
# cross-dimension equivalences (value reference: the same call on float64 / complex128 data)
EQUIVS = [("K", "eV", "thermal"), ("g", "J", "mass_energy"), ("angstrom", "keV", "spectral"), ("cm", "g", "schwarzschild")]

PRELUDE = (
    "import warnings, numpy as np\nfrom fractions import Fraction\nimport unyt\n"
    "from unyt import unyt_array, unyt_quantity\nwarnings.simplefilter('ignore'); np.seterr(all='ignore')\n"
)


def dname(d):
    return np.dtype(d).name


def dclass(d):
    d = np.dtype(d)
    if d.kind in "iu":
        return "int-narrow" if d.itemsize < 8 else "int64"
    if d.kind == "f":
        return {2: "float-narrow", 4: "float-narrow", 8: "float64"}.get(d.itemsize, "longdouble")
    if d.kind == "c":
        return {8: "complex-narrow", 16: "complex128"}.get(d.itemsize, "complex256")
    return "bool"


def comp_size(d):
    d = np.dtype(d)
    return d.itemsize // 2 if d.kind == "c" else d.itemsize


def expected_dtype(d):
    """reference: integers -> float of the same item size (at least 16 bits); everything else stays"""
    d = np.dtype(d)
    if d.kind in "iu":
        return np.dtype("f" + str(max(2, d.itemsize)))
    return d


def may_raise(d):
    d = np.dtype(d)
    return d.kind in "iu" and d.itemsize == 1


def exc_class(e):
    for c in (TypeError, ValueError, RuntimeError, KeyError):
        if isinstance(e, c):
            return c.__name__
    return type(e).__name__


def frac(x):
    """exact rational value of a real numpy / python scalar"""
    if isinstance(x, (int, np.integer, bool, np.bool_)):
        return Fraction(int(x))
    if isinstance(x, float):
        return Fraction(x)
    n, d = x.as_integer_ratio()
    return Fraction(int(n), int(d))


def elems(a):
    """[(re, im)] exact, of an array / scalar of any kind"""
    a = np.asarray(a)
    out = []
    for e in a.ravel():
        if a.dtype.kind == "c":
            if not (np.isfinite(e.real) and np.isfinite(e.imag)):
                out.append(None)
            else:
                out.append((frac(e.real), frac(e.imag)))
        elif a.dtype.kind == "f":
            out.append((frac(e), Fraction(0)) if np.isfinite(e) else None)
        else:
            out.append((frac(e), Fraction(0)))
    return out


def exact_in(p, n):
    """natural n is representable with a p-bit significand"""
    n = abs(int(n))
    if n == 0:
        return True
    return n % (1 << max(0, n.bit_length() - p)) == 0


def in_range(q, size):
    q = abs(q)
    return q == 0 or (FMIN[size] * 16 <= q <= FMAX[size] / 4)


def value_check(got, want, size, scales):
    """got: [(re, im) | None], want: [(re, im)], scales: [magnitude entering the rounding]; tolerance
    6 * 2^-p of the result type — far below the distance to any truncated value"""
    u = Fraction(1, 2 ** VPREC[size])
    for g, w, s in zip(got, want, scales):
        if g is None:
            return False
        for a, b in zip(g, w):
            if abs(a - b) > 6 * u * (s + abs(b)):
                return False
    return True


# ------------------------------------------------------------------------------------------
# executing one call (the same code is the replay)


EXECUTED = []  # every snippet this process has run so far, in order (the history a later call may depend on)


class Run:
    def __init__(self, setup, call):
        self.code = setup + call
        EXECUTED.append(self.code)
        env = {}
        exec(PRELUDE, env)
        self.warn_runtime = False
        self.warn_unyt = False
        self.exc = None
        self.x_before = None
        with warnings.catch_warnings(record=True) as w:
            warnings.simplefilter("always")
            try:
                exec(setup, env)
                if "x" in env:
                    self.x_before = np.array(np.asarray(env["x"]), copy=True)
                exec(call, env)
            except Exception as e:  # noqa: BLE001
                self.exc = e
        for m in w:
            if issubclass(m.category, RuntimeWarning):
                self.warn_runtime = True
                if "Overflow encountered while converting" in str(m.message):
                    self.warn_unyt = True
        self.env = env
        self.r = env.get("r") if self.exc is None else None

    @property
    def ok(self):
        return self.exc is None


def arr_setup(vals, dt, unit, isq, name="x"):
    """python source constructing the operand"""
    dt = np.dtype(dt)
    if dt.kind == "c":
        lit = "[" + ", ".join(f"complex({float(a)!r}, {float(b)!r})" for a, b in vals) + "]"
    elif dt.kind == "f":
        lit = "[" + ", ".join(repr(float(v)) for v in vals) + "]"
    elif dt.kind == "b":
        lit = "[" + ", ".join("True" if v else "False" for v in vals) + "]"
    else:
        lit = "[" + ", ".join(str(int(v)) for v in vals) + "]"
    if isq:
        return f"{name} = unyt_quantity(np.array({lit}, dtype='{dt.name}')[0], '{unit}')\n"
    return f"{name} = unyt_array(np.array({lit}, dtype='{dt.name}'), '{unit}')\n"


ASSERT_HELPERS = '''
def _fr(v):
    if isinstance(v, (int, np.integer)): return Fraction(int(v))
    if isinstance(v, float): return Fraction(v)
    n, d = v.as_integer_ratio(); return Fraction(int(n), int(d))
def _close(r, want, prec, scales):
    a = np.asarray(r); u = Fraction(1, 2**prec); out = True
    for e, w, s in zip(a.ravel(), want, scales):
        parts = (e.real, e.imag) if a.dtype.kind == 'c' else (e, 0.0)
        for g, b in zip(parts, w):
            if not np.isfinite(g) or abs(_fr(g) - b) > 6*u*(s + abs(b)): out = False
    return out
'''


def values_for(d, rng, tier):
    """values up to the dtype limits: small ones (where truncation is visible), the limits, the
    float-precision boundaries, seeded ones"""
    d = np.dtype(d)
    if d.kind in "iu":
        info = np.iinfo(d)
        base = [0, 1, 2, 3, 7, 10, 100, info.max, info.max - 1, info.max // 3]
        if d.kind == "i":
            base += [-1, -3, -7, info.min, info.min + 1]
        for p in (11, 24, 53):
            for k in (-1, 0, 1, 2, 3):
                v = 2 ** p + k
                if v <= info.max:
                    base.append(v)
                    if d.kind == "i":
                        base.append(-v)
        n = 6 if tier == "quick" else 40
        base += [rng.randint(int(info.min), int(info.max)) for _ in range(n)]
        base += [rng.randint(-50, 50) if d.kind == "i" else rng.randint(0, 50) for _ in range(n)]
        return [v for v in base if info.min <= v <= info.max]
    if d.kind == "b":
        return [True, False, True]
    # floats: exactly representable in every float type (few significant bits)
    base = [0.0, 0.5, 1.0, 1.25, -3.75, 7.0, 100.5, 1000.0, -0.015625, 2047.0]
    n = 6 if tier == "quick" else 40
    base += [rng.randint(-2047, 2047) / 2 ** rng.randint(0, 8) for _ in range(n)]
    if d.kind == "c":
        return [(a, b) for a, b in zip(base, base[3:] + base[:3])]
    return base


def chunks(vals, n):
    return [vals[i:i + n] for i in range(0, len(vals), n)]


# ------------------------------------------------------------------------------------------


# ------------------------------------------------------------------------------------------
# equivalence routes: the defining formulas, hand-written (SI), for every branch

DIMS = {"(length)": "L", "1/(time)": "F", "(length)**2*(mass)/(time)**2": "E", "1/(length)": "S", "(mass)": "M",
        "(temperature)": "T", "(length)/(time)": "V", "1": "1", "(mass)/(length)**3": "RHO", "(length)**(-3)": "N",
        "(mass)/(time)**3": "FLUX"}


def _fsqrt(q):
    return Fraction(math.sqrt(float(q)))


def equiv_reference():
    """(equivalence, from, to) -> formula on Fractions; E = kT, E = mc^2, E = h nu = h c / lambda = h c nubar,
    c_s^2 = gamma k T / (mu m_H), gamma = 1/sqrt(1 - beta^2), r_s = 2 G M / c^2, lambda_C = h / (m c),
    F = sigma T^4, rho = mu m_H n.  Constants: the library's own SI values (their correctness is C15's)."""
    import unyt.physical_constants as pc

    def K(q):
        return Fraction(float(q.in_mks().v))

    h, c, kb, mh, G, sg = K(pc.h_mks), K(pc.clight), K(pc.kboltz), K(pc.mh), K(pc.G), K(pc.stefan_boltzmann_constant_mks)
    mu, gamma = Fraction(6, 10), Fraction(5, 3)
    return {
        ("number_density", "RHO", "N"): lambda x: x / (mu * mh),
        ("number_density", "N", "RHO"): lambda x: x * mu * mh,
        ("thermal", "T", "E"): lambda x: kb * x,
        ("thermal", "E", "T"): lambda x: x / kb,
        ("mass_energy", "M", "E"): lambda x: x * c * c,
        ("mass_energy", "E", "M"): lambda x: x / (c * c),
        ("spectral", "L", "F"): lambda x: c / x,
        ("spectral", "L", "E"): lambda x: h * c / x,
        ("spectral", "L", "S"): lambda x: 1 / x,
        ("spectral", "F", "L"): lambda x: c / x,
        ("spectral", "F", "E"): lambda x: h * x,
        ("spectral", "F", "S"): lambda x: x / c,
        ("spectral", "E", "L"): lambda x: h * c / x,
        ("spectral", "E", "F"): lambda x: x / h,
        ("spectral", "E", "S"): lambda x: x / (h * c),
        ("spectral", "S", "L"): lambda x: 1 / x,
        ("spectral", "S", "F"): lambda x: x * c,
        ("spectral", "S", "E"): lambda x: x * h * c,
        ("sound_speed", "V", "T"): lambda x: x * x * mu * mh / (gamma * kb),
        ("sound_speed", "V", "E"): lambda x: mu * mh * x * x / gamma,
        ("sound_speed", "T", "V"): lambda x: _fsqrt(gamma * kb * x / (mu * mh)),
        ("sound_speed", "T", "E"): lambda x: kb * x,
        ("sound_speed", "E", "V"): lambda x: _fsqrt(gamma * x / (mu * mh)),
        ("sound_speed", "E", "T"): lambda x: x / kb,
        ("lorentz", "1", "V"): lambda x: c * _fsqrt(1 - 1 / (x * x)),
        ("lorentz", "V", "1"): lambda x: 1 / _fsqrt(1 - (x / c) * (x / c)),
        ("schwarzschild", "M", "L"): lambda x: 2 * G * x / (c * c),
        ("schwarzschild", "L", "M"): lambda x: c * c * x / (2 * G),
        ("compton", "M", "L"): lambda x: h / (c * x),
        ("compton", "L", "M"): lambda x: h / (c * x),
        ("effective_temperature", "FLUX", "T"): lambda x: Fraction(float(x / sg) ** 0.25),
        ("effective_temperature", "T", "FLUX"): lambda x: sg * x ** 4,
    }


EQUIV_VALUES = [2, 3, 4, 7, 100, 300, 1600, 30000, 100000, 2 * 10 ** 8]


def equiv_sweep(chk, tier, universe, snippet):
    """value oracle on the equivalence routes, every branch: exact reference of the defining formula
    rounded to the required dtype, copy and in-place routes, integer / unsigned / float data"""
    quick = tier == "quick"
    try:
        import json
        branches = json.load(open(os.path.join(core.BUILD, "extract_c17_equiv_chains.json"), encoding="utf-8"))["branches"]
    except Exception as e:  # noqa: BLE001
        chk.disagree("equiv-chains", f"branch list not available: {e!r}")
        return
    REF = equiv_reference()
    copy_routes = [("to_equivalent", "r = x.to_equivalent('{b}', '{eq}')\n"), ("to(equivalence=)", "r = x.to('{b}', equivalence='{eq}')\n")]
    inpl_routes = [("convert_to_equivalent", "x.convert_to_equivalent('{b}', '{eq}'); r = x\n")]
    if not quick:
        copy_routes += [("in_units(equivalence=)", "r = x.in_units('{b}', equivalence='{eq}')\n"), ("to_value(equivalence=)", "r = x.to_value('{b}', equivalence='{eq}')\n")]
        inpl_routes += [("convert_to_units(equivalence=)", "x.convert_to_units('{b}', equivalence='{eq}'); r = x\n")]
    for br in branches:
        fd, td = DIMS.get(br["from_dim"]), DIMS.get(br["to_dim"])
        f = REF.get((br["equiv"], fd, td))
        if f is None:
            chk.disagree("equiv-reference", f"no hand-written reference formula for branch {br['equiv']} {br['from_dim']} -> {br['to_dim']}")
            continue
        a, b, eq = br["from_unit"], br["to_unit"], br["equiv"]
        bname = f"{eq}:{fd}->{td}"
        for d in universe:
            if d.kind not in "iuf" or (d.kind == "f" and d.itemsize not in (4, 8)):
                continue
            if d.kind in "iu":
                info = np.iinfo(d)
                vals = [v for v in EQUIV_VALUES if v <= info.max]
            else:
                vals = [float(v) for v in EQUIV_VALUES] + [2.5, 0.75]
                if td == "V" and fd == "1":
                    vals = [v for v in vals if v >= 1]
            ed = expected_dtype(d)
            cls = dclass(d)
            for isq in (False, True):
                use = vals if not isq else vals[1:2]
                setup = arr_setup(use, d, a, isq)
                got_by_class = {}
                for kclass, routes in (("to_equivalent", copy_routes), ("convert_to_equivalent", inpl_routes)):
                    for (name, tmpl) in routes:
                        call = tmpl.format(b=b, eq=eq)
                        R = Run(setup, call)
                        chk.case(("equiv", bname, name, d.name, isq), {"route": name, "branch": bname, "dtype": d.name} if len(chk.samples) < 10 else None)
                        chk.count(f"equiv:{eq}:{kclass}")
                        if not R.ok:
                            if not may_raise(d):
                                chk.fail(f"equiv|raise|{kclass}|{bname}|{cls}", f"{name} {bname} on {d.name} raised {exc_class(R.exc)}",
                                         {"python": snippet(setup, call), "error": repr(R.exc)[:200]})
                            continue
                        res = np.asarray(R.r)
                        if res.dtype.kind not in "fc":
                            chk.fail(f"value|{kclass}|{bname}|{cls}|integer-result", f"{name} {bname} on {d.name} returned {res.dtype.name} data",
                                     {"python": snippet(setup, call + "assert np.asarray(r).dtype.kind in 'fc', np.asarray(r).dtype\n")})
                            continue
                        size = min(comp_size(res.dtype), comp_size(ed)) if type(R.r) is not float else comp_size(ed)
                        if kclass == "convert_to_equivalent" and size == 2:
                            chk.count("float16-equivalence-constants-out-of-range-skipped")
                            continue
                        xin = [e_[0] for e_ in elems(R.x_before)]
                        want = [f(v) for v in xin]
                        got = elems(res)
                        sel = [i for i in range(len(want)) if in_range(want[i], size) and in_range(xin[i], size)]
                        if kclass == "convert_to_equivalent" and size == 4:
                            # float32 buffers: every intermediate of the chain must fit binary32 too
                            sel = [i for i in sel if in_range(xin[i] * xin[i], 4) and in_range(want[i] * want[i], 4)]
                        if not sel:
                            chk.count("equiv-value-out-of-float-range-skipped")
                            continue
                        chk.count("equiv-value-checked", len(sel))
                        u = Fraction(1, 2 ** VPREC[size])
                        bad = [i for i in sel if got[i] is None or abs(got[i][0] - want[i]) > 64 * u * abs(want[i])]
                        got_by_class[kclass] = (res, sel)
                        if bad:
                            wf = [float(want[i]) for i in sel]
                            chk.fail(f"value|{kclass}|{bname}|{cls}", f"{name} {bname} on {d.name} {a}: got {[float(np.atleast_1d(res).ravel()[i].real) for i in bad][:4]} for inputs {[int(xin[i]) if d.kind in 'iu' else float(xin[i]) for i in bad][:4]}, the formula gives {[float(want[i]) for i in bad][:4]} (integer arithmetic on the input?)",
                                     {"python": snippet(setup, call + f"rr = np.atleast_1d(np.asarray(r, dtype='c16')).real.ravel()[{sel!r}]\nassert np.allclose(rr, {wf!r}, rtol={float(64 * u)!r}, atol=0.0), rr\n"),
                                      "branch": bname, "dtype": d.name, "route": name})
                # copy vs in-place agreement on the values
                if "to_equivalent" in got_by_class and "convert_to_equivalent" in got_by_class:
                    (r1, s1), (r2, s2) = got_by_class["to_equivalent"], got_by_class["convert_to_equivalent"]
                    common = [i for i in s1 if i in s2]
                    size = min(comp_size(r2.dtype), comp_size(ed))
                    u = 2.0 ** -VPREC[size]
                    v1 = np.atleast_1d(np.asarray(r1, dtype="c16")).real.ravel()
                    v2 = np.atleast_1d(np.asarray(r2, dtype="c16")).real.ravel()
                    if common and not all(abs(v1[i] - v2[i]) <= 128 * u * abs(v2[i]) for i in common):
                        call = copy_routes[0][1].format(b=b, eq=eq).replace("r = ", "r1 = ") + inpl_routes[0][1].format(b=b, eq=eq)
                        chk.fail(f"agree|equivalence|{bname}|{cls}", f"to_equivalent and convert_to_equivalent disagree on the values for {bname} on {d.name}",
                                 {"python": snippet(setup, call + f"a1 = np.atleast_1d(np.asarray(r1, dtype='c16')).real.ravel()[{common!r}]; a2 = np.atleast_1d(np.asarray(x, dtype='c16')).real.ravel()[{common!r}]\nassert np.allclose(a1, a2, rtol={128 * u!r}, atol=0.0), (a1, a2)\n")})


RULE = ("every NumPy dtype (int8…uint64, float16…longdouble, complex64…complex256, bool for the model) x route spelling "
        "(to, in_units, to_value, convert_to_units, in_base/in_cgs/in_mks, convert_to_base/cgs/mks, to_equivalent, to(equivalence=), "
        "convert_to_equivalent, convert_to_units(equivalence=)) x scalar/array x exact unit pairs (integer, rational, offset, EM factors) "
        "x values up to the dtype limits and around 2^11/2^24/2^53; every equivalence branch (32) x integer/unsigned/float dtype x copy and in-place spellings against the hand-written formula; every dtype pair x binary ufunc x scalar/array; every out= dtype; "
        "distinct = distinct (route, dtype, shape, unit) / (ufunc, dtype0, dtype1, shapes) / out cell")


def run(tier, seed):
    import traceback

    import unyt  # noqa: F401

    chk = core.Check("C17", tier, seed)
    chk.proof = core.prove("C17", PROOF_MODULES, extra_targets=("drv_c17",), tier=tier)
    orig_fail = chk.fail

    def fail_with_history(key, what, replay):
        if isinstance(replay, dict):
            replay = dict(replay, _hist_len=len(EXECUTED))
        orig_fail(key, what, replay)

    chk.fail = fail_with_history
    try:
        _sweep(chk, tier)
    except Exception:  # noqa: BLE001 — a harness that cannot finish has not shown the property
        chk.disagree("harness-error", traceback.format_exc()[-1500:])
    chk.fail = orig_fail
    try:
        history_replays(chk)
    except Exception:  # noqa: BLE001
        chk.disagree("harness-error", "history replays: " + traceback.format_exc()[-800:])
    return chk.finish(RULE)


def _fails_alone(code):
    import subprocess

    p = subprocess.run([core.PY, "-W", "ignore", "-c", code], cwd=core.REPO, capture_output=True, text=True,
                       env=dict(os.environ, PYTHONPATH=core.REPO))
    return p.returncode != 0


def history_replays(chk):
    """A failure seen by the in-process oracle whose single-call replay PASSES in a fresh process depends on
    the calls made before it (a process-wide cache keyed too coarsely, a memo filled by another dtype …).
    Its replay is then rebuilt as: the earlier calls of this run, in order, each in its own namespace, then
    the failing call with its assertion — and shrunk to a suffix that still fails.  Only failures whose key is
    not a kept finding are treated (their number is small)."""
    known = {k["key"] for k in core.load_known() if k["property"] == "C17" and k.get("status") == "known"}
    done = 0
    first = set()
    for i, (key, what, replay) in enumerate(chk.failures):
        if not isinstance(replay, dict) or "python" not in replay:
            continue
        n = replay.pop("_hist_len", None)
        # `finish` reports the first failure of each key: that is the one whose replay must reproduce
        if key in first:
            continue
        first.add(key)
        if key in known or n is None or done >= 8:
            continue
        code = replay["python"]
        if _fails_alone(code):
            continue
        done += 1
        tail = code[len(PRELUDE) + len(ASSERT_HELPERS):] if code.startswith(PRELUDE + ASSERT_HELPERS) else None
        if tail is None:
            continue
        hist = EXECUTED[:max(n - 1, 0)]

        def build(h):
            return (PRELUDE + ASSERT_HELPERS + "_PRELUDE = " + repr(PRELUDE) + "\n_HIST = " + repr(h)
                    + "\nfor _c in _HIST:\n    _e = {}\n    exec(_PRELUDE, _e)\n    try:\n        exec(_c, _e)\n"
                      "    except Exception:\n        pass\n" + tail)

        k = 64
        found = None
        while True:
            h = hist[-k:]
            if _fails_alone(build(h)):
                found = h
                break
            if k >= len(hist):
                break
            k *= 8
        if found is None:
            chk.count("history-dependent-failure-not-reproduced")
            continue
        # shrink: drop halves / single entries while it still fails (bounded effort)
        budget = 24
        step = max(len(found) // 2, 1)
        while step >= 1 and budget > 0:
            j = 0
            progressed = False
            while j < len(found) and budget > 0:
                trial = found[:j] + found[j + step:]
                budget -= 1
                if trial != found and _fails_alone(build(trial)):
                    found = trial
                    progressed = True
                else:
                    j += step
            if not progressed or step == 1:
                step //= 2
        replay["python"] = build(found)
        replay["history_dependent"] = f"the single call passes in a fresh process; it fails after {len(found)} earlier call(s) of this run"
        chk.failures[i] = (key, what + " [only after earlier calls in the same process: see the replay]", replay)
        chk.count("history-dependent-failure-replayed")


def _sweep(chk, tier):
    rng = chk.rng
    quick = tier == "quick"

    universe = []
    for k in "iufcb":
        for s in (1, 2, 4, 8, 16, 32):
            try:
                d = np.dtype(k + str(s))
            except TypeError:
                continue
            if d.kind == k and d.itemsize == s:
                universe.append(d)
    scope = [d for d in universe if d.kind != "b"]

    model_lines, model_expect = [], []

    def ask(line, expect):
        model_lines.append("\t".join(str(f) for f in line))
        model_expect.append(expect)

    def snippet(code, assertion):
        return PRELUDE + ASSERT_HELPERS + code + assertion

    # ============================================================ A. routes: dtype + values
    # (name, key class, model route, call template, kind)
    def route_calls(a, b, fac, off):
        return [
            ("to", "copy", "to", f"r = x.to('{b}')\n"),
            ("in_units", "copy", "in_units", f"r = x.in_units('{b}')\n"),
            ("to_value", "to_value", "to_value", f"r = x.to_value('{b}')\n"),
            ("convert_to_units", "inplace", "convert_to_units", f"x.convert_to_units('{b}'); r = x\n"),
        ]

    def base_calls(a, sysname):
        c = [
            ("in_base", "in_base", "in_base", f"r = x.in_base('{sysname}')\n"),
            (f"in_{sysname}", "in_base", "in_base", f"r = x.in_{sysname}()\n"),
            ("convert_to_base", "inplace", "convert_to_base", f"x.convert_to_base('{sysname}'); r = x\n"),
            (f"convert_to_{sysname}", "inplace", "convert_to_base", f"x.convert_to_{sysname}(); r = x\n"),
        ]
        return c

    def check_case(d, isq, unit, name, kclass, mroute, call, fac, off, vals, ref_float=None, cancel_key=None):
        """one call: dtype oracle, value oracle, model correspondence"""
        setup = arr_setup(vals, d, unit, isq)
        R = Run(setup, call)
        ed = expected_dtype(d)
        cls = dclass(d)
        shape = "quantity" if isq else "array"
        chk.case((name, d.name, isq, unit), {"route": name, "dtype": d.name, "shape": shape, "unit": unit, "call": call.strip()} if len(chk.samples) < 8 else None)
        chk.count(f"route:{kclass}:{d.kind}{d.itemsize}")
        # ---- model correspondence (dtype / exception class)
        if R.ok:
            if type(R.r) is float:
                obs = ("ok", "pyfloat", 8)
            elif type(R.r) is complex:
                obs = ("ok", "pycomplex", 16)
            else:
                rd = np.asarray(R.r).dtype
                obs = ("ok", rd.kind, rd.itemsize)
        else:
            obs = ("err", exc_class(R.exc))
        ask(["c17.route", mroute, d.kind, d.itemsize, 1 if isq else 0], ("route", name, d.name, shape, unit, obs))
        if d.kind == "b":
            return R
        # ---- direct oracle: dtype
        if not R.ok:
            if not may_raise(d):
                key = f"dtype|{kclass}|{shape if kclass == 'to_value' else cls}|{cls + '|' if kclass == 'to_value' else ''}{exc_class(R.exc)}"
                chk.fail(key, f"{name} on {d.name} {shape} raised {exc_class(R.exc)}; {ed.name} data required",
                         {"python": snippet(setup, call + "assert True\n"), "dtype": d.name, "route": name, "error": repr(R.exc)[:200]})
            return R
        if type(R.r) is complex:
            # to_value on a complex quantity: a Python complex (binary64 components)
            if not (kclass == "to_value" and isq and ed.kind == "c" and ed.itemsize <= 16):
                chk.fail(f"dtype|to_value|quantity|{cls}|complex", f"to_value on a {d.name} quantity returned a Python complex (53-bit components)",
                         {"python": snippet(setup, "try:\n    " + call.strip() + "\nexcept Exception:\n    r = None\n" + "assert not isinstance(r, complex), type(r)\n"), "dtype": d.name})
                return R
            got_dtype = np.dtype("c16")
            size = comp_size(ed)
        elif type(R.r) is float:
            # to_value on a quantity: a Python float (binary64); fine when the expected float fits in it
            if not (kclass == "to_value" and isq and ed.kind == "f" and ed.itemsize <= 8):
                chk.fail(f"dtype|to_value|quantity|{cls}|float", f"to_value on a {d.name} quantity returned a Python float",
                         {"python": snippet(setup, "try:\n    " + call.strip() + "\nexcept Exception:\n    r = None\n" + "assert not isinstance(r, float), type(r)\n"), "dtype": d.name})
                return R
            got_dtype = np.dtype("f8")
            size = ed.itemsize  # value was rounded to the expected float before float()
        else:
            got_dtype = np.asarray(R.r).dtype
            if got_dtype.kind not in "fc":
                chk.fail(f"dtype|{kclass}|{cls}|{got_dtype.name}", f"{name} on {d.name} {shape} returned {got_dtype.name} data; {ed.name} required",
                         {"python": snippet(setup, call + "assert np.asarray(r).dtype.kind in 'fc', np.asarray(r).dtype\n"),
                          "dtype": d.name, "route": name, "got": got_dtype.name, "want": ed.name})
                got_dtype = ed  # judge the values as if they had been stored in the required type
            # values are judged at the precision of the *required* dtype (a wider result may hold
            # values that were rounded to the required type on the way); ranges at the narrower one
            size = min(comp_size(got_dtype), comp_size(ed))
            if got_dtype != ed:
                key = f"dtype|{kclass}|{cls}|{got_dtype.name}"
                chk.fail(key, f"{name} on {d.name} {shape} returned {got_dtype.name}; {ed.name} required",
                         {"python": snippet(setup, call + f"assert np.asarray(r).dtype == np.dtype('{ed.name}'), np.asarray(r).dtype\n"),
                          "dtype": d.name, "route": name, "got": got_dtype.name, "want": ed.name})
        # ---- direct oracle: values (exact rational conversion rounded to the result dtype)
        xin = elems(R.x_before)
        got = elems(np.asarray(R.r))
        if fac is None and size == 2:
            # the equivalence formulas multiply by CGS constants (1.4e-16, 9e20, …) that are outside
            # the binary16 range: values computed in a float16 buffer are outside "up to rounding"
            chk.count("float16-equivalence-constants-out-of-range-skipped")
            return R
        if fac is not None:
            want = [(re * fac - off, im * fac) for re, im in xin]
            cz = CANCEL.get((unit, cancel_key), Fraction(0))
            scales = [abs(re * fac) + abs(im * fac) + abs(off) + cz for re, im in xin]
        else:
            want, scales = ref_float(vals)
        okrange = in_range(fac if fac is not None else Fraction(1), size) and in_range(off or Fraction(0), size)
        sel = [i for i in range(len(want)) if okrange and want[i] is not None and xin[i] is not None and all(in_range(c, size) for c in want[i]) and in_range(xin[i][0], size)]
        if len(sel) < len(want):
            chk.count("value-out-of-float-range-skipped", len(want) - len(sel))
        if sel:
            chk.count("value-checked", len(sel))
            g = [got[i] for i in sel]
            w = [want[i] for i in sel]
            s = [scales[i] for i in sel]
            if not value_check(g, w, size, s):
                wsrc = "[" + ", ".join(f"(Fraction({a.numerator},{a.denominator}), Fraction({b.numerator},{b.denominator}))" for a, b in w) + "]"
                ssrc = "[" + ", ".join(f"Fraction({a.numerator},{a.denominator})" for a in s) + "]"
                chk.fail(f"value|{kclass}|{cls}", f"{name} on {d.name} {shape} ({unit}): values are not the exact conversion rounded to {ed.name}",
                         {"python": snippet(setup, call + f"sel = {sel!r}\nrr = np.atleast_1d(np.asarray(r)).ravel()[sel]\nassert _close(rr, {wsrc}, {VPREC[size]}, {ssrc}), rr\n"),
                          "dtype": d.name, "route": name, "got": str(np.asarray(R.r)), "want": [str(float(a)) for a, _ in w][:8]})
        # ---- warning oracle: an integer that the result float cannot hold exactly was converted
        if d.kind in "iu" and type(R.r) is not float and got_dtype.kind == "f":
            p = PREC[got_dtype.itemsize]
            bad = [int(v) for v in np.atleast_1d(R.x_before).ravel() if not exact_in(p, int(v))]
            if bad and not R.warn_runtime:
                if kclass in ("copy", "inplace", "to_value", "in_base"):
                    why = "float16" if got_dtype.itemsize == 2 else ("threshold-value" if all(abs(v) == 2 ** p + 1 for v in bad) else "general")
                else:
                    why = "no-check"
                kc = "copy" if kclass == "to_value" else kclass
                chk.fail(f"warn|missing|{kc}|{why}", f"{name} converted {d.name} value {bad[0]} to {got_dtype.name} (not representable) without a RuntimeWarning",
                         {"python": PRELUDE + "warnings.simplefilter('always')\nwith warnings.catch_warnings(record=True) as w:\n    warnings.simplefilter('always')\n"
                          + "".join("    " + l + "\n" for l in (setup + call).strip().split("\n"))
                          + "assert any(issubclass(m.category, RuntimeWarning) for m in w), 'no RuntimeWarning'\n",
                          "dtype": d.name, "route": name, "value": bad[0]})
            # model: unyt's own LARGE_INPUT warning
            if kclass in ("copy", "inplace", "to_value", "in_base"):
                vs = ",".join(str(int(v)) for v in np.atleast_1d(R.x_before).ravel())
                ask(["c17.warn", {"inplace": "inplace", "in_base": "inbase"}.get(kclass, "copy"), d.kind, d.itemsize, vs], ("warn", name, d.name, vs[:60], 1 if R.warn_unyt else 0))
        return R

    pairs = PAIRS if quick else PAIRS + [
        ("lb", "kg", Fraction(45359237, 10 ** 8), Fraction(0)),
        ("ft", "m", Fraction(3048, 10000), Fraction(0)),
        ("mile", "inch", Fraction(63360), Fraction(0)),
        ("K", "degC", Fraction(1), Fraction(27315, 100)),
    ]
    def shapes(d):
        return (False,) if d.kind == "b" else (False, True)

    for d in universe:
        vals_all = values_for(d, rng, tier)
        for (a, b, fac, off) in pairs:
            for isq in shapes(d):
                for (name, kclass, mroute, call) in route_calls(a, b, fac, off):
                    groups = chunks(vals_all, 8) if not isq else [[v] for v in vals_all[: (4 if quick else 12)]]
                    if quick and not isq:
                        groups = groups[:5]
                    results = {}
                    for vals in groups:
                        check_case(d, isq, a, name, kclass, mroute, call, fac, off, vals, cancel_key=b)
        for (a, sysname, tgt, fac, off) in BASES:
            for isq in shapes(d):
                for (name, kclass, mroute, call) in base_calls(a, sysname):
                    groups = chunks(vals_all, 8)[: (2 if quick else 8)] if not isq else [[v] for v in vals_all[:3]]
                    for vals in groups:
                        check_case(d, isq, a, name, kclass, mroute, call, fac, off, vals, cancel_key=sysname)

    # the warning, one large value at a time (a group of values would hide a raised threshold):
    # 2^p+1 (the documented first casualty), 2^p+3, and 2^(p+j)+1 for every j up to the dtype's width
    for d in scope:
        if d.kind not in "iu" or d.itemsize < 2:
            continue
        p = PREC[d.itemsize]
        info = np.iinfo(d)
        cands = [2 ** p + 1, 2 ** p + 3] + [2 ** (p + j) + 1 for j in range(1, 8 * d.itemsize - p)]
        cands = [v for v in cands if v <= info.max]
        if d.kind == "i":
            cands += [-v for v in cands[:4]]
        for v in cands:
            for isq in (False, True):
                if isq and quick and abs(v) > 2 ** (p + 2):
                    continue
                for (name, kclass, mroute, call) in route_calls("km", "m", None, None) + base_calls("km", "mks")[:1] + base_calls("km", "mks")[2:3]:
                    check_case(d, isq, "km", name, kclass, mroute, call, Fraction(1000), Fraction(0), [v] if isq else [1, v], cancel_key="m")

    # copy vs in-place agreement on values and dtype, directly
    for d in scope:
        for (a, b, fac, off) in PAIRS:
            vals = values_for(d, rng, tier)[:8]
            setup = arr_setup(vals, d, a, False)
            R1 = Run(setup, f"r = x.to('{b}')\n")
            R2 = Run(setup, f"x.convert_to_units('{b}'); r = x\n")
            chk.case(("agree", d.name, a, b))
            if R1.ok and R2.ok:
                r1, r2 = np.asarray(R1.r), np.asarray(R2.r)
                size = comp_size(r1.dtype)
                same_dtype = r1.dtype == r2.dtype
                e1, e2 = elems(r1), elems(r2)
                u = Fraction(1, 2 ** VPREC[size])
                ok = same_dtype
                if in_range(fac, size) and in_range(off, size):
                    for g1, g2 in zip(e1, e2):
                        if g1 is None or g2 is None or not all(in_range(c, size) for c in g1):
                            continue
                        if any(abs(p_ - q_) > 12 * u * (abs(p_) + abs(off) + CANCEL.get((a, b), Fraction(0))) for p_, q_ in zip(g1, g2)):
                            ok = False
                if not ok:
                    chk.fail(f"agree|copy-inplace|{dclass(d)}", f"to and convert_to_units disagree on {d.name} ({a}->{b})",
                             {"python": snippet(setup, f"r1 = x.to('{b}'); x.convert_to_units('{b}')\nassert r1.dtype == x.dtype and np.allclose(np.asarray(r1, dtype='c16'), np.asarray(x, dtype='c16'), rtol={float(16 * u)!r}, atol={float(16 * u * (abs(off) + CANCEL.get((a, b), Fraction(0))))!r}), (r1, x)\n")})
            elif R1.ok != R2.ok and not may_raise(d):
                chk.fail(f"agree|copy-inplace|{dclass(d)}|raise", f"only one of to / convert_to_units raised on {d.name}",
                         {"python": snippet(setup, f"r1 = x.to('{b}'); x.convert_to_units('{b}')\n")})

    # ============================================================ B. equivalence routes
    for d in universe:
        for (a, b, eq) in (EQUIVS if not quick else EQUIVS[:3]):
            for isq in shapes(d):
                vals = [v for v in values_for(d, rng, tier) if (abs(v[0]) if isinstance(v, tuple) else abs(v)) <= 1000][:6]
                if d.kind in "iu":
                    vals = [v for v in vals if v != 0] or [1]
                if isq:
                    vals = vals[:1]
                refdt = "complex128" if d.kind == "c" else "float64"

                def ref_float(vs, a=a, b=b, eq=eq, refdt=refdt, isq=isq):
                    RR = Run(arr_setup(vs, refdt, a, isq), f"r = x.to_equivalent('{b}', '{eq}')\n")
                    w = elems(np.asarray(RR.r))
                    return w, [(abs(e_[0]) + abs(e_[1])) if e_ is not None else Fraction(0) for e_ in w]

                for (name, kclass, mroute, call) in [
                    ("to_equivalent", "to_equivalent", "to_equivalent", f"r = x.to_equivalent('{b}', '{eq}')\n"),
                    ("to(equivalence=)", "to_equivalent", "to_equivalent", f"r = x.to('{b}', equivalence='{eq}')\n"),
                    ("convert_to_equivalent", "convert_to_equivalent", "convert_to_equivalent", f"x.convert_to_equivalent('{b}', '{eq}'); r = x\n"),
                    ("convert_to_units(equivalence=)", "convert_to_equivalent", "convert_to_equivalent", f"x.convert_to_units('{b}', equivalence='{eq}'); r = x\n"),
                ]:
                    check_case(d, isq, a, name, kclass, mroute, call, None, None, vals, ref_float=ref_float)
        # large integers through the equivalence routes (warning oracle)
        if d.kind in "iu" and d.itemsize >= 2:
            p = PREC[d.itemsize]
            v = 2 ** p + 3
            if v <= np.iinfo(d).max:
                for (name, kclass, mroute, call) in [
                    ("to_equivalent", "to_equivalent", "to_equivalent", "r = x.to_equivalent('eV', 'thermal')\n"),
                    ("convert_to_equivalent", "convert_to_equivalent", "convert_to_equivalent", "x.convert_to_equivalent('eV', 'thermal'); r = x\n"),
                ]:
                    def ref_float(vs):
                        RR = Run(arr_setup(vs, "float64", "K", False), "r = x.to_equivalent('eV', 'thermal')\n")
                        w = elems(np.asarray(RR.r))
                        return w, [abs(e_[0]) * 4 if e_ is not None else Fraction(0) for e_ in w]
                    check_case(d, False, "K", name, kclass, mroute, call, None, None, [1, v], ref_float=ref_float)

    # every equivalence branch: values against the defining formula, copy vs in-place
    equiv_sweep(chk, tier, universe, snippet)

    # ============================================================ C. mixed-unit binary ufuncs
    arith = [("add", lambda p_, q_: p_ + q_), ("subtract", lambda p_, q_: p_ - q_), ("maximum", max), ("minimum", min)]
    if not quick:
        arith += [("fmax", max), ("fmin", min)]
    compare = [("less", lambda p_, q_: p_ < q_), ("greater_equal", lambda p_, q_: p_ >= q_), ("equal", lambda p_, q_: p_ == q_), ("not_equal", lambda p_, q_: p_ != q_)]
    floatonly = ["hypot", "arctan2", "fmod"] + ([] if quick else ["remainder", "nextafter", "heaviside"])
    fac_km_m = Fraction(1000)

    def small_vals(d, n=4):
        d = np.dtype(d)
        if d.kind in "iu":
            return [1, 2, 3, 7, 11, 25][:n]
        if d.kind == "c":
            return [(1.5, 0.25), (2.0, -1.0), (0.5, 2.0), (3.25, 1.0)][:n]
        if d.kind == "b":
            return [True, False, True, True][:n]
        return [1.5, 2.0, 0.5, 3.25][:n]

    BIN_PAIRS = [("m", "km", Fraction(1000)), ("km", "m", Fraction(1, 1000)), ("km", "mile", Fraction(25146, 15625))]
    for d0 in universe:
        for d1 in universe:
            e1 = expected_dtype(d1)
            combos = []
            for (ua, ub, fac_km_m) in BIN_PAIRS:
                first = ua == "m"
                for s0, s1 in (((False, False), (True, False), (False, True), (True, True)) if not quick else ((False, False), (True, True))) if first else ((False, False),):
                    combos.append((ua, ub, fac_km_m, first, s0, s1))
            for (ua, ub, fac_km_m, first, s0, s1) in combos:
                if (s0 and d0.kind == "b") or (s1 and d1.kind == "b"):
                    continue
                n0 = 1 if s0 else 4
                n1 = 1 if s1 else 4
                if not s0 and not s1:
                    n0 = n1 = 4
                v0 = small_vals(d0, 4)[:n0]
                v1 = small_vals(d1, 4)[:n1]
                setup = arr_setup(v0, d0, ua, s0, "x") + arr_setup(v1, d1, ub, s1, "y")
                for (uf, fn) in arith + compare:
                    if quick and (s0 or s1 or not first) and uf not in ("add", "less"):
                        continue
                    if not first and uf not in ("add", "subtract", "less", "maximum"):
                        continue
                    iscmp = any(uf == c for c, _ in compare)
                    call = f"r = np.{uf}(x, y)\n"
                    R = Run(setup, call)
                    chk.case(("binary", uf, d0.name, d1.name, s0, s1, ua))
                    chk.count(f"binary:{uf}")
                    if R.ok:
                        rd = np.asarray(R.r).dtype
                        obs = ("ok", rd.kind, rd.itemsize)
                    else:
                        obs = ("err", exc_class(R.exc))
                    if not (d0.kind == "c" or d1.kind == "c") or not iscmp:
                        ask(["c17.binary", d0.kind, d0.itemsize, d1.kind, d1.itemsize, 1, 1 if iscmp else 0], ("binary", uf, d0.name, d1.name, (s0, s1), obs))
                    if d0.kind == "b" or d1.kind == "b":
                        continue
                    cls1 = dclass(d1)
                    # reference: convert the operand properly (expected dtype), let NumPy do the rest
                    try:
                        with warnings.catch_warnings():
                            warnings.simplefilter("ignore")
                            want_dt = getattr(np, uf)(np.zeros(2, d0), np.zeros(2, e1)).dtype
                    except TypeError:
                        chk.count("binary:numpy-unsupported-skipped")
                        continue
                    if not R.ok:
                        if not may_raise(d1):
                            chk.fail(f"binary|raise|second={cls1}", f"np.{uf}({d0.name} {ua}, {d1.name} {ub}) raised {exc_class(R.exc)}",
                                     {"python": snippet(setup, call), "ufunc": uf, "dtypes": [d0.name, d1.name], "error": repr(R.exc)[:200]})
                        continue
                    if rd != want_dt:
                        chk.fail(f"binary|dtype|second={cls1}", f"np.{uf}({d0.name} {ua}, {d1.name} {ub}) returned {rd.name}; {want_dt.name} required (operand converted in {e1.name})",
                                 {"python": snippet(setup, call + f"assert np.asarray(r).dtype == np.dtype('{want_dt.name}'), np.asarray(r).dtype\n"), "ufunc": uf, "dtypes": [d0.name, d1.name]})
                    # values
                    if iscmp and (d0.kind == "c" or d1.kind == "c"):
                        continue
                    x0 = elems(np.asarray(R.env["x"]))
                    y0 = elems(np.asarray(R.env["y"]))
                    n = max(len(x0), len(y0))
                    x0 = x0 * (n // len(x0))
                    y0 = y0 * (n // len(y0))
                    got = np.atleast_1d(np.asarray(R.r)).ravel()
                    if iscmp:
                        want = [bool(fn(p_[0], q_[0] * fac_km_m)) for p_, q_ in zip(x0, y0)]
                        if [bool(g) for g in got] != want:
                            chk.fail(f"binary|value|second={cls1}", f"np.{uf}({d0.name} {ua}, {d1.name} {ub}) compares wrongly",
                                     {"python": snippet(setup, call + f"assert [bool(v) for v in np.atleast_1d(np.asarray(r)).ravel()] == {want!r}, r\n")})
                        continue
                    if uf in ("maximum", "minimum", "fmax", "fmin") and (d0.kind == "c" or d1.kind == "c"):
                        continue
                    want = [(fn(p_[0], q_[0] * fac_km_m), (p_[1] + q_[1] * fac_km_m) if uf == "add" else (p_[1] - q_[1] * fac_km_m)) for p_, q_ in zip(x0, y0)]
                    if rd.kind not in "fc":
                        continue
                    size = min(comp_size(rd), comp_size(e1))
                    scales = [abs(p_[0]) + abs(p_[1]) + (abs(q_[0]) + abs(q_[1])) * fac_km_m for p_, q_ in zip(x0, y0)]
                    if rd.kind != "c":
                        want = [(w_[0], Fraction(0)) for w_ in want]
                    sel = [i for i in range(n) if all(in_range(c, size) for c in want[i]) and in_range(scales[i], size)]
                    if not sel:
                        chk.count("binary-value-out-of-range-skipped")
                        continue
                    g = elems(got)
                    if not value_check([g[i] for i in sel], [want[i] for i in sel], size, [scales[i] for i in sel]):
                        wsrc = "[" + ", ".join(f"(Fraction({w_[0].numerator},{w_[0].denominator}), Fraction({w_[1].numerator},{w_[1].denominator}))" for w_ in (want[i] for i in sel)) + "]"
                        ssrc = "[" + ", ".join(f"Fraction({s_.numerator},{s_.denominator})" for s_ in (scales[i] for i in sel)) + "]"
                        chk.fail(f"binary|value|second={cls1}", f"np.{uf}({d0.name} {ua}, {d1.name} {ub}): values are not the exact result rounded (operand truncated or imaginary part lost)",
                                 {"python": snippet(setup, call + f"rr = np.atleast_1d(np.asarray(r)).ravel()[{sel!r}]\nassert _close(rr, {wsrc}, {VPREC[size]}, {ssrc}), rr\n"),
                                  "ufunc": uf, "dtypes": [d0.name, d1.name], "got": str(R.r)})
            # float-only ufuncs: dtype through live NumPy on the model's operand dtype
            if d0.kind in "iuf" and d1.kind in "iuf":
                setup = arr_setup(small_vals(d0), d0, "m", False, "x") + arr_setup(small_vals(d1), d1, "km", False, "y")
                for uf in floatonly:
                    call = f"r = np.{uf}(x, y)\n"
                    R = Run(setup, call)
                    chk.count(f"binary:{uf}")
                    chk.case(("binary", uf, d0.name, d1.name))
                    try:
                        want_dt = getattr(np, uf)(np.zeros(2, d0), np.zeros(2, e1)).dtype
                    except TypeError:
                        continue
                    if not R.ok:
                        if not may_raise(d1):
                            chk.fail(f"binary|raise|second={dclass(d1)}", f"np.{uf}({d0.name} m, {d1.name} km) raised {exc_class(R.exc)}",
                                     {"python": snippet(setup, call)})
                        continue
                    rd = np.asarray(R.r).dtype
                    if rd != want_dt:
                        chk.fail(f"binary|dtype|second={dclass(d1)}", f"np.{uf}({d0.name} m, {d1.name} km) returned {rd.name}; {want_dt.name} required",
                                 {"python": snippet(setup, call + f"assert np.asarray(r).dtype == np.dtype('{want_dt.name}'), np.asarray(r).dtype\n")})
                    if uf == "hypot":
                        ref = [math.hypot(float(p_), float(q_) * 1000.0) for p_, q_ in zip(small_vals(d0), small_vals(d1))]
                        u = 2.0 ** -PREC[min(comp_size(rd), comp_size(e1))]
                        if not all(abs(float(g_) - w_) <= 8 * u * abs(w_) for g_, w_ in zip(np.asarray(R.r).ravel(), ref)):
                            chk.fail(f"binary|value|second={dclass(d1)}", f"np.hypot({d0.name} m, {d1.name} km) values wrong",
                                     {"python": snippet(setup, call + f"assert np.allclose(np.asarray(r, dtype='f8'), {ref!r}, rtol={8 * u!r}), r\n")})
        # large integer as the converted operand: warning oracle + values at the precision boundary
        if d0.kind in "iu" and d0.itemsize >= 2:
            p = PREC[d0.itemsize]
            for v in (2 ** p + 3,):
                if v * 1 > np.iinfo(d0).max:
                    continue
                setup = arr_setup([0.5, 1.0], "float64", "m", False, "x") + arr_setup([1, v], d0, "km", False, "y")
                call = "r = np.add(x, y)\n"
                R = Run(setup, call)
                chk.case(("binary-large", d0.name))
                if R.ok and not R.warn_runtime:
                    chk.fail("warn|missing|binary|no-check", f"float64 m + {d0.name} km converted {v} to float{8 * d0.itemsize} (not representable) without a RuntimeWarning",
                             {"python": PRELUDE + "with warnings.catch_warnings(record=True) as w:\n    warnings.simplefilter('always')\n"
                              + "".join("    " + l + "\n" for l in (setup + call).strip().split("\n"))
                              + "assert any(issubclass(m.category, RuntimeWarning) for m in w), 'no RuntimeWarning'\n"})

    # the operand dtype made visible: float16 first operand (result_type(f2, fN) = fN)
    for d1 in universe:
        setup = arr_setup([1.0, 2.0], "float16", "m", False, "x") + arr_setup(small_vals(d1, 2), d1, "km", False, "y")
        R = Run(setup, "r = np.maximum(x, y)\n")
        obs = ("ok", np.asarray(R.r).dtype.kind, np.asarray(R.r).dtype.itemsize) if R.ok else ("err", exc_class(R.exc))
        if d1.kind in "iuf":
            ask(["c17.binop", d1.kind, d1.itemsize], ("binop", d1.name, obs))

    # element-wise value path of the binary operand, bit-exact against the model: 0.0 m + y km
    for d1 in universe:
        if d1.kind not in "iuf" or comp_size(expected_dtype(d1)) > 8 or may_raise(d1):
            continue
        vals = values_for(d1, rng, tier)[: (12 if quick else 60)]
        setup = arr_setup([0.0], "float64", "m", False, "x") + arr_setup(vals, d1, "km", False, "y")
        R = Run(setup, "r = np.add(x, y)\n")
        if not R.ok:
            continue
        for v, g in zip(np.asarray(R.env["y"]).ravel(), np.asarray(R.r).ravel()):
            e = f"i:{int(v)}" if d1.kind in "iu" else f"r:{core.f2b(float(v))}"
            ask(["c17.value", "binop", d1.kind, d1.itemsize, e, core.f2b(1000.0), "none"], ("value", "binop", d1.name, str(v), expected_dtype(d1), (float(g), 0.0)))

    # ============================================================ D. out= promotion
    outs = universe
    for o in outs:
        for (d0, d1) in [(np.dtype("f8"), np.dtype("f8")), (np.dtype("i4"), np.dtype("i4")), (np.dtype("f4"), np.dtype("i2")), (np.dtype("i8"), np.dtype("u8"))]:
            for plain in (False, True):
                for mixed in (True, False):
                    bufsrc = f"buf = np.zeros(3, dtype='{o.name}')\n" if plain else f"buf = unyt_array(np.zeros(3, dtype='{o.name}'), 's')\n"
                    setup = arr_setup([1, 2, 3], d0, "m", False, "x") + arr_setup([1, 2, 3], d1, "km" if mixed else "m", False, "y") + bufsrc
                    call = "np.add(x, y, out=buf); r = buf\n"
                    R = Run(setup, call)
                    chk.case(("out", o.name, d0.name, d1.name, plain, mixed))
                    chk.count("out:" + o.kind)
                    obs = ("ok", np.asarray(R.r).dtype.kind, np.asarray(R.r).dtype.itemsize) if R.ok else ("err", exc_class(R.exc))
                    ask(["c17.out", d0.kind, d0.itemsize, d1.kind, d1.itemsize, o.kind, o.itemsize, 1 if mixed else 0], ("out", o.name, d0.name, d1.name, plain, mixed, obs))
                    if o.kind == "b":
                        continue
                    eo = expected_dtype(o)
                    if not R.ok:
                        if not may_raise(o):
                            chk.fail(f"out|raise|{dclass(o)}", f"np.add(…, out={o.name} buffer) raised {exc_class(R.exc)}", {"python": snippet(setup, call)})
                        continue
                    rd = np.asarray(R.r).dtype
                    if rd != eo:
                        chk.fail(f"out|dtype|{dclass(o)}|{rd.name}", f"out= buffer of dtype {o.name} is {rd.name} afterwards; {eo.name} required",
                                 {"python": snippet(setup, call + f"assert buf.dtype == np.dtype('{eo.name}'), buf.dtype\n")})
                    f_ = 1000 if mixed else 1
                    want = [float(a_ + b_ * f_) for a_, b_ in zip((1, 2, 3), (1, 2, 3))]
                    size = comp_size(rd)
                    if all(in_range(Fraction(w_), size) for w_ in want):
                        if not np.allclose(np.asarray(R.r, dtype="c16").real, want, rtol=8 * 2.0 ** -PREC[size]):
                            chk.fail(f"out|value|{dclass(o)}", f"out= buffer of dtype {o.name}: values are not the exact sums",
                                     {"python": snippet(setup, call + f"assert np.allclose(np.asarray(buf, dtype='c16').real, {want!r}, rtol={8 * 2.0 ** -PREC[size]!r}), buf\n")})
    # augmented assignment on integer data in other units
    for d in scope:
        if d.kind not in "iu":
            continue
        for op, sign in (("+=", 1), ("-=", -1)):
            setup = arr_setup([1, 2, 3], d, "m", False, "x") + arr_setup([1, 2, 3], d, "km", False, "y")
            call = f"x {op} y; r = x\n"
            R = Run(setup, call)
            chk.case(("iop", op, d.name))
            ask(["c17.out", d.kind, d.itemsize, d.kind, d.itemsize, d.kind, d.itemsize, 1], ("iop", op, d.name, ("ok", np.asarray(R.r).dtype.kind, np.asarray(R.r).dtype.itemsize) if R.ok else ("err", exc_class(R.exc))))
            if not R.ok:
                if not may_raise(d):
                    chk.fail(f"out|raise|{dclass(d)}", f"x {op} y on {d.name} raised {exc_class(R.exc)}", {"python": snippet(setup, call)})
                continue
            want = [a_ + sign * 1000 * b_ for a_, b_ in zip((1, 2, 3), (1, 2, 3))]
            rd = np.asarray(R.r).dtype
            if rd != expected_dtype(d) or not np.allclose(np.asarray(R.r, dtype="f8"), want, rtol=8 * 2.0 ** -PREC[rd.itemsize] if rd.kind == "f" else 0):
                chk.fail(f"out|iop|{dclass(d)}", f"x {op} y on {d.name} (m, km) gave {R.r!r} dtype {rd.name}",
                         {"python": snippet(setup, call + f"assert x.dtype == np.dtype('{expected_dtype(d).name}') and np.allclose(np.asarray(x, dtype='f8'), {want!r}, rtol=1e-2), x\n")})

    # ============================================================ E. value path bit-exact against the model
    for d in universe:
        if d.kind == "b" or comp_size(expected_dtype(d)) > 8:
            continue
        vals = values_for(d, rng, tier)
        if quick:
            vals = vals[:24]
        for (a, b, fac, off) in [p_ for p_ in PAIRS if p_[0] != "C"]:
            setup = arr_setup(vals, d, a, False)
            probe = Run(setup, f"f, o = x.units.get_conversion_factor(unyt.Unit('{b}'))\nr = x\n")
            if not probe.ok:
                continue
            f_, o_ = probe.env["f"], probe.env["o"]
            for (mr, call) in (("copy", f"r = x.to('{b}')\n"), ("inplace", f"x.convert_to_units('{b}'); r = x\n")):
                R = Run(setup, call)
                if not R.ok:
                    continue
                xin = np.asarray(R.x_before).ravel()
                out = np.asarray(R.r).ravel()
                for v, g in zip(xin, out):
                    if d.kind in "iu":
                        e = f"i:{int(v)}"
                    elif d.kind == "f":
                        e = f"r:{core.f2b(float(v))}"
                    else:
                        e = f"c:{core.f2b(float(v.real))}:{core.f2b(float(v.imag))}"
                    gg = (float(g.real), float(g.imag)) if out.dtype.kind == "c" else (float(g), 0.0)
                    ask(["c17.value", mr, d.kind, d.itemsize, e, core.f2b(f_), "none" if o_ is None else core.f2b(o_)],
                        ("value", mr, d.name, f"{a}->{b} {v}", out.dtype, gg))
        for (a, sysname, tgt, fac, off) in BASES[:3]:
            setup = arr_setup(vals[:16], d, a, False)
            probe = Run(setup, f"f, o = x.units.get_conversion_factor(unyt.Unit('{tgt}'))\nr = x\n")
            R = Run(setup, f"r = x.in_base('{sysname}')\n")
            if not (probe.ok and R.ok):
                continue
            f_, o_ = probe.env["f"], probe.env["o"]
            for v, g in zip(np.asarray(R.x_before).ravel(), np.asarray(R.r).ravel()):
                e = f"i:{int(v)}" if d.kind in "iu" else (f"r:{core.f2b(float(v))}" if d.kind == "f" else f"c:{core.f2b(float(v.real))}:{core.f2b(float(v.imag))}")
                rd = np.asarray(R.r).dtype
                gg = (float(g.real), float(g.imag)) if rd.kind == "c" else (float(g), 0.0)
                ask(["c17.value", "inbase", d.kind, d.itemsize, e, core.f2b(f_), "none" if o_ is None else core.f2b(o_)], ("value", "inbase", d.name, f"{a} {v}", rd, gg))

    # ============================================================ E2. the Python type of the conversion factor
    # (NumPy-scalar base values: Planck units, bel family, planck unit system — found in the live table)
    import sys

    import c17_factor

    c17_factor.factor_sweep(sys.modules[__name__], chk, tier, universe, snippet, ask)

    # ============================================================ F. regenerated tables read back
    import unyt.array as UA

    for s in (1, 2, 4, 8, 16):
        ask(["c17.dump.large", s], ("dump.large", s, UA.LARGE_INPUT.get(s)))
    ask(["c17.dump.universe"], ("dump.universe", ",".join(d.kind + str(d.itemsize) for d in universe)))
    for d in universe:
        r = (np.zeros(2, d) * 1.5).dtype
        ask(["c17.dump.mulpyfloat", d.kind, d.itemsize], ("dump.mul", d.name, ("ok", r.kind, r.itemsize)))
    for a in universe:
        for b in universe:
            try:
                r = np.add(np.zeros(1, a), np.zeros(1, b)).dtype
                obs = ("ok", r.kind, r.itemsize)
            except TypeError:
                obs = ("err", "TypeError")
            ask(["c17.dump.resulttype", a.kind, a.itemsize, b.kind, b.itemsize], ("dump.rt", a.name, b.name, obs))

    # ---------------------------------------------------------------- run the model
    try:
        replies = core.Model("drv_c17").ask(model_lines)
    except Exception as e:  # noqa: BLE001
        replies = []
        chk.disagree("driver", repr(e)[:300])
    for line, rep, exp in zip(model_lines, replies, model_expect):
        kind = exp[0]
        chk.count("model:" + kind.split(".")[0])
        if kind in ("route", "binary", "binop", "out", "iop", "dump.mul", "dump.rt"):
            obs = exp[-1]
            if obs[0] == "ok":
                want = ["ok", str(obs[1]), str(obs[2])]
            else:
                want = ["err", obs[1]]
            if rep != want:
                chk.disagree(line.split("\t")[0], f"{exp[:-1]}: model {rep} vs implementation {want}")
        elif kind == "warn":
            if rep != ["ok", str(exp[-1])]:
                chk.disagree("c17.warn", f"{exp[1:4]}: model {rep} vs implementation warned={exp[-1]}")
        elif kind == "dump.large":
            want = ["none"] if exp[2] is None else ["ok", str(exp[2])]
            if rep != want:
                chk.disagree("c17.dump.large", f"LARGE_INPUT[{exp[1]}]: model {rep} vs live {want}")
        elif kind == "fkind":
            if rep != ["ok", exp[-1]]:
                chk.disagree(line.split("\t")[0], f"{exp[1:3]}: model {rep} vs live type {exp[-1]}")
        elif kind == "dump.universe":
            if rep != ["ok", exp[1]]:
                chk.disagree("c17.dump.universe", f"model {rep} vs live {exp[1]}")
        elif kind == "value":
            rd = exp[4]
            g = exp[5]
            if rep[0] != "ok" or rep[1] != rd.kind or rep[2] != str(rd.itemsize):
                chk.disagree("c17.value", f"{exp[1:4]}: model {rep} vs implementation dtype {rd.name}")
                continue
            parts = rep[3].split(":")
            m = (core.b2f(parts[1]), core.b2f(parts[2]) if parts[0] == "c" else 0.0)
            for mv, gv in zip(m, g):
                if not (mv == gv or (math.isnan(mv) and math.isnan(gv))):
                    chk.disagree("c17.value", f"{exp[1:4]}: model {m} vs implementation {g} ({rd.name})")
                    break
