"""C07 unit-rule probe: which unit does an `__array_function__` handler attach to its result?

A catalogue case is run on operands whose units are FRESH SYMBOLS of a custom registry — group g of
the template carries `s<g>` (distinct dimensions, prime scales 3, 5, 7; out= buffers carry `sout`).
The result's unit expression is then read as an exponent vector over those symbols, per result leaf
(tuple results are flattened), together with the class of the leaf, the shapes of the operands and
of the leaf, the flags of the call and the unit a unit-carrying out= buffer has after the call.

Used by the translator plugin tools/extract.d/c07_unitrules.py (rule inference) and by
harness/c07.py (correspondence of the compiled model against fresh instantiations).
"""
import warnings
from fractions import Fraction

import numpy as np

import npcatalog as C
import c07_templates  # noqa: F401  (registers the C07-specific templates)
import c06_trace as TR

PRIMES = (3.0, 5.0, 7.0)
DIMS = ("length", "time", "mass")
_REG = None


def registry():
    global _REG
    if _REG is None:
        import unyt
        import unyt.dimensions as D

        r = unyt.UnitRegistry()
        for g, d in enumerate(DIMS):
            r.add(f"s{g}", PRIMES[g], getattr(D, d))
        r.add("sout", 11.0, D.current_mks)
        _REG = r
    return _REG


def sym_unit(name):
    import unyt

    return unyt.Unit(name, registry=registry())


def sym_wrap(out_mode="unyt"):
    import unyt

    def wrap(op):
        d = op.data
        if op.role == "out":
            if out_mode == "bare":
                return d.copy()
            return unyt.unyt_array(d.copy(), sym_unit("sout"))
        u = sym_unit("dimensionless") if op.dimless else sym_unit(f"s{op.group % 3}")
        if isinstance(d, np.ndarray) and d.ndim > 0:
            return unyt.unyt_array(d.copy(), u)
        if isinstance(d, np.ndarray):
            return unyt.unyt_quantity(d.copy(), u)
        return unyt.unyt_quantity(d, u)

    return wrap


def exponents(units):
    """{symbol name: Fraction} of a unit over the probe symbols; None when the expression is not a
    monomial over them (numeric coefficient, foreign symbol)"""
    import sympy

    e = units.expr
    coeff, rest = e.as_coeff_Mul()
    if coeff != 1:
        return None
    out = {}
    for b, p in rest.as_powers_dict().items():
        if b == 1:
            continue
        if not isinstance(b, sympy.Symbol) or not p.is_Rational:
            return None
        n = str(b)
        if n not in ("s0", "s1", "s2", "sout"):
            return None
        out[n] = out.get(n, Fraction(0)) + Fraction(int(p.p), int(p.q))
    return {k: v for k, v in out.items() if v != 0}


def fstr(q):
    return str(q.numerator) if q.denominator == 1 else f"{q.numerator}/{q.denominator}"


def _leaves(x, out, depth=0):
    import unyt

    if isinstance(x, unyt.unyt_array):
        out.append(("q", x))
    elif isinstance(x, (np.ndarray, np.generic)):
        a = np.asarray(x)
        if a.dtype.kind == "O":
            for v in a.ravel().tolist():
                _leaves(v, out, depth + 1)
        else:
            out.append(("b", a))
    elif isinstance(x, (bool, int, float, complex)):
        out.append(("b", np.asarray(x)))
    elif isinstance(x, (tuple, list)) and depth < 6:
        for v in x:
            _leaves(v, out, depth + 1)
    elif x is None:
        pass
    else:
        out.append(("py", x))
    return out


def _operands(flat):
    """[(param path, value)] of every unyt object among the bound arguments (lists are entered)"""
    import unyt

    out = []

    def walk(name, v, depth=0):
        if isinstance(v, unyt.unyt_array):
            out.append((name, v))
        elif isinstance(v, (list, tuple)) and depth < 4:
            for i, y in enumerate(v):
                walk(f"{name}[{i}]", y, depth + 1)
        elif isinstance(v, dict):
            for k, y in v.items():
                walk(f"{name}[{k}]", y, depth + 1)

    for n, v in flat.items():
        walk(n, v)
    return out


def _flag(v):
    if v is None or isinstance(v, bool):
        return repr(v)
    if isinstance(v, str):
        # keep the wire format of the driver intact (tabs, newlines, separators)
        return "".join(ch if (ch.isalnum() or ch in "_.>-+") else "~" for ch in v)
    if v is np._NoValue:
        return "NoValue"
    return "*"


def probe_case(t, dk, sc, seed, out_mode="unyt"):
    """None when the case cannot be built / bound, else a dict (see module docstring)"""
    import unyt

    try:
        call = t.instantiate(dk, sc, seed)
    except Exception:  # noqa: BLE001
        return None
    func = C.resolve(t.func)
    if func is None:
        return None
    args, kwargs, objs = call.materialize(sym_wrap(out_mode))
    flat, _sig = TR.bind(func, args, kwargs)
    if flat is None:
        return None
    ops = _operands(flat)
    opinfo = []
    shapes = {}
    for name, v in ops:
        ex = exponents(v.units)
        if ex is None:
            return None
        if not ex:
            g = "d"  # dimensionless operand (a selector)
        elif list(ex) == ["sout"]:
            g = "out"
        else:
            g = list(ex)[0][1:]
        opinfo.append((name, g))
        shapes[name] = list(np.shape(v))
    opnames = {n.split("[")[0] for n, _v in ops}
    flags = sorted((n, _flag(v)) for n, v in flat.items() if n not in opnames)
    with warnings.catch_warnings():
        warnings.simplefilter("ignore")
        try:
            r = t.invoke(args, kwargs)
            outcome = "ok"
        except Exception as e:  # noqa: BLE001
            r = None
            outcome = "raise:" + type(e).__name__
    rec = {
        "func": C.canonical_func(t), "variant": t.variant, "out_mode": out_mode,
        "operands": opinfo, "flags": flags, "shapes": shapes, "outcome": outcome, "leaves": [], "out_label": None,
        "case": (t.tid, dk, sc, seed, out_mode),
    }
    if outcome != "ok":
        return rec
    for kind, v in _leaves(r, []):
        if kind == "q":
            ex = exponents(v.units)
            rec["leaves"].append({"carries": True, "cls": type(v).__name__, "shape": list(v.shape), "size": int(v.size),
                                  "expo": None if ex is None else {k: fstr(q) for k, q in ex.items()},
                                  "units": str(v.units), "base_value": float(v.units.base_value)})
        elif kind == "b":
            rec["leaves"].append({"carries": False, "cls": "bare", "shape": list(v.shape), "size": int(v.size), "expo": {}})
        else:
            rec["leaves"].append({"carries": False, "cls": "text" if isinstance(v, str) else type(v).__name__, "shape": [], "size": 1, "expo": {}})
    for op, o in objs:
        if op.role == "out" and isinstance(o, unyt.unyt_array):
            ex = exponents(o.units)
            rec["out_label"] = None if ex is None else {k: fstr(q) for k, q in ex.items()}
    return rec


def form_of(rec):
    """identity of a call form: operands with their groups + flags"""
    return ",".join(f"{n}:{g}" for n, g in rec["operands"]) + ";" + ",".join(f"{n}={v}" for n, v in rec["flags"])


# ---------------------------------------------------------------------------------------------
# exponent expressions


def candidates(rec, group):
    """non-constant candidate expressions for the exponent of symbol s<group>: [(lean text, wire text, fn(rec, leaf) -> value)]"""
    out = []
    for name, g in rec["operands"]:
        if g != group:
            continue
        for i in (0, -1, 1, -2):
            def f(r, leaf, name=name, i=i):
                s = r["shapes"].get(name)
                if s is None or not (-len(s) <= i < len(s)):
                    return None
                return Fraction(s[i])
            out.append((("dim", name, i), f))

        def g_(r, leaf, name=name):
            s = r["shapes"].get(name)
            if s is None or leaf["size"] == 0:
                return None
            return Fraction(int(np.prod(s, dtype=np.int64)) // leaf["size"]) if s else Fraction(1 // leaf["size"])
        out.append((("sizeRatio", name), g_))
    return out


def expo_wire(e):
    if e[0] == "const":
        return "c:" + e[1]
    if e[0] == "dim":
        return f"d:{e[1]}:{e[2]}"
    if e[0] == "sizeRatio":
        return "r:" + e[1]
    return "?"


def expo_lean(e, L):
    if e[0] == "const":
        q = Fraction(e[1])
        qs = f"({q.numerator} : Rat)" if q.denominator == 1 else f"(({q.numerator} : Rat) / {q.denominator})"
        return f".const {qs}"
    if e[0] == "dim":
        return f".dim {L(e[1])} ({e[2]})"
    if e[0] == "sizeRatio":
        return f".sizeRatio {L(e[1])}"
    return ".unknown"
