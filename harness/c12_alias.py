"""C12, registry OBJECTS over shared containers (model: lean/UnytModel/RegistryC12Alias.lean).

`Unit.copy()` — reached from `in_base()/in_mks()/in_cgs()/convert_to_base()` whenever the unit already is the
base unit — hands out a SHALLOW copy of the registry: a second `UnitRegistry` object attached to the same table,
string cache and set of written-back symbols.  C12 has to hold through every such object, whichever object the
edits and the earlier look-ups went through.

Histories: `copy` (at any position) + calls tagged with the object they go through (`r` the registry the session
started with, `c` the copy).  Each is executed on the real library and on the Lean family machine
(`c12a.*` opcodes = `RegC12.astep` with the regenerated in-place flags); after the history the probe set is
evaluated through BOTH objects and compared with a genuinely fresh registry built from the oracle's own record
of the contents (direct oracle) and with the model (correspondence).
"""
import itertools
import re

import core
import c12 as base

COPY = "copy"
COPY_PY = "c = Unit(sympy.Symbol('s'), registry=r).copy().registry"
# the everyday route to such an object: a quantity that already is in base units, converted to base units
# (Unit.get_base_equivalent returns self.copy()); the strings 'm' and 's' land in the string cache on the way
COPY2 = "copy_in_base"
COPY2_PY = "c = (unyt_quantity(6000.0, 'm', registry=r) / unyt_quantity(1.0, 's', registry=r)).in_base().units.registry"
COPIES = {COPY: COPY_PY, COPY2: COPY2_PY}
# ops of the main alphabet that are single machine steps (no macro), usable through either object
EXH_OPS = ["add_foo1", "modf_foo", "rm_foo", "u_kfoo", "has_Mfoo", "u_foo_s"]
RND_OPS = EXH_OPS + ["add_foo2", "modi_foo", "add_kfoo", "modf_kfoo", "rm_kfoo", "u_foo", "sysid", "modq_foo", "modq2_foo", "def_zot"]
PROBES = [("unit", "foo"), ("unit", "kfoo"), ("unit", "Mfoo"), ("unit", "foo*s"), ("unit", "kfoo/s"),
          ("unit", "zot"), ("unit", "kzot"), ("has", "foo"), ("has", "kfoo"), ("get", "kfoo")]
OBJ_NAME = {"r": "original", "c": "copy"}


def py_of(name, obj):
    src = base.OPS[name]["py"]
    return src if obj == "r" else re.sub(r"\br\b", "c", src)


def model_of(name, obj):
    line = base.OPS[name]["model"]
    assert line.startswith("c12.")
    i = 0 if obj == "r" else 1
    for macro in ("modqu", "defunit"):  # the reading edits: `amstep` (RegistryC12AliasMacro)
        if line.startswith(f"c12.{macro}\t"):
            return f"c12a.{macro}\t{i}\t" + line[len(macro) + 5:]
    return f"c12a.call\t{i}\t" + line[4:]


def copy_pos(hist):
    return next(i for i, op in enumerate(hist) if op in COPIES)


def valid(hist):
    """exactly one `copy`; no call through `c` before it"""
    if len([op for op in hist if op in COPIES]) != 1:
        return False
    p = copy_pos(hist)
    return all(op[1] == "r" for op in hist[:p])


def hist_src(hist):
    lines = ["import sympy", "r = UnitRegistry()"]
    for op in hist:
        if op in COPIES:
            lines.append(COPIES[op] + "\nassert c is not r and c.lut is r.lut")
        else:
            lines.append(f"t(lambda: {py_of(*op)})")
    return "\n".join(lines) + "\n"


def probe_seq(have_copy):
    return [(o, k, q) for o in (("r", "c") if have_copy else ("r",)) for k, q in PROBES]


def probe_prefix_src(seq, upto):
    out = []
    for o, k, q in seq:
        if (o, k, q) == upto:
            break
        out.append(f"t(lambda: {base.probe_src(k, q, o)}); t(lambda: {base.probe_src(k, q, 'F')})")
    return "\n".join(out) + ("\n" if out else "")


def run_history(hist):
    """-> dict(outs, probes, failures)"""
    import sympy
    import unyt  # noqa: F401
    from unyt import Unit, define_unit, unyt_quantity
    from unyt.unit_registry import UnitRegistry
    import unyt.dimensions as D

    r = UnitRegistry()
    env = {"r": r, "c": None, "Unit": Unit, "unyt_quantity": unyt_quantity, "define_unit": define_unit, "D": D, "sympy": sympy}
    cont = base.Contents()
    trail = [cont.copy()]
    flat = []
    outs, failures = [], []
    for idx, op in enumerate(hist):
        if op in COPIES:
            exec(COPIES[op], env)
            outs.append(("copy", env["c"] is not r and env["c"].lut is r.lut))
            continue
        name, obj = op
        flat.append(name)
        try:
            res = eval(py_of(name, obj), env)
            if hasattr(res, "is_Unit"):
                out = ("unit", None, float(res.base_value), base.dims_key(res.dimensions), float(res.base_offset))
            elif isinstance(res, bool):
                out = ("bool", res)
            elif isinstance(res, str):
                out = ("sysid", res)
            else:
                out = ("done",)
        except Exception as e:  # noqa: BLE001
            out = ("err", core.exc_name(e))
        outs.append(out)
        want = cont.apply(base.OPS[name]["spec"])
        trail.append(cont.copy())
        if want is not None:
            got = "ok" if out[0] == "done" else out[1]
            if got != want:
                derived = "derived-key" if base.spelling(base.OPS[name]["spec"][1]) == "prefixed" else "plain-key"
                failures.append(dict(
                    key=f"C12|registry-copy|edit-outcome|{base.family(name)}|{derived}|through-{OBJ_NAME[obj]}",
                    what=f"{hist[:idx]} then {py_of(name, obj)} gave {got}; the registry's contents imply {want}",
                    py=base.HEADER + hist_src(hist[:idx]) + f"got = t(lambda: {py_of(name, obj)})\ngot = 'ok' if got is None else got\n"
                       f"assert got == {want!r}, got\n"))
                return dict(outs=outs, probes=None, failures=failures)
            # the id every OTHER object of the family reports right after an accepted or refused edit must be the id of
            # the table as it is then (each object keeps a private memo; the edit resets only its own)
            for o2 in ("r", "c"):
                reg = env[o2]
                if reg is None or o2 == obj:
                    continue
                m = getattr(reg, "_unit_system_id", None)
                if m is not None and m != base.table_id(reg.lut):
                    failures.append(dict(
                        key=f"C12|unit_system_id|memo-of-registry-copy-survives-edit|edit-through-{OBJ_NAME[obj]}",
                        what=f"after {hist[:idx + 1]}: {o2}.unit_system_id is still the id of the table before the edit made through "
                             f"the other registry object (a shallow copy from Unit.copy()): the memo is per object, the table shared",
                        py=base.HEADER + hist_src(hist[:idx + 1])
                           + f"assert {o2}.unit_system_id == UnitRegistry(add_default_symbols=False, lut=dict({o2}.lut)).unit_system_id\n"))
    F = cont.fresh_new()
    seq = probe_seq(env["c"] is not None)
    probes = []
    for o, kind, q in seq:
        reg = env[o]
        in_cache = kind == "unit" and q in reg._unit_object_cache
        got, _obj = base.do_probe(reg, kind, q)
        want, _ = base.do_probe(F, kind, q)
        probes.append((o, kind, q, got))
        if not base.same_outcome(got, want):
            cause, csym = base.last_cause(flat, trail, kind, q)
            if in_cache:
                layer = "string-cache|" + ("own-key" if q == csym else "other-key")
            else:
                layer = "table|" + ("symbol-entry" if base.spelling(q) == "atomic" else "written-back-entry")
            failures.append(dict(
                key=f"C12|registry-copy|{'lost' if got[0] == 'err' and want[0] == 'ok' else 'stale'}|{layer}|after-{cause}|probed-through-{OBJ_NAME[o]}",
                what=f"after {hist}: {kind} {q!r} through the {OBJ_NAME[o]} registry object gives {got}, a fresh registry with the same contents gives {want}",
                py=base.HEADER + hist_src(hist) + base.fresh_src(cont.user) + probe_prefix_src(seq, (o, kind, q))
                   + f"a = {base.probe_src(kind, q, o)}; b = {base.probe_src(kind, q, 'F')}\nassert close(a, b), (a, b)\n"))
    return dict(outs=outs, probes=probes, failures=failures)


def model_lines(hist):
    lines = ["c12a.reset"]
    for op in hist:
        lines.append("c12a.copy\t0" if op in COPIES else model_of(*op))
    return lines


def probe_lines(seq):
    tag = {"unit": "unit", "has": "has", "get": "get"}
    return [f"c12a.call\t{0 if o == 'r' else 1}\t{tag[k]}\t{q}" for o, k, q in seq]


def correspond(hist, res, replies):
    dis = []
    it = iter(replies)
    next(it)
    for op, out in zip(hist, res["outs"]):
        rep = next(it)
        if op in COPIES:
            if rep[0] != "ok" or not out[1]:
                dis.append(f"copy: impl shares the table: {out[1]}, model {rep}")
            continue
        if not base.compare_out(out, rep):
            dis.append(f"op {op}: impl {out} model {rep}")
    if res["probes"] is None:
        return dis
    for o, kind, q, got in res["probes"]:
        rep = next(it)
        if kind == "unit":
            real = ("unit", None, got[1], got[2], got[3]) if got[0] == "ok" else got
        elif kind == "has":
            real = ("bool", got[1]) if got[0] == "ok" else got
        else:
            real = ("entry",) + got[1:] if got[0] == "ok" else got
        if not base.compare_out(real, rep):
            dis.append(f"probe {kind} {q!r} through {o}: impl {got} model {rep}")
    return dis


def _work(args):
    hists, ptab = args
    core.quiet_numpy()
    lines = list(ptab)
    spans, ress = [], []
    for h in hists:
        res = run_history(h)
        ress.append(res)
        ml = model_lines(h)[:1 + len(res["outs"])]
        if res["probes"] is not None:
            ml += probe_lines([(o, k, q) for o, k, q, _g in res["probes"]])
        spans.append((len(lines), len(lines) + len(ml)))
        lines += ml
    try:
        replies = core.Model("drv_c12").ask(lines)
        merr = None
    except Exception as e:  # noqa: BLE001
        replies, merr = None, repr(e)
    out = []
    for h, res, (a, b) in zip(hists, ress, spans):
        if replies is None:
            dis = [f"driver: {merr}"]
        else:
            try:
                dis = correspond(h, res, replies[a:b])
            except Exception as e:  # noqa: BLE001
                dis = [f"correspondence crashed: {e!r}"]
        out.append((h, res["failures"], dis))
    return out


def minimise(hist, key):
    cur = list(hist)
    changed = True
    while changed:
        changed = False
        for i in range(len(cur)):
            cand = cur[:i] + cur[i + 1:]
            if not valid(cand):
                continue
            r = run_history(cand)
            if any(f["key"] == key for f in r["failures"]):
                cur = cand
                changed = True
                break
    r = run_history(cur)
    return cur, [f for f in r["failures"] if f["key"] == key][0]


def histories(tier, rng):
    exh_len = 3 if tier == "quick" else 4
    A = [(n, o) for n in EXH_OPS for o in ("r", "c")]
    hists = [[COPY] + list(h) for n in range(1, exh_len + 1) for h in itertools.product(A, repeat=n)]
    n_exh = len(hists)
    n_rand = 600 if tier == "quick" else 6000
    for _ in range(n_rand):
        n = rng.randint(3, 10)
        p = rng.randint(0, min(3, n - 1))
        h = []
        for i in range(n):
            if i == p:
                h.append(COPY if rng.random() < 0.5 else COPY2)
            h.append((rng.choice(RND_OPS), "r" if i < p else rng.choice("rc")))
        if rng.random() < 0.5:
            h.insert(0, ("add_foo1", "r"))
        hists.append(h)
    return hists, n_exh, n_rand, exh_len


# the witnesses of the `C12_alias_counterexample_*` theorems (lean/UnytProofs/Lemmas/C12AliasWitness.lean)
W_DERIVED = [COPY, ("add_foo1", "r"), ("u_kfoo", "c"), ("modf_foo", "r")]
W_CACHE = [COPY, ("add_foo1", "r"), ("u_foo", "c"), ("modf_foo", "r")]
W_MEMO = [("sysid", "r"), COPY, ("add_foo1", "r")]


def run_alias(chk, tier, ptab, known):
    import json
    import multiprocessing
    import os

    try:
        xj = json.load(open(os.path.join(core.BUILD, "extract_c12_registry_cfg.json"), encoding="utf-8"))
        acfg = xj["acfg"]
    except Exception as e:  # noqa: BLE001
        chk.disagree("translator", f"no in-place flags extracted: {e!r}")
        acfg = {"derivedInPlace": True, "cacheInPlace": True}
    chk.extra["registry_acfg"] = acfg
    try:
        rep = core.Model("drv_c12").ask(["c12a.acfg"])[0]
        want = ["ok", "1" if acfg["derivedInPlace"] else "0", "1" if acfg["cacheInPlace"] else "0"]
        if rep != want:
            chk.disagree("c12a.acfg", f"driver in-place flags {rep} != extracted {want}")
    except Exception as e:  # noqa: BLE001
        chk.disagree("driver", repr(e))
    hists, n_exh, n_rand, exh_len = histories(tier, chk.rng)
    chk.extra["alias_histories"] = {"exhaustive_after_copy_up_to_length": exh_len, "exhaustive": n_exh, "random": n_rand,
                                    "exhaustive_ops": EXH_OPS, "random_ops": RND_OPS, "objects": ["r (original)", "c (Unit.copy().registry)"]}
    extra = [W_DERIVED, W_CACHE, W_MEMO]
    jobs = [(c, ptab) for c in base.chunks(extra + hists, 300)]
    seen = {}
    with multiprocessing.get_context("fork").Pool(4) as pool:
        parts = list(pool.imap(_work, jobs, chunksize=1))
    for part in parts:
        for h, failures, dis in part:
            chk.case(("alias",) + tuple(h), {"alias_history": [list(x) if isinstance(x, tuple) else x for x in h]} if len(h) == 4 and len(chk.samples) < 8 else None)
            chk.count("alias-history")
            chk.count("alias-copy-at-" + str(min(copy_pos(h), 3)))
            chk.count("alias-copy-route:" + ("Unit.copy" if COPY in h else "in_base"))
            for d in dis[:3]:
                chk.disagree("c12a.history", f"{h}: {d}")
            for f in failures:
                if f["key"] not in seen or len(h) < len(seen[f["key"]][0]):
                    seen[f["key"]] = (h, f)
                chk.count("oracle-failure:" + f["key"].split("|")[1])
    for key in sorted(seen):
        h, f = seen[key]
        if key not in known:
            try:
                h, f = minimise(h, key)
            except Exception:  # noqa: BLE001
                pass
        chk.fail(key, f["what"], {"python": f["py"], "history": [list(x) if isinstance(x, tuple) else x for x in h]})
    # the counterexample witnesses on the real code: they must fail exactly when the regenerated flag says "rebinds"
    for name, hist, flag in (("rebound_derived", W_DERIVED, "derivedInPlace"), ("rebound_cache", W_CACHE, "cacheInPlace")):
        res = run_history(hist)
        hit = [f for f in res["failures"] if "|registry-copy|" in f["key"]]
        if hit and acfg[flag]:
            chk.disagree("alias-witness", f"C12_alias_counterexample_{name}: the regenerated flags {acfg} say in place, but the witness fails: {hit[0]['what']}")
        if not hit and not acfg[flag]:
            chk.disagree("alias-witness", f"C12_alias_counterexample_{name}: the regenerated flags {acfg} say the container is rebound, the real library does not show it")
