"""C15 — physical constants are coherent across unit systems and with the unit table.

Correspondence (guards the translator and the model): every regenerated table row is read back
through the driver's dump opcodes and compared with the live objects (the `physical_constants`
table, every namespace re-materialised here independently of the translator, the E&M unit list);
every symbolic definition (`_physical_ratios.py`, table cells) is evaluated by the model at Float
— once as module execution, once through its closed form over the base constants — and compared
with the double the live module holds.

Direct oracle (never consults the model): on the real library, for every namespace
(`unyt.physical_constants`, the top-level namespace, `add_constants` on a fresh registry, on a
registry of every built-in unit system and of custom unit systems) every guise of every constant
is compared as a quantity with the principal one; the defining relations are evaluated
numerically; every constant name that is also a unit is compared with that unit; every value is
compared with the published one (hand-written reference).
"""
import math
from fractions import Fraction as F

import core
import gen

PROOF_MODULES = ["UnytProofs.C15Relations", "UnytProofs.C15", "UnytProofs.C15AddConstants", "UnytProofs.C15TabAdd", "UnytProofs.C15Tab1", "UnytProofs.C15Tab2", "UnytProofs.C15Tab3", "UnytProofs.C15Tab4"]

GUISE_TOL = F(1, 2 ** 45)
C2_1E7 = F(299792458) ** 2 / 10 ** 7  # 1/(4 pi eps_0) in the pre-2019 SI: (q_Gauss / q_SI)^2

PRELUDE = r'''
import warnings; warnings.simplefilter("ignore")
import math
from fractions import Fraction as F
import numpy as np
import unyt
import unyt.dimensions as D
from unyt import Unit, unyt_quantity
from unyt.unit_registry import UnitRegistry
from unyt.unit_systems import UnitSystem, add_constants, unit_system_registry
from unyt._unit_lookup_table import physical_constants as TABLE, default_unit_symbol_lut as LUT
import unyt._physical_ratios as PR

TOL = F(1, 2**45)
K2 = F(299792458)**2 / 10**7
EM = [(D.charge_mks, D.charge_cgs, K2), (D.current_mks, D.current_cgs, K2),
      (D.magnetic_field_mks, D.magnetic_field_cgs, F(10**7)),
      (D.electric_potential_mks, D.electric_potential_cgs, 1 / K2),
      (D.resistance_mks, D.resistance_cgs, 1 / K2 / K2)]

def mag(q):
    """SI magnitude of a quantity at the exact rationals of its doubles"""
    return F(float(q.value)) * F(float(q.units.base_value))

def same(a, b, tol=TOL):
    """a and b denote the same physical quantity (same dimension and SI magnitude, or one is the
    Gaussian counterpart of the other)"""
    ma, mb, da, db = mag(a), mag(b), a.units.dimensions, b.units.dimensions
    if float(a.units.base_offset) != 0.0 or float(b.units.base_offset) != 0.0:
        return False
    if da == db:
        return abs(ma - mb) <= tol * abs(mb)
    for dsi, dg, k2 in EM:
        if (ma > 0) != (mb > 0):
            continue
        if db == dsi and da == dg and abs(ma * ma - mb * mb * k2) <= 2 * tol * abs(mb * mb * k2):
            return True
        if da == dsi and db == dg and abs(ma * ma * k2 - mb * mb) <= 2 * tol * abs(mb * mb):
            return True
    return False

def space(sid):
    """the namespace `sid`: pc | top | fresh | sys:<unit system> | custom-registry (user units added) |
    custom:<length>,<mass>,<time>,<temperature>[,<current>]"""
    if sid == "pc":
        import unyt.physical_constants as pc
        return {k: v for k, v in vars(pc).items() if isinstance(v, unyt_quantity)}
    if sid == "top":
        return {k: v for k, v in vars(unyt).items() if isinstance(v, unyt_quantity)}
    ns = {}
    if sid == "fresh":
        add_constants(ns, UnitRegistry())
    elif sid.startswith("sys:"):
        add_constants(ns, UnitRegistry(unit_system=sid[4:]))
    elif sid == "custom-registry":
        reg = UnitRegistry(unit_system="imperial")
        reg.add("c15_rod", 5.0292, D.length, tex_repr=r"\\rm{rod}")
        reg.add("c15_scruple", 1.2959782e-3, D.mass)
        add_constants(ns, reg)
    elif sid.startswith("custom:"):
        parts = sid[7:].split(",")
        l, m, t, T = parts[:4]
        name = "c15_" + "_".join(parts)
        if name not in unit_system_registry:
            if len(parts) > 4:  # a unit system whose MKS current unit is not the ampere
                UnitSystem(name, l, m, t, temperature_unit=T, current_mks_unit=parts[4])
            else:
                UnitSystem(name, l, m, t, temperature_unit=T)
        add_constants(ns, UnitRegistry(unit_system=name))
    else:
        raise KeyError(sid)
    return ns

def unit_system_of(sid):
    """the unit system the namespace `sid` was built for (call after space(sid))"""
    if sid in ("pc", "top", "fresh"):
        return unit_system_registry["mks"]
    if sid.startswith("sys:"):
        return unit_system_registry[sid[4:]]
    if sid == "custom-registry":
        return unit_system_registry["imperial"]
    if sid.startswith("custom:"):
        return unit_system_registry["c15_" + "_".join(sid[7:].split(","))]
    raise KeyError(sid)

class SI(dict):
    """view of a namespace with every entry converted to MKS on access: the defining relations are
    evaluated on SI magnitudes, so that exotic base units (kpc, Mearth, hr …) cannot push an
    intermediate product such as kb**4 into the subnormal range"""
    def __init__(self, ns):
        self.ns = ns
    def __getitem__(self, k):
        return self.ns[k].in_mks()

def ratio(lhs, rhs):
    """lhs / rhs as a pure number (must be dimensionless)"""
    r = lhs / rhs
    assert r.units.dimensions == 1, ("dimension of lhs/rhs", r.units.dimensions)
    return float(r.value) * float(r.units.base_value)
'''

# defining relations evaluated on the real library: name -> (python expression of lhs, of rhs) over a
# namespace `ns` of quantities; `pi` is math.pi.  Names mirror Ref.C15.relations / numRelations.
RELATIONS = {
    "hbar": ("ns['hbar']", "ns['h'] / (2 * math.pi)"),
    "eps0_mu0_c2": ("ns['eps_0_mks'] * ns['mu_0_mks'] * ns['c_mks']**2", "unyt_quantity(1.0, 'dimensionless')"),
    "mu_0": ("ns['mu_0_mks']", "unyt_quantity(4 * math.pi * 1e-7, 'N/A**2')"),
    "stefan_boltzmann": ("ns['σ']", "2 * math.pi**5 * ns['kb']**4 / (15 * ns['c']**2 * ns['h']**3)"),
    "radiation_constant": ("ns['a']", "4 * ns['σ'] / ns['c']"),
    "rydberg": ("ns['R_inf_mks']", "ns['me_mks'] * ns['qp_mks']**4 / (8 * ns['eps_0_mks']**2 * ns['h_mks']**3 * ns['c_mks'])"),
    "planck_mass": ("ns['m_pl']", "(ns['hbar'] * ns['c'] / ns['G'])**0.5"),
    "planck_length": ("ns['l_pl']", "(ns['hbar'] * ns['G'] / ns['c']**3)**0.5"),
    "planck_time": ("ns['t_pl']", "(ns['hbar'] * ns['G'] / ns['c']**5)**0.5"),
    "planck_energy": ("ns['E_pl']", "(ns['hbar'] * ns['c']**5 / ns['G'])**0.5"),
    "planck_temperature": ("ns['T_pl']", "(ns['hbar'] * ns['c']**5 / ns['G'])**0.5 / ns['kb']"),
    "planck_charge": ("ns['q_pl_mks']", "(4 * math.pi * ns['eps_0_mks'] * ns['hbar_mks'] * ns['c_mks'])**0.5"),
    "electron_charge": ("ns['qe']", "-ns['qp']"),
    "unit_Ry": ("unyt_quantity(1.0, 'Ry')", "ns['h'] * ns['c'] * ns['R_inf']"),
    "thomson": ("ns['σ_T_mks']", "(8 * math.pi / 3) * (ns['qp_mks']**2 / (4 * math.pi * ns['eps_0_mks'] * ns['me_mks'] * ns['c_mks']**2))**2"),
    "unit_eV": ("unyt_quantity(1.0, 'eV')", "ns['qp_mks'] * unyt_quantity(1.0, 'V')"),
}
# relations written with plain names only make sense in every unit system; the `_mks` ones are SI
RELTOL_IDENTITY = 1e-12


def snippet(body):
    return PRELUDE + body


def run(tier, seed):
    import numpy as np
    import unyt
    import unyt._physical_ratios as PR
    import unyt.dimensions as D
    from unyt import Unit, unyt_quantity
    from unyt._unit_lookup_table import default_unit_symbol_lut as LUT
    from unyt._unit_lookup_table import physical_constants as TABLE
    from unyt.unit_object import em_conversions

    chk = core.Check("C15", tier, seed)
    chk.proof = core.prove("C15", PROOF_MODULES, extra_targets=("drv_c15",), tier=tier)
    rng = chk.rng
    env = {}
    exec(PRELUDE, env)  # the oracle helpers are the very code of the replays
    mag, same, space = env["mag"], env["same"], env["space"]

    try:
        model = core.Model("drv_c15")
        model.ask(["ping"])
    except Exception as e:  # noqa: BLE001
        model = None
        chk.disagree("driver", repr(e))

    def ask(lines):
        if model is None:
            return [["driver-missing"]] * len(lines)
        try:
            return model.ask(lines)
        except Exception as e:  # noqa: BLE001
            chk.disagree("driver", repr(e))
            return [["driver-failed"]] * len(lines)

    # ------------------------------------------------------------------ namespaces on the live library
    builtin = sorted(k for k in unyt.unit_systems.unit_system_registry if not k.startswith("c15_"))
    sids = ["pc", "top", "fresh"] + ["sys:" + s for s in builtin] + ["custom:ft,oz,min,R"]
    oracle_only = ["custom-registry"]
    gen_sid = {"custom:ft,oz,min,R": "sys:c15_custom"}  # id used by the translator for the same system
    # further custom unit systems (direct oracle only), seeded
    lengths = ["m", "cm", "km", "ft", "mile", "inch", "pc", "kpc", "AU", "ly", "Rsun", "nm", "Å", "furlong", "smoot"]
    masses = ["kg", "g", "lb", "oz", "Msun", "Mearth", "amu", "me", "t", "slug", "mg"]
    times = ["s", "min", "hr", "day", "yr", "Myr", "ms", "fortnight", "ns"]
    temps = ["K", "R"]
    currents = ["mA", "kA", "µA", "MA", "nA"]  # `current_mks_unit=`: a rarely used keyword of UnitSystem
    nextra = 6 if tier == "quick" else 60
    extra = []
    while len(extra) < nextra:
        parts = [rng.choice(lengths), rng.choice(masses), rng.choice(times), rng.choice(temps)]
        if len(extra) % 3 == 1:  # every third extra system (at least two per quick run) has a prefixed current unit
            parts.append(rng.choice(currents))
        sid = "custom:" + ",".join(parts)
        if sid not in extra and sid not in sids:
            extra.append(sid)
    live = {}
    for sid in sids + oracle_only + extra:
        try:
            live[sid] = space(sid)
        except Exception as e:  # noqa: BLE001
            chk.fail(f"materialise|{sid.split(':')[0]}", f"add_constants raised {core.exc_name(e)} for namespace {sid}",
                     {"python": snippet(f"space({sid!r})\n")})

    # ------------------------------------------------------------------ translator self-check: dumps
    rep = ask(["c15.dump.consts", "c15.dump.spaces", "c15.dump.em", "c15.expected", "c15.ref.lists", "c15.relations"])
    if rep[0][0] == "ok" and rep[0][1].split(",") != list(TABLE):
        chk.disagree("dump.consts", f"generated {rep[0][1][:200]} live {list(TABLE)[:50]}")
    want_em = ";".join(f"{u}|{gen.dim_vec(d)}" for (u, d) in em_conversions)
    if rep[2][0] == "ok" and rep[2][1] != want_em:
        chk.disagree("dump.em", f"generated {rep[2][1]} live {want_em}")
    expected_keys = rep[3][1].split(",") if rep[3][0] == "ok" else []
    lists = rep[4] if rep[4][0] == "ok" else ["ok", "", "", ""]
    excl_unit = [x for x in lists[1].split(",") if x]
    excl_value = [x for x in lists[2].split(",") if x]
    homonyms = [x for x in lists[3].split(",") if x]
    model_rel = (rep[5][1].split(",") + rep[5][2].split(",")) if rep[5][0] == "ok" else []
    if sorted(model_rel) != sorted(RELATIONS):
        chk.disagree("relations", f"reference relations {sorted(model_rel)} vs harness {sorted(RELATIONS)}")

    names = list(TABLE)
    rows = ask([f"c15.dump.const\t{n}" for n in names])
    const_unit = {}
    for n, r in zip(names, rows):
        value, unit_name, aliases = TABLE[n]
        u = Unit(unit_name)
        const_unit[n] = u
        want = ["ok", str(core.f2b(float(value))), str(core.f2b(float(u.base_value))), gen.dim_vec(u.dimensions), unit_name,
                ",".join(aliases), gen.expr_wire(u.expr)[1]]
        chk.count("dump:const")
        if r != want:
            chk.disagree("dump.const", f"{n}: generated {r} live {want}")
    for sid in sids:
        if sid not in live:
            continue
        gid = gen_sid.get(sid, sid)
        ns = live[sid]
        keys = list(ns)
        head = ask([f"c15.dump.space\t{gid}"])[0]
        if head[0] != "ok" or sorted(head[2].split(",")) != sorted(keys):
            chk.disagree("dump.space", f"{gid}: generated keys differ from the live namespace: {head[:2]} vs {len(keys)} live keys")
            continue
        reps = ask([f"c15.dump.mat\t{gid}\t{k}" for k in keys])
        for k, r in zip(keys, reps):
            q = ns[k]
            want = ["ok", str(core.f2b(float(q.value))), str(core.f2b(float(q.units.base_value))), gen.dim_vec(q.units.dimensions)]
            chk.count("dump:mat")
            if r != want:
                chk.disagree("dump.mat", f"{gid}/{k}: generated {r} live {want}")

    # ------------------------------------------------------------------ add_constants through the model (every unit system)
    # The body of add_constants — quan.in_base(unit_system) with the UnitsNotReducible fall-back, the
    # _mks entry, quan.in_cgs() — is executed by the model (`AddConstants.addConstantsRow`, built on the
    # shared model of in_base / _check_em_conversion / _em_conversion) for every table row in every unit
    # system this run builds (built-in, custom, seeded custom, the registry with user units) and the
    # three readings are compared with what the library filed under every name of the row.  The
    # theorems of UnytProofs/C15AddConstants.lean are about exactly these definitions.
    from unyt.exceptions import MKSCGSConversionError
    from unyt.unit_object import _check_em_conversion
    from unyt.unit_systems import unit_system_registry as USR

    def expr_to_wire(e):
        c, f = gen.expr_wire(e)
        return f"{c}@{f}"

    def um_wire(S):
        keys = {getattr(D, n) for n in S._dims} | set(S.base_units)  # without memoised entries: the model synthesises
        return "|".join(f"{gen.dim_vec(k)}=none" if v is None else f"{gen.dim_vec(k)}={expr_to_wire(v)}"
                        for k, v in S.units_map.items() if k in keys)

    def system_of(sid):
        if sid == "fresh":
            return USR["mks"], ""
        if sid.startswith("sys:"):
            return USR[sid[4:]], ""
        if sid.startswith("custom:"):
            return USR["c15_" + "_".join(sid[7:].split(","))], ""
        if sid == "custom-registry":
            rows = [("c15_rod", 5.0292, D.length), ("c15_scruple", 1.2959782e-3, D.mass)]
            return USR["imperial"], "|".join(f"{n}&{core.f2b(v)}&{core.f2b(0.0)}&{gen.dim_vec(d)}&0" for n, v, d in rows)
        return None, ""

    def live_route(u, S):
        try:
            cd = _check_em_conversion(u, unit_system=S, registry=u.registry)
        except MKSCGSConversionError:
            return "refused"
        # the short-cut against the declared entries only (memoised ones depend on the history of the
        # process-wide system object and do not change the result — C10 `memo_transparent`)
        keys = {getattr(D, n) for n in S._dims} | set(S.base_units)
        um = {k: v for k, v in S.units_map.items() if k in keys}
        short = u.dimensions in um and u.expr == um[u.dimensions]
        if not any(cd):
            return "plain-shortcut" if short else "plain"
        return "em-shortcut" if short else ("em-current" if cd[0] is not None else "em-gaussian")

    def reading_ok(field, q):
        """does the model's reading `value;scale;offset;dim;coeff;factors` describe the live quantity q"""
        if q is None:
            return field == "none"
        parts = field.split(";", 5)
        if len(parts) != 6:
            return False
        try:
            lc, lf = gen.expr_wire(q.units.expr)
        except ValueError:
            return False
        return (core.close(core.b2f(parts[0]), float(q.value), 1e-11) and core.close(core.b2f(parts[1]), float(q.units.base_value), 1e-11)
                and core.close(core.b2f(parts[2]), float(q.units.base_offset), 1e-11) and parts[3] == gen.dim_vec(q.units.dimensions)
                and core.close(core.b2f(parts[4]), core.b2f(lc), 1e-11) and gen.parse_factors(parts[5]) == gen.parse_factors(lf))

    n_before = len(chk.disagreements)
    try:
        cgs_um = um_wire(USR["cgs"])
    except Exception as e:  # noqa: BLE001
        cgs_um = ""
        chk.disagree("materialise", f"cgs unit system unreadable: {e!r}")
    for sid, ns in live.items():
        try:
            S, extra_rows = system_of(sid)
            if S is None:
                continue
            umw = um_wire(S)
            lines, meta = [], []
            for cname in names:
                value, unit_name, aliases = TABLE[cname]
                u = const_unit[cname]
                lines.append("\t".join(["c15.materialise", extra_rows, umw, cgs_um, expr_to_wire(u.expr), str(core.f2b(float(value)))]))
                meta.append((cname, list(aliases) + [cname], u))
        except Exception as e:  # noqa: BLE001
            chk.disagree("materialise", f"{sid}: request could not be built: {e!r}")
            continue
        for (cname, all_names, u), r in zip(meta, ask(lines)):
            chk.count("materialise:row")
            chk.case(("materialise", sid, cname))
            if r[0] != "ok" or len(r) < 5:
                chk.disagree("materialise", f"{sid}/{cname}: model {r[:3]}")
                continue
            try:
                lr = live_route(u, S)
            except Exception as e:  # noqa: BLE001
                lr = f"raised {core.exc_name(e)}"
            chk.count("route:" + r[1])
            if lr != r[1]:
                chk.disagree("materialise.route", f"{sid}/{cname} ({u}): library takes route {lr}, model {r[1]}")
            for n in all_names:
                for suf, field in (("", r[2]), ("_mks", r[3]), ("_cgs", r[4])):
                    q = ns.get(n + suf)
                    if not reading_ok(field, q):
                        chk.disagree("materialise", f"{sid}: {n + suf} = {q!r} (unit scale "
                                     f"{float(q.units.base_value) if q is not None else None!r}) but the model of add_constants "
                                     f"writes {[core.b2f(x) if x.isdigit() else x for x in field.split(';')[:2]] if field != 'none' else 'nothing'}"
                                     f" [{field.split(';')[-1]}] via route {r[1]}")
                        break
    chk.extra["add_constants_model_disagreements"] = len(chk.disagreements) - n_before

    # ------------------------------------------------------------------ symbolic definitions vs the live doubles
    live_ratio = {k: v for k, v in vars(PR).items()
                  if not k.startswith("_") and isinstance(v, (int, float, np.floating, np.integer)) and not isinstance(v, bool)}
    xr = {}
    try:
        xr = __import__("json").load(open(core.BUILD + "/extract_c15_ratios.json", encoding="utf-8"))
    except Exception as e:  # noqa: BLE001
        chk.disagree("extract", f"build/extract_c15_ratios.json unreadable: {e!r}")
    if xr and sorted(xr["ratios"]) != sorted(live_ratio):
        chk.disagree("ratios.names", f"ast names differ from the module's numeric attributes: "
                     f"{sorted(set(xr['ratios']) ^ set(live_ratio))[:10]}")
    rnames = list(live_ratio)
    reps = ask([f"c15.ratio\t{n}" for n in rnames])
    for n, r in zip(rnames, reps):
        chk.count("sym:ratio")
        chk.case(("ratio", n), {"ratio": n, "value": float(live_ratio[n])} if len(chk.samples) < 2 else None)
        if r[0] != "ok" or not core.close(core.b2f(r[1]), float(live_ratio[n])) or not core.close(core.b2f(r[2]), float(live_ratio[n])):
            chk.disagree("ratio", f"{n}: model (exec, closed form) {[core.b2f(x) for x in r[1:3]] if r[0] == 'ok' else r} live {float(live_ratio[n])!r}")
    reps = ask([f"c15.constcell\t{n}" for n in names])
    for n, r in zip(names, reps):
        chk.count("sym:constcell")
        v = float(TABLE[n][0])
        if r[0] != "ok" or not core.close(core.b2f(r[1]), v) or not core.close(core.b2f(r[2]), v):
            chk.disagree("constcell", f"{n}: model {r} live {v!r}")
    syms = list(LUT)
    reps = ask([f"c15.unitcell\t{n}" for n in syms])
    for n, r in zip(syms, reps):
        chk.count("sym:unitcell")
        v = float(LUT[n][0])
        if r[0] != "ok" or not core.close(core.b2f(r[1]), v) or not core.close(core.b2f(r[2]), v):
            chk.disagree("unitcell", f"{n}: model {r} live {v!r}")

    # ------------------------------------------------------------------ direct oracle 1: guises, registries, unit systems
    def representable_in_cgs(u):
        d = u.dimensions
        if D.current_mks not in d.free_symbols:
            return True
        return d in (D.charge_mks, D.current_mks, D.magnetic_field_mks, D.electric_potential_mks, D.resistance_mks) \
            and str(u.expr) in ("C", "A", "T", "V", "Ω")

    pc_ns = live.get("pc", {})
    has_current = {}
    for sid in live:
        try:
            has_current[sid] = env["unit_system_of"](sid).units_map[D.current_mks] is not None
        except Exception as e:  # noqa: BLE001
            chk.disagree("unit_system_of", f"{sid}: {e!r}")
    for sid, ns in live.items():
        kind = sid if not sid.startswith("custom:") else "custom"
        want_keys = set()
        for cname in names:
            value, unit_name, aliases = TABLE[cname]
            table_q = unyt_quantity(value, unit_name)
            princ = ns.get(cname)
            has_cgs = representable_in_cgs(const_unit[cname])
            guises = [("plain", ""), ("mks", "_mks"), ("cgs", "_cgs")]
            for n in list(aliases) + [cname]:
                for g, suf in guises + ([("hmks", None), ("hcgs", None)] if n == "h" else []):
                    k = (n + suf) if suf is not None else g
                    if g in ("cgs", "hcgs") and not has_cgs:
                        # not representable in CGS: the entry must be absent — and if something is
                        # there nevertheless it must at least be the same quantity
                        if k in ns:
                            chk.fail(f"unrepresentable|{cname}|{g}",
                                     f"{sid}: {k} = {ns[k]!r} exists although {cname} ({unit_name}) has no CGS representation"
                                     + ("" if same(ns[k], table_q) else " — and it is a different quantity"),
                                     {"python": snippet(f"ns = space({sid!r})\nassert {k!r} not in ns, ns[{k!r}]\n")})
                            want_keys.add(k)
                        continue
                    want_keys.add(k)
                    chk.case((sid, k), {"namespace": sid, "name": k, "value": repr(ns.get(k))} if len(chk.samples) < 9 and k.endswith("cgs") else None)
                    chk.count(f"guise:{g}")
                    chk.count(f"space:{kind}")
                    if k not in ns:
                        chk.fail(f"missing|{cname}|{g}", f"namespace {sid} has no entry {k!r} (constant {cname}, guise {g})",
                                 {"python": snippet(f"ns = space({sid!r})\nassert {k!r} in ns\n")})
                        continue
                    q = ns[k]
                    if g in ("cgs", "hcgs") and D.current_mks in q.units.dimensions.free_symbols:
                        chk.fail(f"cgs-guise-not-cgs|{cname}", f"{sid}: {k} = {q!r} still carries the MKS current dimension",
                                 {"python": snippet(f"ns = space({sid!r})\nassert D.current_mks not in ns[{k!r}].units.dimensions.free_symbols, ns[{k!r}]\n")})
                    if g in ("plain", "mks", "hmks") and has_current.get(sid, True) and q.units.dimensions != table_q.units.dimensions:
                        # "equal as quantities" admits the Gaussian counterpart only where SI is not available: in a
                        # namespace built on a unit system WITH a current unit the constant must keep the dimension
                        # of the default one (charge in A*s-like units, not statC)
                        chk.fail(f"dimension|{kind}|{cname}|{g}",
                                 f"{sid}: {k} = {q!r} has dimension {q.units.dimensions} but the table row {cname} is in {unit_name} "
                                 f"and the unit system has an MKS current unit",
                                 {"python": snippet(f"ns = space({sid!r})\nS = unit_system_of({sid!r})\nq = ns[{k!r}]\n"
                                                    f"assert S.units_map[D.current_mks] is None or "
                                                    f"q.units.dimensions == Unit(TABLE[{cname!r}][1]).dimensions, (q, S.units_map[D.current_mks])\n")})
                    if not same(q, table_q):
                        chk.fail(f"guise|{kind}|{cname}|{g}",
                                 f"{sid}: {k} = {q!r} is not the quantity of the table row {cname} = {value!r} {unit_name}",
                                 {"python": snippet(f"ns = space({sid!r})\nq = ns[{k!r}]\nv, u, _ = TABLE[{cname!r}]\n"
                                                    f"assert same(q, unyt_quantity(v, u)), (q, v, u)\n")})
                    elif princ is not None and not same(q, princ):
                        chk.fail(f"guise|{kind}|{cname}|{g}", f"{sid}: {k} = {q!r} differs from {cname} = {princ!r}",
                                 {"python": snippet(f"ns = space({sid!r})\nassert same(ns[{k!r}], ns[{cname!r}]), (ns[{k!r}], ns[{cname!r}])\n")})
                    elif k in pc_ns and not same(q, pc_ns[k]):
                        chk.fail(f"registry|{kind}|{cname}|{g}", f"{sid}: {k} = {q!r} differs from unyt.physical_constants.{k} = {pc_ns[k]!r}",
                                 {"python": snippet(f"ns = space({sid!r})\nassert same(ns[{k!r}], space('pc')[{k!r}])\n")})
        unexpected = sorted(set(ns) - want_keys)
        if unexpected:
            chk.fail(f"unexpected|{kind}", f"namespace {sid} holds quantities that are not a guise of any table row: {unexpected[:5]}",
                     {"python": snippet(f"ns = space({sid!r})\nassert not [k for k in {unexpected[:5]!r} if k in ns]\n")})
        if expected_keys and sid in sids and set(expected_keys) != set(ns):
            chk.disagree("expected-keys", f"{sid}: the naming model of add_constants differs from the live key set: "
                         f"{sorted(set(expected_keys) ^ set(ns))[:8]}")
    # the top-level namespace holds the very objects of unyt.physical_constants (constants win over units)
    import unyt.physical_constants as pcmod
    for k in pc_ns:
        chk.count("top:identity")
        if getattr(unyt, k, None) is not getattr(pcmod, k):
            chk.fail("top-level|shadowed", f"unyt.{k} is not unyt.physical_constants.{k}",
                     {"python": snippet(f"import unyt.physical_constants as pc\nassert unyt.{k} is pc.{k}\n" if k.isidentifier() else
                                        f"import unyt.physical_constants as pc\nassert getattr(unyt, {k!r}) is getattr(pc, {k!r})\n")})

    # ------------------------------------------------------------------ direct oracle 2: defining relations
    rel_model = ask([f"c15.relation\t{n}" for n in RELATIONS])
    for (rname, (lhs, rhs)), mrep in zip(RELATIONS.items(), rel_model):
        numeric = rname in ("thomson", "unit_eV")
        # tolerance of a relation between independent literals: the reference's (Ref.C15.numRelations)
        tol = (float(F(mrep[4])) if (mrep[0] == "ok" and len(mrep) > 4) else 1e-6) if numeric else RELTOL_IDENTITY
        for sid in [s for s in live if s != "top"]:
            ns = live[sid]
            chk.case(("relation", rname, sid))
            chk.count("relation:" + ("numeric" if numeric else "identity"))
            body = (f"ns = SI(space({sid!r}))\nlhs = {lhs}\nrhs = {rhs}\nr = ratio(lhs, rhs)\n"
                    f"assert abs(r - 1) <= {tol!r}, r\n")
            try:
                genv = dict(env)
                genv["ns"] = env["SI"](ns)
                r = eval(f"ratio({lhs}, {rhs})", genv)
                ok = abs(r - 1) <= tol
                what = f"lhs/rhs = {r!r}"
            except Exception as e:  # noqa: BLE001
                ok = False
                what = f"raised {core.exc_name(e)}: {e}"
            if ok:
                # the same relation in the namespace's own units (not decisive: products of
                # very small numbers may leave the normal range of doubles there)
                try:
                    genv["ns"] = ns
                    r2 = eval(f"ratio({lhs}, {rhs})", genv)
                    chk.count("relation-native:" + ("agrees" if abs(r2 - 1) <= max(tol, 1e-9) else "rounding"))
                except Exception:  # noqa: BLE001
                    chk.count("relation-native:not-evaluable")
            if not ok:
                kind = sid if not sid.startswith("custom:") else "custom"
                chk.fail(f"relation|{rname}", f"defining relation {rname} fails in namespace {sid} ({kind}): {what} (tolerance {tol:g})",
                         {"python": snippet(body)})
        # the model's Float evaluation of both sides against the live SI values
        if mrep[0] == "ok" and "pc" in live:
            genv = dict(env)
            genv["ns"] = live["pc"]
            try:
                lq = eval(lhs, genv)
                live_l = float(lq.value) * float(lq.units.base_value)
                if not core.close(core.b2f(mrep[1]), live_l, 1e-9):
                    chk.disagree("relation.value", f"{rname}: model lhs {core.b2f(mrep[1])!r} live {live_l!r}")
                if mrep[3] != "1":
                    chk.disagree("relation.check", f"{rname}: the model's check of the relation is false")
            except Exception as e:  # noqa: BLE001
                chk.disagree("relation.value", f"{rname}: {e!r}")
        elif mrep[0] != "ok":
            chk.disagree("relation", f"{rname}: model {mrep}")

    # ------------------------------------------------------------------ direct oracle 3: a name that is both a unit and a constant
    unit_hits = 0
    for k in pc_ns:
        try:
            u = Unit(k)
        except Exception:  # noqa: BLE001
            continue
        unit_hits += 1
        q = pc_ns[k]
        canon = str(u.expr)
        chk.case(("unit-vs-constant", k))
        chk.count("unit-vs-constant")
        uq = unyt_quantity(1.0, u)
        if k in homonyms or canon in homonyms:
            if u.dimensions == q.units.dimensions:
                chk.fail(f"homonym|{canon}", f"{k} is declared a homonym but unit and constant have the same dimension",
                         {"python": snippet(f"assert Unit({k!r}).dimensions != space('pc')[{k!r}].units.dimensions\n")})
            continue
        if not same(uq, q):
            chk.fail(f"unit-vs-constant|{canon}",
                     f"Unit({k!r}) = {float(u.base_value)!r} SI but the constant {k} = {q!r}",
                     {"python": snippet(f"assert same(unyt_quantity(1.0, {k!r}), space('pc')[{k!r}]), (Unit({k!r}).base_value, space('pc')[{k!r}])\n")})
    reps = ask([f"c15.unitvsconst\t{k}" for k in LUT])
    for k, r in zip(LUT, reps):
        both = k in pc_ns
        if r[0] != "ok" or (r[1] == "1") != both:
            chk.disagree("unitvsconst", f"{k}: model says both={r} live both={both}")
        elif both and k not in homonyms:
            live_ok = same(unyt_quantity(1.0, k), pc_ns[k])
            if (r[2] == "1") != live_ok:
                chk.disagree("unitvsconst", f"{k}: model verdict {r[2]} live verdict {live_ok}")

    # ------------------------------------------------------------------ direct oracle 4: values against the published ones
    refs = ask([f"c15.ref\t{n}" for n in names])
    for n, r in zip(names, refs):
        value, unit_name, _al = TABLE[n]
        q = unyt_quantity(value, unit_name)
        chk.case(("value", n))
        chk.count("value")
        if r[0] != "ok":
            chk.fail(f"value|{n}", f"constant {n!r} has no reference value (a new row must be given one)",
                     {"python": snippet(f"assert {n!r} not in TABLE, 'constant {n} has no reference value in UnytModel/Ref/C15Constants.lean'\n")})
            continue
        ref, tol, dim = F(r[1]), F(r[2]), r[3]
        ok = abs(mag(q) - ref) <= tol * abs(ref) and gen.dim_vec(q.units.dimensions) == dim
        if not ok:
            chk.fail(f"value|{n}", f"constant {n} = {value!r} {unit_name} is outside its class: reference {float(ref)!r}, class tolerance {float(tol):.0e}",
                     {"python": snippet(f"v, u, _ = TABLE[{n!r}]\nq = unyt_quantity(v, u)\n"
                                        f"assert abs(mag(q) - F({str(ref)!r})) <= F({str(tol)!r}) * abs(F({str(ref)!r})), float(mag(q))\n")})

    # ------------------------------------------------------------------ direct oracle 5: the 2019-exact constants follow a published edition
    ed_names = ask(["c15.editions"])[0]
    ed_names = [x for x in ed_names[1].split(",") if x] if ed_names[0] == "ok" else []
    followed = {}
    for n, r in zip(ed_names, ask([f"c15.editions\t{n}" for n in ed_names])):
        if r[0] != "ok" or n not in TABLE:
            chk.disagree("editions", f"{n}: {r}")
            continue
        value, unit_name, _al = TABLE[n]
        m = mag(unyt_quantity(value, unit_name))
        eds = [x.split("=") for x in r[2].split(";")]
        hit = [lab for lab, v in eds if abs(m - F(v)) <= GUISE_TOL * abs(F(v))]
        chk.case(("edition", n))
        chk.count("edition")
        followed[n] = hit[0] if hit else None
        if (hit[0] if hit else "(none)") != r[1]:
            chk.disagree("editions", f"{n}: model says {r[1]}, live value matches {hit}")
        if not hit:
            cond = " or ".join(f"abs(m - F({v!r})) <= TOL * F({v!r})" for _lab, v in eds)
            chk.fail(f"edition|{n}", f"constant {n} = {value!r} {unit_name} is not the recommended value of any of {[lab for lab, _ in eds]}",
                     {"python": snippet(f"v, u, _ = TABLE[{n!r}]\nm = mag(unyt_quantity(v, u))\nassert {cond}, float(m)\n")})
    chk.extra["editions_followed"] = followed

    # ------------------------------------------------------------------ model checks and exclusion lists
    checks = [f"c15.check\t{w}" for w in ("relations", "numrelations", "top", "constdoubles", "unitdoubles", "unsuffixed", "constunits", "editions")] \
        + ["c15.check\tunitconst\t1", "c15.check\tunitconstsym\t1", "c15.check\tvalues\t1"] \
        + [f"c15.check\tspace\t{w}\t{gen_sid.get(s, s)}" for s in sids if s in live
           for w in ("names", "table", "mks", "cgsdim", "aliases", "suffixes", "registry")]
    for line, r in zip(checks, ask(checks)):
        chk.count("model-check")
        if r != ["ok", "1"]:
            chk.disagree("check", f"{line.replace(chr(9), ' ')}: {r}")
    known = {k["key"] for k in core.load_known() if k["property"] == "C15" and k.get("status") == "known"}
    want_known = {f"unit-vs-constant|{k}" for k in excl_unit} | {f"value|{k}" for k in excl_value}
    if known != want_known:
        chk.disagree("exclusions", f"exclusion lists {sorted(want_known)} and known findings {sorted(known)} are not in one-to-one correspondence")
    # restore the global state this run touched: the custom unit systems it registered
    from unyt.unit_systems import unit_system_registry as _usr
    for k in [k for k in _usr if k.startswith("c15_")]:
        del _usr[k]
    chk.extra["namespaces"] = len(live)
    chk.extra["unit_constant_homonyms"] = homonyms
    chk.extra["names_that_are_units"] = unit_hits
    return chk.finish(
        "distinct (namespace, key) pairs, (relation, namespace) pairs, constant/unit names and table rows compared on the real library",
        "finite domain: every key of every namespace; extra custom unit systems are seeded",
    )
