"""C18-specific catalogue templates (registered on import, after npcatalog's own): call forms in which a
SEQUENCE-valued argument (limits, bin edges, fill values, pad values ...) is built from quantities, so that
`c18_cat.fuse_call` can also pass it as ONE unyt_array (a view of a guard buffer, in a differently scaled unit).
Imported by harness/c18_cat.py only (other checks' tables do not see these templates)."""
import numpy as np

import npcatalog as C
from npcatalog import K, Op, T

C._load()  # the shared tables first, so that the order of the shared templates is unchanged

N = lambda f: "numpy." + f  # noqa: E731

# limits of the histogram family given as quantities (flat (min, max, min, max ...) sequence: the form the helper slices)
T(N("histogram"), "c18rangeq", lambda c: K(c.A(), bins=3, range=(Op(-2.0), Op(3.0))), dtypes="fi")
T(N("histogram"), "c18rangeqw", lambda c: K(c.A(), bins=3, range=[Op(-2.0), Op(3.0)], weights=c.A(g=1)), dtypes="f")
T(N("histogram_bin_edges"), "c18rangeq", lambda c: K(c.A(), bins=4, range=(Op(-1.0), Op(2.0))), dtypes="fi")
T(N("histogram2d"), "c18rangeq", lambda c: K(c.A((c.n,)), c.A((c.n,)), bins=3,
                                               range=(Op(-3.0), Op(3.0), Op(-2.0), Op(2.0))), dtypes="fi", shapes=("1d",))
T(N("histogram2d"), "c18rangeqn", lambda c: K(c.A((c.n,)), c.A((c.n,)), bins=3,
                                                range=[[Op(-3.0), Op(3.0)], [Op(-2.0), Op(2.0)]]), dtypes="fi", shapes=("1d",))
T(N("histogramdd"), "c18rangeq", lambda c: K((c.A((c.n,)), c.A((c.n,))), bins=3,
                                               range=(Op(-3.0), Op(3.0), Op(-2.0), Op(2.0))), dtypes="fi", shapes=("1d",))
T(N("histogramdd"), "c18rangeqn", lambda c: K((c.A((c.n,)), c.A((c.n,))), bins=3,
                                                range=[[Op(-3.0), Op(3.0)], [Op(-2.0), Op(2.0)]]), dtypes="fi", shapes=("1d",))
# bin edges given as a sequence of quantities
T(N("histogram"), "c18edgesq", lambda c: K(c.A(), bins=[Op(-5.0), Op(-1.0), Op(0.0), Op(2.0), Op(6.0)]), dtypes="fi")
T(N("digitize"), "c18binsq", lambda c: K(c.A(), [Op(-5.0), Op(-1.0), Op(0.0), Op(2.0), Op(6.0)]), dtypes="fi")
# limits / fill values / coordinates given as sequences of quantities
T(N("clip"), "c18seq", lambda c: K(c.A((c.n,)), [Op(-1.0)] * 1 + [Op(-2.0)] * (c.n - 1), [Op(2.0)] * c.n), dtypes="f", shapes=("1d",))
T(N("interp"), "c18seq", lambda c: K(c.A(dtype=np.float64), [Op(-3.0), Op(-1.0), Op(2.0)], [Op(1.0, "value", 1), Op(4.0, "value", 1), Op(9.0, "value", 1)]), dtypes="f")
T(N("linspace"), "c18seq", lambda c: K([Op(0.0), Op(1.0)], [Op(4.0), Op(5.0)], 5))
T(N("select"), "c18seq", lambda c: K([np.array([True, False, True]), np.array([False, True, True])],
                                      [[Op(1.0), Op(2.0), Op(3.0)], [Op(4.0), Op(5.0), Op(6.0)]], Op(0.0)))
T(N("pad"), "c18seq", lambda c: K(c.A((c.n,)), 2, constant_values=(Op(1.0), Op(7.0))), dtypes="f", shapes=("1d",))
T(N("searchsorted"), "c18seq", lambda c: K([Op(-3.0), Op(-1.0), Op(2.0), Op(5.0)], c.A()), dtypes="f")
T(N("isin"), "c18seq", lambda c: K(c.A(), [Op(1.0), Op(2.0), Op(3.0)]), dtypes="fi")
T(N("trapezoid"), "c18seq", lambda c: K(c.A((4,)), [Op(0.0, "value", 1), Op(1.0, "value", 1), Op(3.0, "value", 1), Op(4.0, "value", 1)]), dtypes="f", shapes=("1d",))
T(N("cross"), "c18seq", lambda c: K([Op(1.0), Op(2.0), Op(3.0)], [Op(0.5, "value", 1), Op(1.5, "value", 1), Op(2.5, "value", 1)]))
