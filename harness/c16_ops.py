"""C16 sections (see c16.py)."""
import itertools
import warnings

import numpy as np

import core
import c16_lib as L


class Ctx:
    def __init__(self, chk, model, tier, rng, shapes):
        self.chk = chk
        self.model = model
        self.tier = tier
        self.rng = rng
        self.shapes = shapes
        self.lines = []
        self.expect = []
        self.extract = None

    def ask(self, line, expected, what):
        """queue a model query; `expected` = list of reply fields the implementation showed
        (a trailing None = "nothing observable", the field is not compared)"""
        self.lines.append(line)
        while expected and expected[-1] is None:
            expected = expected[:-1]
        self.expect.append(([str(e) for e in expected], what))

    def flush(self):
        chk = self.chk
        try:
            replies = self.model.ask(self.lines)
        except Exception as e:
            chk.disagree("driver", repr(e))
            return
        ndis = 0
        for line, rep, (exp, what) in zip(self.lines, replies, self.expect):
            op = line.split("\t", 1)[0]
            chk.count("model:" + op)
            if isinstance(exp, tuple) and exp and exp[0] == "coerce":
                exp, rep = coerce_compare(exp, rep)
            elif len(exp) < len(rep) and rep[0] == "ok" and op == "c16.new":
                rep = rep[:len(exp)]
            if rep != exp:
                ndis += 1
                if ndis <= 40:
                    chk.disagree(op, f"{what}: model {rep} vs implementation {exp}   [{line}]")
        self.lines, self.expect = [], []

    def tables(self):
        if self.extract is None:
            import json
            import os

            self.extract = json.load(open(os.path.join(core.BUILD, "extract_c16_tables.json"), encoding="utf-8"))
        return self.extract

    # ---- direct oracle on one operation's result ------------------------------------------
    def judge(self, r, family, opname, src, count=True):
        """first sentence of the property on every unyt object inside result `r`"""
        for t in L.flat(r):
            b = L.bad(t)
            if b:
                self.chk.fail(f"{b}|{family}|{opname}",
                              f"{opname}: result {type(t).__name__} of shape {t.shape}",
                              {"python": guard_last(src) + L.ORACLE_SRC + ASSERT_GOOD, "operation": opname})


def guard_last(src):
    """the replay judges the value an operation returns: an operation that raises instead (as the
    unchanged tree may) returns nothing to judge"""
    lines = src.rstrip("\n").split("\n")
    last = lines[-1]
    return "\n".join(lines[:-1] + ["try:", "    " + last, "except Exception:", "    r = None"]) + "\n"


ASSERT_GOOD = (
    "bad = [(type(t).__name__, t.shape) for t in _flat(r) if _bad(t)]\n"
    "assert not bad, ('C16: 0-d unyt_array or multi-element unyt_quantity', bad)\n"
)


def coerce_compare(exp, rep):
    """model reply of c16.coerce against the implementation's (scale, offset, dim, values)"""
    _tag, sc, off, dim, vals = exp[:5]
    rtol, atol = (exp[5], exp[6]) if len(exp) > 5 else (1e-11, 1e-9)
    e = ["ok", "unit-agrees", dim, "values-agree"]
    if rep[0] != "ok" or len(rep) != 5:
        return e, rep
    mvals = [core.b2f(v) for v in rep[4].split(",")] if rep[4] else []
    r = ["ok",
         "unit-agrees" if core.close(core.b2f(rep[1]), sc, 1e-12) and core.close(core.b2f(rep[2]), off, 1e-12) else f"unit {core.b2f(rep[1])},{core.b2f(rep[2])} vs {sc},{off}",
         rep[3],
         "values-agree" if len(mvals) == len(vals) and all(core.close(a, b, rtol, atol) for a, b in zip(mvals, vals)) else f"values {mvals} vs {vals}"]
    return e, r


def outcome(fn):
    with warnings.catch_warnings():
        warnings.simplefilter("ignore")
        try:
            return ("ok", fn())
        except Exception as e:  # noqa: BLE001
            return ("err", e)


# ==========================================================================================
# S1 — the shape algebra against NumPy itself


def s1_shape_algebra(ctx):
    chk, rng = ctx.chk, ctx.rng
    nrand = 12 if ctx.tier == "quick" else 400
    for shp in ctx.shapes:
        a = L.base_array(shp)
        for ix in L.index_forms(shp, rng, nrand):
            try:
                w = L.index_w(ix)
            except ValueError:
                continue
            st, r = outcome(lambda: a[ix])
            exp = ["ok", L.shape_w(np.shape(r))] if st == "ok" else ["err", core.exc_name(r)]
            ctx.ask(f"c16.index\t{L.shape_w(shp)}\t{w}", exp, f"ndarray{shp}[{L.index_src(ix)}]")
            chk.case(("index", shp, w))
            chk.count("S1:index:" + L.index_kind(ix))
        ctx.ask(f"c16.size\t{L.shape_w(shp)}", ["ok", a.size], f"size {shp}")
        # reductions
        r_ = len(shp)
        axes_list = [None, ()] + list(range(-r_ - 1, r_ + 1)) + [tuple(c) for k in (2, 3) for c in itertools.combinations(range(r_), k)]
        axes_list += [(0, 0), (0, -r_)] if r_ else []
        for ax in axes_list:
            for keep in (False, True):
                st, r = outcome(lambda: np.add.reduce(a, axis=ax, keepdims=keep))
                exp = ["ok", L.shape_w(np.shape(r))] if st == "ok" else ["err", "AxisError" if "Axis" in core.exc_name(r) or isinstance(r, (ValueError, np.exceptions.AxisError)) else core.exc_name(r)]
                axw = "none" if ax is None else L.ints_w(ax if isinstance(ax, tuple) else (ax,))
                if shp == () and ax not in (None, ()):
                    continue  # NumPy lets axis=0/-1 through for 0-d operands of reduce; not a shape question
                ctx.ask(f"c16.reduce\t{L.shape_w(shp)}\t{axw}\t{1 if keep else 0}", exp, f"add.reduce({shp}, axis={ax}, keepdims={keep})")
                chk.case(("reduce", shp, axw, keep))
        # view-making methods
        views = [("squeeze", "_", lambda: a.squeeze()), ("transpose", "_", lambda: a.T), ("ravel", "_", lambda: a.ravel())]
        for k in range(-r_ - 1, r_ + 1):
            views.append(("squeezeAxis", str(k), lambda k=k: a.squeeze(axis=k)))
        for k in range(0, r_ + 2):
            views.append(("expandDims", str(k), lambda k=k: np.expand_dims(a, k)))
        for perm in itertools.permutations(range(r_)):
            views.append(("transposeAxes", L.ints_w(perm), lambda perm=perm: a.transpose(perm)))
        if r_:
            views.append(("transposeAxes", L.ints_w([0] * r_), lambda: a.transpose([0] * r_)))
        targets = [(), (-1,), (1,), (1, 1), (a.size,), (-1, 1), (1, -1), (2, -1), (-1, 2), (3, -1), (0, -1), (-1, -1), (2, 3), (6,), (0,), (0, 5), (12,), (4, 3), (-1, 0)]
        for t in targets:
            views.append(("reshape", L.ints_w(t), lambda t=t: a.reshape(t)))
        for n in (0, 1, 3):
            views.append(("repeat", str(n), lambda n=n: a.repeat(n)))
        for kind, arg, fn in views:
            st, r = outcome(fn)
            if st == "ok":
                exp = ["ok", "ndarray", L.shape_w(r.shape)]
            else:
                en = core.exc_name(r)
                exp = ["err", "AxisError" if "AxisError" in en else en]
            ctx.ask(f"c16.view\tndarray\t{L.shape_w(shp)}\t{kind}\t{arg}", exp, f"ndarray{shp}.{kind}({arg})")
            chk.case(("view", shp, kind, arg))
            chk.count("S1:view:" + kind)
    # broadcasting
    for sa, sb in itertools.product(ctx.shapes, repeat=2):
        st, r = outcome(lambda: np.broadcast_shapes(sa, sb))
        exp = ["ok", L.shape_w(r)] if st == "ok" else ["err", "ValueError"]
        ctx.ask(f"c16.bcast\t{L.shape_w(sa)}\t{L.shape_w(sb)}", exp, f"broadcast {sa} {sb}")
        chk.case(("bcast", sa, sb))
        chk.count("S1:broadcast")


# ==========================================================================================
# S2 — __getitem__ on unyt objects


PARENT_CLS = {"A": "unyt_array", "Q": "unyt_quantity", "Q1": "unyt_quantity", "S": "subA"}


def parents(ctx):
    out = [("A", s) for s in ctx.shapes] + [("Q", ()), ("Q1", (1,))]
    out += [("S", s) for s in ((3,), (2, 3), (1,))]
    return out


def s2_getitem(ctx):
    import unyt

    chk, rng = ctx.chk, ctx.rng
    nrand = 8 if ctx.tier == "quick" else 250
    for kind, shp in parents(ctx):
        env = L.make_env(shp, kind)
        x = env["x"]
        in_domain = not (kind == "A" and shp == ())  # a 0-d unyt_array only exists by explicit construction
        for ix in L.index_forms(shp, rng, nrand):
            try:
                w = L.index_w(ix)
            except ValueError:
                continue
            st, r = outcome(lambda: x[ix])
            ik = L.index_kind(ix)
            chk.case(("getitem", kind, shp, w), {"op": "getitem", "parent": f"{kind}{shp}", "index": L.index_src(ix)} if len(chk.samples) < 3 else None)
            chk.count(f"S2:getitem:{kind}:{ik}")
            if st == "err":
                ctx.ask(f"c16.getitem\t{PARENT_CLS[kind]}\t{L.shape_w(shp)}\t{w}", ["err", core.exc_name(r)], f"{kind}{shp}[{L.index_src(ix)}]")
                continue
            isun = isinstance(r, unyt.unyt_array)
            utag = (1 if r.units == x.units and str(r.units) == str(x.units) else 0) if isun else "-"
            ctx.ask(f"c16.getitem\t{PARENT_CLS[kind]}\t{L.shape_w(shp)}\t{w}",
                    ["ok", L.cls_name(r), L.shape_w(np.shape(r)), utag, "parent" if getattr(r, "name", None) == "p" else str(getattr(r, "name", None)), 1 if ik == "basic" else 0],
                    f"{kind}{shp}[{L.index_src(ix)}]")
            if not in_domain:
                chk.count("S2:oracle-skipped-0d-array-parent")
                continue
            src = L.setup_src(shp, kind) + f"r = x[{L.index_src(ix)}]\n"
            pk = "quantity-parent" if kind in ("Q", "Q1") else "array-parent"
            if not isun:
                chk.fail(f"bare-result|getitem|{pk}|{ik}", f"indexing returned a bare {type(r).__name__}",
                         {"python": src + "assert isinstance(r, unyt_array), type(r)\n"})
                continue
            ctx.judge(r, "getitem", f"{pk}|{ik}", src)
            if r.units != x.units:
                chk.fail(f"units-lost|getitem|{pk}|{ik}", "indexing changed the units", {"python": src + "assert r.units == x.units, (r.units, x.units)\n"})
            if r.name != x.name:
                chk.fail(f"name-lost|getitem|{pk}|{ik}", "indexing lost the name", {"python": src + "assert r.name == x.name, (r.name, x.name)\n"})
            if ik == "basic" and r.ndim >= 1 and r.size > 0 and not np.shares_memory(r, x):
                chk.fail(f"not-view|getitem|{pk}|basic", "a basic index (slice/ellipsis/newaxis) returned detached data",
                         {"python": src + "assert np.shares_memory(r, x)\n"})
            if ik == "advanced" and r.size > 0 and np.shares_memory(r, x):
                chk.fail(f"not-copy|getitem|{pk}|advanced", "an advanced index returned a view", {"python": src + "assert not np.shares_memory(r, x)\n"})


# ==========================================================================================
# S3 — iteration


def s3_iteration(ctx):
    import unyt

    chk = ctx.chk
    for kind, shp in parents(ctx):
        env = L.make_env(shp, kind)
        x = env["x"]
        st, items = outcome(lambda: list(x))
        chk.case(("iter", kind, shp))
        chk.count("S3:iter:" + kind)
        if st == "err":
            ctx.ask(f"c16.iter\t{PARENT_CLS[kind]}\t{L.shape_w(shp)}", ["err", core.exc_name(items)], f"iter {kind}{shp}")
            continue
        descr = []
        for e in items:
            isun = isinstance(e, unyt.unyt_array)
            d = f"{L.cls_name(e)}@{L.shape_w(np.shape(e))}@{(1 if e.units == x.units else 0) if isun else '-'}@{'parent' if getattr(e, 'name', None) == 'p' else getattr(e, 'name', None)}"
            if d not in descr:
                descr.append(d)
        ctx.ask(f"c16.iter\t{PARENT_CLS[kind]}\t{L.shape_w(shp)}", ["ok", len(items), "|".join(descr)], f"iter {kind}{shp}")
        src = L.setup_src(shp, kind) + "r = list(x)\n"
        if len(items) != shp[0]:
            chk.fail("count|iter", "iteration yields a wrong number of items", {"python": src + "assert len(r) == x.shape[0]\n"})
        for e in items:
            if not isinstance(e, unyt.unyt_array):
                chk.fail("bare-result|iter", "iteration yields bare values", {"python": src + "assert all(isinstance(e, unyt_array) for e in r)\n"})
                break
            if e.units != x.units or e.name != x.name:
                chk.fail("meta-lost|iter", "iteration loses units or name", {"python": src + "assert all(e.units == x.units and e.name == x.name for e in r)\n"})
                break
            if e.ndim >= 1 and e.size and not np.shares_memory(e, x):
                chk.fail("not-view|iter", "sub-arrays yielded by iteration are detached", {"python": src + "assert all(np.shares_memory(e, x) for e in r)\n"})
                break
        ctx.judge(items, "iter", "array-parent" if kind in ("A", "S") else "quantity-parent", src)


# ==========================================================================================
# S4 — constructors, data * unit, list coercion

CTOR_CLS = ["unyt_array", "unyt_quantity", "subA", "subQ"]


def s4_constructors(ctx):
    import unyt
    import gen

    chk = ctx.chk
    # ---- constructors: class x input kind x shape ------------------------------------------
    for shp in ctx.shapes:
        inputs = [("ndarray", "a.copy()", ("ndarray", L.shape_w(shp), "_")),
                  ("unyt_array", "unyt_array(a.copy(), 'm')", ("unyt", "unyt_array", L.shape_w(shp)))]
        if shp == ():
            inputs += [("pyfloat", "3.0", ("pyscalar", "_", "_")), ("pyint", "3", ("pyscalar", "_", "_")),
                       ("npfloat", "np.float64(3)", ("npnumber", "_", "_")),
                       ("unyt_quantity", "unyt_quantity(3.0, 'm')", ("unyt", "unyt_quantity", "()")),
                       ("str", "'abc'", ("nonNumeric", "_", "_")), ("emptylist", "[]", ("emptyList", "_", "_"))]
        if shp == (1,):
            inputs += [("q1", "unyt_quantity(np.array([3.0]), 'm')", ("unyt", "unyt_quantity", "1"))]
        if len(shp) >= 1 and all(shp):
            inputs += [("list", "a.tolist()", ("list", L.shape_w(shp), "_")),
                       ("tuple", "tuple(a.tolist())", ("list", L.shape_w(shp), "_"))]
        if len(shp) >= 1 and shp[0] >= 1:
            inputs += [("list-of-unyt", "list(unyt_array(a.copy(), 'm'))", ("listOfUnyt", str(shp[0]), L.shape_w(shp[1:])))]
        for cname in CTOR_CLS:
            for iname, isrc, iw in inputs:
                for bypass in (False, True):
                    args = "inp, m, bypass_validation=True" if bypass else "inp, 'm'"
                    src = L.setup_src(shp) + f"inp = {isrc}\nr = {cname}({args})\n"
                    env = {}
                    st, r = outcome(lambda: exec(src, env))
                    chk.case(("ctor", cname, iname, shp, bypass), {"op": f"{cname}({isrc}, 'm'{', bypass_validation=True' if bypass else ''})", "shape": list(shp)} if len(chk.samples) < 6 else None)
                    chk.count("S4:ctor:" + cname)
                    which = "quantity" if cname in ("unyt_quantity", "subQ") else "array"
                    line = f"c16.new\t{which}\t{cname}\t{iw[0]}\t{iw[1]}\t{iw[2]}\t{1 if bypass else 0}"
                    if st == "err":
                        ctx.ask(line, ["err", core.exc_name(r)], f"{cname}({iname}{shp}, bypass={bypass})")
                        continue
                    r, inp = env["r"], env["inp"]
                    shares = int(isinstance(inp, np.ndarray) and np.size(inp) > 0 and bool(np.shares_memory(r, inp)))
                    exp_sh = shares if (isinstance(inp, np.ndarray) and np.size(inp) > 0) else None
                    ctx.ask(line, ["ok", L.cls_name(r), L.shape_w(r.shape), exp_sh], f"{cname}({iname}{shp}, bypass={bypass})")
                    # oracle: a quantity never has more than one element; ndarray input is viewed
                    if isinstance(r, unyt.unyt_quantity) and r.size > 1:
                        chk.fail(f"multi-quantity|ctor|{cname}", f"{cname}(...) built a quantity with {r.size} elements",
                                 {"python": guard_last(src) + "assert not (isinstance(r, unyt_quantity) and r.size > 1), r.shape\n"})
                    if iname == "ndarray" and r.size > 0 and not bypass and which == "array" and not np.shares_memory(r, inp):
                        chk.fail(f"not-view|ctor|{cname}(ndarray)", "the constructor copied a NumPy array",
                                 {"python": src + "assert np.shares_memory(r, inp)\n"})
    # ---- data * unit / unit * data / data / unit ----------------------------------------------
    datas = [("pyfloat", "3.0", ()), ("pyint", "3", ()), ("npfloat", "np.float64(3)", ()), ("complex", "(1+2j)", ()),
             ("boollist", "[True, False]", None), ("str", "'abc'", None), ("emptylist", "[]", (0,)), ("nestedlist", "[[3.0]]", (1, 1))]
    for shp in ctx.shapes:
        datas.append((f"ndarray{shp}", f"(np.arange({int(np.prod(shp)) if shp else 1}, dtype=float) + 1.0).reshape({shp!r})", shp))
        datas.append((f"unyt_array{shp}", f"unyt_array((np.arange({int(np.prod(shp)) if shp else 1}, dtype=float) + 1.0).reshape({shp!r}), 's', name='p')", shp))
        datas.append((f"intarray{shp}", f"np.ones({shp!r}, dtype=int)", shp))
    datas.append(("quantity", "unyt_quantity(3.0, 's')", ()))
    datas.append(("q1", "unyt_quantity(np.array([3.0]), 's')", (1,)))
    for dname, dsrc, shp in datas:
        for form, expr in (("data*unit", "data * m"), ("unit*data", "m * data"), ("data/unit", "data / m"), ("unit/data", "m / data")):
            src = L.SETUP + f"data = {dsrc}\nr = {expr}\n"
            env = {}
            st, r = outcome(lambda: exec(src, env))
            chk.case(("unitmul", dname, form))
            chk.count("S4:" + form)
            if st == "err":
                if form in ("data*unit", "unit*data"):
                    ctx.ask(f"c16.unitmul\t0\t{L.shape_w(shp or ())}", ["err", core.exc_name(r)], f"{form} {dname}")
                continue
            r, data = env["r"], env["data"]
            if form in ("data*unit", "unit*data"):
                ctx.ask(f"c16.unitmul\t1\t{L.shape_w(shp)}", ["ok", L.cls_name(r), L.shape_w(r.shape)], f"{form} {dname}")
            ctx.judge(r, "ctor", form, src)
            if isinstance(data, np.ndarray) and data.size and isinstance(r, np.ndarray) and np.shares_memory(r, data):
                chk.fail(f"not-copy|ctor|{form}", "multiplying/dividing data by a unit returned a view of the data",
                         {"python": src + "assert not np.shares_memory(r, data)\n"})
            if isinstance(r, unyt.unyt_array) and r.name is not None and not isinstance(data, unyt.unyt_array):
                chk.count("S4:name-on-fresh-object")
    # ---- lists of quantities in mixed commensurable units ----------------------------------------
    groups = [["m", "cm", "km", "inch"], ["s", "ms", "hr"], ["K", "degC", "degF"], ["J", "erg", "eV"], ["m/s", "km/hr"], ["m", "m", "m"], ["cm", "m"],
              ["g", "kg", "lb"], ["m", "s"], ["kg", "m", "kg"]]
    rng = ctx.rng
    for units in groups:
        for n in (2, 3, 4):
            for wrap in ("list", "tuple"):
                us = [units[i % len(units)] for i in range(n)]
                if n == 4:
                    rng.shuffle(us)
                vals = [round(rng.uniform(1, 50), 3) for _ in us]
                items = ", ".join(f"unyt_quantity({v!r}, {u!r})" for v, u in zip(vals, us))
                lit = f"[{items}]" if wrap == "list" else f"({items},)"
                src = L.SETUP + f"lst = {lit}\nr = unyt_array(lst)\n"
                env = {}
                st, r = outcome(lambda: exec(src, env))
                chk.case(("coerce", tuple(us), wrap))
                chk.count("S4:coerce")
                uobjs = [unyt.Unit(u) for u in us]
                wire = "|".join("~".join([str(core.f2b(v)), str(core.f2b(u.base_value)), str(core.f2b(u.base_offset)), gen.dim_vec(u.dimensions)]) for v, u in zip(vals, uobjs))
                if st == "err":
                    ctx.ask(f"c16.coerce\t{wire}", ["err", core.exc_name(r)], f"unyt_array({lit})")
                    if all(u.dimensions == uobjs[0].dimensions for u in uobjs):
                        chk.fail("raise|coerce", f"a list of commensurable quantities was refused ({core.exc_name(r)})", {"python": src})
                    continue
                r = env["r"]
                ctx.lines.append(f"c16.coerce\t{wire}")
                ctx.expect.append((("coerce", float(r.units.base_value), float(r.units.base_offset), gen.dim_vec(r.units.dimensions), [float(v) for v in r.d]), f"unyt_array({lit})"))
                want = [float(unyt.unyt_quantity(v, u).to(uobjs[0])) for v, u in zip(vals, uobjs)]
                ok_units = r.units == uobjs[0] and str(r.units) == str(uobjs[0])
                if not ok_units:
                    chk.fail("first-unit|coerce", "the coerced list does not carry the first element's unit",
                             {"python": src + "assert str(r.units) == str(lst[0].units), r.units\n"})
                elif not np.allclose(r.d, want, rtol=1e-12, atol=1e-9):
                    chk.fail("values|coerce", "values of the coerced list were not converted to the first element's unit",
                             {"python": src + "w = [float(e.to(lst[0].units)) for e in lst]\nassert np.allclose(r.d, w, rtol=1e-12, atol=1e-9), (r, w)\n"})
                ctx.judge(r, "ctor", "coerce", src)


# ==========================================================================================
# S4b — `_coerce_iterable_units` as the program regenerated from the live source (c16.coerceprog):
# element dtype kinds x offset / plain / incommensurable unit groups x element shapes x routes
# (constructor from list / tuple, list operand of a binary ufunc on either side)

COERCE_GROUPS = [["K", "degC", "degF"], ["degC", "K", "degF", "R"], ["degF", "degC"], ["R", "degF", "K"],
                 ["degree", "lat", "radian"], ["lon", "degree"], ["lat", "lon", "degree"],
                 ["m", "cm", "km"], ["s", "hr"], ["J", "erg", "eV"], ["km/hr", "m/s"], ["degC", "degC"], ["m", "m", "m"],
                 ["m", "s"], ["K", "degC", "m"], ["degC", "s"]]
# (name, literal of one reading from a float v, NumPy dtype kind, (rtol, atol) of the comparison)
COERCE_KINDS = [("float", lambda v: repr(float(v)), "f", (1e-11, 1e-9)),
                ("int", lambda v: repr(int(v)), "i", (1e-11, 1e-9)),
                ("f4", lambda v: f"np.float32({float(v)!r})", "f", (2e-6, 1e-3)),
                ("f2", lambda v: f"np.float16({float(v)!r})", "f", (2e-3, 0.6)),
                ("i4", lambda v: f"np.int32({int(v)})", "i", (2e-6, 1e-3)),     # in_units promotes int32 to float32
                ("arr", lambda v: f"np.array([{float(v)!r}, {float(v) + 1.5!r}])", "f", (1e-11, 1e-9)),
                ("arr-i", lambda v: f"np.array([{int(v)}, {int(v) + 2}])", "i", (1e-11, 1e-9)),
                ("arr2d", lambda v: f"np.array([[{float(v)!r}], [{float(v) - 0.5!r}]])", "f", (1e-11, 1e-9))]
COERCE_ROUTES = [("ctor-list", "lst = [{items}]\nr = unyt_array(lst)\n"),
                 ("ctor-tuple", "lst = ({items},)\nr = unyt_array(lst)\n"),
                 ("ufunc-left", "lst = [{items}]\nbase = unyt_array(np.full(np.shape(lst), -1e300), lst[0].units)\nr = np.maximum(lst, base)\n"),
                 ("ufunc-right", "lst = [{items}]\nbase = unyt_array(np.full(np.shape(lst), -1e300), lst[0].units)\nr = np.fmax(base, lst)\n")]
COERCE_ASSERT = ("w = np.array([e.to(lst[0].units).d for e in lst], dtype=float)\n"
                 "assert str(r.units) == str(lst[0].units), (r.units, lst[0].units)\n"
                 "assert np.shape(r) == w.shape and np.allclose(np.asarray(r.d, dtype=float), w, rtol={rtol!r}, atol={atol!r}), (r, w)\n")


def s4b_coerce_prog(ctx):
    import unyt
    import gen

    chk = ctx.chk
    rng = ctx.rng
    ctx.ask("c16.coerceprog.ok", ["ok", "true"], "the regenerated loop body of _coerce_iterable_units converts every element with in_units(ff)")
    for units in COERCE_GROUPS:
        for kname, lit, kind, (rtol, atol) in COERCE_KINDS:
            combos = [(rname, tmpl, "rot") for rname, tmpl in COERCE_ROUTES]
            if kname in ("float", "int", "arr") and len(set(units)) > 1:
                # where the first differing unit sits: only at the end / only in the middle of the list
                combos += [(rname, tmpl, arr) for rname, tmpl in COERCE_ROUTES[::2] for arr in ("late", "mid")]
            for rname, tmpl, arr in combos:
                if kname == "f2" and "hr" in units:
                    continue                     # 25 hr in s overflows float16: NumPy precision, not C16
                n = len(units) if (rname, arr) == ("ctor-list", "rot") else rng.randint(2, 4)
                if ctx.tier != "thorough" and rname != "ctor-list" and kname not in ("float", "int", "arr") and rng.random() < 0.5:
                    continue
                if arr == "rot":
                    us = [units[i % len(units)] for i in range(n)]
                else:
                    other = next(u for u in units if u != units[0])
                    n = rng.randint(4, 6)
                    us = [units[0]] * n
                    us[n - 1 if arr == "late" else rng.randint(2, n - 2)] = other
                # small readings (0..60, quarter steps: exact in float16/32; uint8 stays in range)
                vals = [float(rng.randrange(0, 240)) / 4.0 for _ in us]
                items = ", ".join(f"unyt_quantity({lit(v)}, {u!r})" if not kname.startswith("arr") else f"unyt_array({lit(v)}, {u!r})" for v, u in zip(vals, us))
                src = L.SETUP + tmpl.format(items=items)
                env = {}
                st, r = outcome(lambda: exec(src, env))
                chk.case(("coerceprog", tuple(units), kname, rname, arr))
                chk.count("S4b:" + rname + ":" + kname + ":" + arr)
                lst = env.get("lst")
                if lst is None:
                    chk.disagree("section:S4b", f"input list could not be built: {src}")
                    continue
                uobjs = [unyt.Unit(u) for u in us]
                elems = []
                for e, u in zip(lst, uobjs):
                    for x in np.asarray(e.d, dtype=float).ravel():
                        elems.append("~".join([str(core.f2b(float(x))), str(core.f2b(u.base_value)), str(core.f2b(u.base_offset)), gen.dim_vec(u.dimensions), e.dtype.kind]))
                wire = "|".join(elems)
                commens = all(u.dimensions == uobjs[0].dimensions for u in uobjs)
                if st == "err":
                    ctx.ask(f"c16.coerceprog\t{wire}", ["err", core.exc_name(r)], f"{rname} {items}")
                    if commens:
                        chk.fail(f"raise|coerce|{rname}", f"a list of commensurable quantities was refused ({core.exc_name(r)})", {"python": src})
                    continue
                r = env["r"]
                ctx.lines.append(f"c16.coerceprog\t{wire}")
                ctx.expect.append((("coerce", float(r.units.base_value), float(r.units.base_offset), gen.dim_vec(r.units.dimensions),
                                    [float(v) for v in np.asarray(r.d, dtype=float).ravel()], rtol, atol), f"{rname} {items}"))
                # direct oracle (no model): first element's unit, every reading converted
                want = np.array([e.to(lst[0].units).d for e in lst], dtype=float)
                kcls = "float" if kind == "f" else "int"
                if str(r.units) != str(lst[0].units) or r.units != lst[0].units:
                    chk.fail(f"first-unit|coerce|{rname}", "the coerced list does not carry the first element's unit",
                             {"python": src + COERCE_ASSERT.format(rtol=rtol, atol=atol)})
                elif np.shape(r) != want.shape or not np.allclose(np.asarray(r.d, dtype=float), want, rtol=rtol, atol=atol):
                    off = "offset" if any(u.base_offset != 0 for u in uobjs) else "plain"
                    chk.fail(f"values|coerce|{rname}|{kcls}|{off}", "values of the coerced list were not converted to the first element's unit",
                             {"python": src + COERCE_ASSERT.format(rtol=rtol, atol=atol)})
                ctx.judge(r, "ctor", "coerce:" + rname, src)


# ==========================================================================================
# S5 — accessors: view or copy

MUST_VIEW = {"d", "ndview", "ndarray_view()", "x[1:]", "x[::2]", "x[...]", "x[None]", "x[...,0:1]", "reshape(-1)",
             "reshape(shape+(1,))", "np.reshape(x,-1)", "T", "transpose()", "np.transpose(x)", "swapaxes(0,-1)",
             "unyt_array(ndarray,unit)", "unyt_array(ndarray)", "unyt_array(ndarray,unit,name)"}
MUST_COPY = {"v", "value", "to_ndarray()", "to_value()", "to_value(same)", "to_value(other)", "copy()", "to(same)", "to(other)",
             "in_units(same)", "in_units(other)", "in_base()", "in_cgs()", "in_mks()", "to_equivalent(spectral)",
             "x*unit", "unit*x", "ndarray*unit", "unit*ndarray"}


def load_plugin():
    import importlib.util
    import os

    path = os.path.join(core.VERIF, "tools", "extract.d", "c16_tables.py")
    spec = importlib.util.spec_from_file_location("c16_tables_plugin", path)
    mod = importlib.util.module_from_spec(spec)
    spec.loader.exec_module(mod)
    return mod


def s5_accessors(ctx):
    import unyt

    chk = ctx.chk
    plug = load_plugin()
    cat = plug.accessor_catalogue(np, unyt)
    table = {n: (rel, kind) for n, rel, kind in ctx.tables()["accessors"]}
    # the regenerated Lean table says what the translator saw (dump cross-check)
    for name, _k, _f in cat:
        rel, kind = table.get(name, ("missing", "missing"))
        ctx.ask(f"c16.accessor\t{name}", ["ok", rel, kind], f"generated accessor row {name}")
    for name in sorted(set(table) - {n for n, _k, _f in cat}):
        chk.disagree("c16.accessor", f"generated row {name} is not in the catalogue")
    for name, pk, fn in cat:
        for shp in ctx.shapes:
            a = L.base_array(shp)
            if a.size == 0:
                continue
            parents_ = []
            if pk == "a":
                parents_.append(("ndarray", a, f"a"))
            else:
                parents_.append(("A", unyt.unyt_array(a.copy(), "m", name="p"), "x"))
                if shp == ():
                    parents_ = [("Q", unyt.unyt_quantity(float(a), "m", name="p"), "x")]
            for pkind, parent, var in parents_:
                st, r = outcome(lambda: fn(parent))
                chk.case(("accessor", name, pkind, shp))
                chk.count("S5:accessor")
                if st == "err":
                    chk.count("S5:raised:" + core.exc_name(r))
                    continue
                if isinstance(r, np.ndarray) and r.size == 0:
                    continue
                shares = bool(isinstance(r, np.ndarray) and np.shares_memory(r, parent))
                rel = table.get(name, ("missing",))[0]
                if rel in ("view", "copy") and shares != (rel == "view"):
                    chk.disagree("accessor-table", f"{name} on {pkind}{shp}: shares={shares}, regenerated table says {rel}")
                src = (L.setup_src(shp, "Q" if pkind == "Q" else "A")
                       + "import importlib.util, os\n"
                       + f"spec = importlib.util.spec_from_file_location('p', {plug.__file__!r}); P = importlib.util.module_from_spec(spec); spec.loader.exec_module(P)\n"
                       + f"fn = dict((n, f) for n, k, f in P.accessor_catalogue(np, unyt))[{name!r}]\n"
                       + f"parent = {var}\nr = fn(parent)\nshares = isinstance(r, np.ndarray) and np.shares_memory(r, parent)\n")
                if name in MUST_VIEW and not shares:
                    chk.fail(f"not-view|accessor|{name}", f"{name} returned data detached from its parent ({pkind}{shp})",
                             {"python": src + "assert shares, 'must share memory with the parent'\n", "accessor": name})
                if name in MUST_COPY and shares:
                    chk.fail(f"not-copy|accessor|{name}", f"{name} returned a view of its parent ({pkind}{shp})",
                             {"python": src + "assert not shares, 'must be independent data'\n", "accessor": name})
                # unit-keeping accessors keep the units (and conversions carry the requested unit)
                if isinstance(r, unyt.unyt_array) and pk == "x" and name not in ("to(other)", "in_units(other)", "in_base()", "in_cgs()", "in_mks()", "to_equivalent(spectral)", "x*unit", "unit*x"):
                    if r.units != parent.units:
                        chk.fail(f"units-lost|accessor|{name}", f"{name} changed the units", {"python": src + "assert r.units == parent.units\n"})


# ==========================================================================================
# S6 — ufuncs

def operand(kind, shape, unit):
    """(class name on the wire, python source, in the oracle's input domain?)"""
    n = int(np.prod(shape)) if shape else 1
    arr = f"(np.arange({n}, dtype=float) + 1.0).reshape({tuple(shape)!r})"
    u = repr(unit)
    if kind == "A":
        return "unyt_array", f"unyt_array({arr}, {u})", shape != ()
    if kind == "S":
        return "subA", f"subA({arr}, {u})", shape != ()
    if kind == "Q":
        return "unyt_quantity", f"unyt_quantity(3.0, {u})", True
    if kind == "Q1":
        return "unyt_quantity", f"unyt_quantity(np.array([3.0]), {u})", True
    if kind == "SQ":
        return "subQ", f"subQ(3.0, {u})", True
    if kind == "N":
        return "ndarray", arr, True
    if kind == "L":
        return "list", f"{arr}.tolist()", True
    if kind == "T":
        return "tuple", f"tuple({arr}.tolist())", True
    if kind == "F":
        return "float", "2.0", True
    if kind == "I":
        return "int", "2", True
    if kind == "NP":
        return "npnumber", "np.float64(2.0)", True
    raise ValueError(kind)


def kind_shape(kind, shape):
    if kind in ("Q", "SQ", "F", "I", "NP"):
        return ()
    if kind == "Q1":
        return (1,)
    return shape


UNARY_OPERANDS = [("Q", ()), ("Q1", (1,)), ("SQ", ()), ("S", (3,)), ("S", (1,)), ("S", (2, 3))]
BIN_KINDS = [("A", "A"), ("A", "Q"), ("Q", "A"), ("Q", "Q"), ("A", "N"), ("N", "A"), ("Q", "N"), ("N", "Q"), ("Q", "L"), ("L", "Q"),
             ("Q", "T"), ("T", "Q"),
             ("A", "L"), ("Q", "F"), ("F", "Q"), ("A", "F"), ("I", "A"), ("Q", "NP"), ("NP", "A"), ("S", "A"), ("A", "S"), ("S", "Q"),
             ("Q", "S"), ("S", "N"), ("N", "S"), ("SQ", "A"), ("A", "SQ"), ("SQ", "Q"), ("Q", "SQ"), ("SQ", "N"), ("Q1", "A"), ("Q1", "Q"),
             ("Q1", "N"), ("N", "Q1"), ("S", "S"), ("SQ", "SQ"), ("Q1", "Q1")]
BIN_SHAPES = [((), ()), ((3,), (3,)), ((1,), (3,)), ((3,), ()), ((), (2, 3)), ((1,), (1,)), ((1, 1), (1,)), ((2, 3), (3,)), ((3, 1), (1, 3)),
              ((0,), (1,)), ((2, 3), (2,)), ((1, 1), ()), ((2, 1, 3), (3, 1)), ((1,), ())]


def s6_ufuncs(ctx):
    import unyt
    from unyt import unyt_array

    chk = ctx.chk
    reg = unyt_array._ufunc_registry
    none_rules = {"_return_without_unit", "_comparison_unit"}
    quick = ctx.tier == "quick"
    ufuncs = sorted((f for f in reg if isinstance(f, np.ufunc)), key=lambda f: f.__name__)

    def run_case(uf, method, margs, ops, units):
        """ops: [(kind, shape)]; evaluates on the real library, queues the model query, judges"""
        names, srcs, dom = [], [], True
        for (k, shp), u in zip(ops, units):
            cn, src, ok = operand(k, shp, u)
            names.append(cn)
            srcs.append(src)
            dom = dom and ok
        call = f"np.{uf.__name__}" + ("" if method == "call" else "." + method)
        kw = ""
        axes_w, keep_w = "none", 0
        if method == "reduce":
            ax, keep = margs
            kw = f", axis={ax!r}, keepdims={keep!r}"
            axes_w = "none" if ax is None else L.ints_w(ax if isinstance(ax, tuple) else (ax,))
            keep_w = 1 if keep else 0
        src = L.SETUP + "".join(f"o{i} = {sr}\n" for i, sr in enumerate(srcs)) + f"r = {call}({', '.join('o%d' % i for i in range(len(srcs)))}{kw})\n"
        env = {}
        st, r = outcome(lambda: exec(src, env))
        key = (uf.__name__, method, margs, tuple(ops), units)
        chk.case(("ufunc",) + key, {"op": call, "operands": [f"{k}{s}" for k, s in ops], "units": list(units)} if len(chk.samples) < 9 else None)
        chk.count(f"S6:{method}:{len(ops)}")
        opname = uf.__name__ + ("" if method == "call" else "." + method)
        if st == "err":
            try:
                msg = str(r)
            except Exception:
                msg = ""
            if isinstance(r, RuntimeError) and "must be scalars" in msg:
                if dom:
                    chk.fail(f"quantity-size-refusal|ufunc|{opname}", f"{call} on {names} raised 'unyt_quantity instances must be scalars'",
                             {"python": src.replace(f"r = {call}", f"r = {call}") + "", "operation": call})
            elif isinstance(r, (unyt.exceptions.UnitOperationError, unyt.exceptions.InvalidUnitOperation, TypeError, unyt.exceptions.UnitConversionError)):
                chk.count("S6:unit-refusal")
                return
            elif isinstance(r, ValueError) and "broadcast" in msg:
                pass
            else:
                chk.count("S6:other-raise:" + core.exc_name(r))
                return
        # flags of the call as the registry sees them
        rule = reg[uf]
        unit_none = rule.__name__ in none_rules
        multi = uf.__name__ in ("modf", "divmod")
        mul_one = True
        try:
            objs = [env.get(f"o{i}") for i in range(len(srcs))]
            us = [getattr(o, "units", None) for o in objs]
            if uf.__name__ in ("multiply", "divide", "true_divide", "floor_divide", "matmul", "vecdot") and method in ("call", "outer") and len(us) == 2:
                us = [u if u is not None else unyt.Unit() for u in us]
                mul_one = rule(us[0], us[1])[0] == 1
        except Exception:
            return
        if uf.__name__ == "frexp":
            ctx.judge(r, "ufunc", opname, src) if st == "ok" else None
            return
        opsw = "|".join(f"{cn}@{L.shape_w(kind_shape(k, shp))}" for cn, (k, shp) in zip(names, ops))
        wmethod = uf.__name__ if uf.__name__ in ("matmul", "vecdot") and method == "call" else method
        line = f"c16.ufunc\t{wmethod}\t{axes_w}\t{keep_w}\t{1 if unit_none else 0}\t{1 if multi else 0}\t{1 if mul_one else 0}\t{opsw}"
        if st == "err":
            ctx.ask(line, ["err", core.exc_name(r)], src.splitlines()[-1])
            return
        r = env["r"]
        first = r[0] if isinstance(r, tuple) else r
        if isinstance(first, np.ndarray) or isinstance(first, np.generic):
            ctx.ask(line, ["ok", "ndarray" if not isinstance(first, unyt.unyt_array) else L.cls_name(first), L.shape_w(np.shape(first))], src.splitlines()[-1])
        else:
            ctx.ask(line, ["ok", type(first).__name__, "()"], src.splitlines()[-1])
        if dom:
            ctx.judge(r, "ufunc", opname, src)

    shapes1 = ctx.shapes
    for uf in ufuncs:
        if uf.nin == 1:
            for shp in shapes1:
                run_case(uf, "call", None, [("A", shp)], ("rad" if uf.__name__ in ("sin", "cos", "tan") and len(shp) == 1 else "m",))
            for k, shp in UNARY_OPERANDS:
                run_case(uf, "call", None, [(k, shp)], ("m",))
            run_case(uf, "call", None, [("A", (3,))], ("",))
        elif uf.nin == 2:
            kinds = BIN_KINDS if (not quick or uf.__name__ in ("add", "multiply", "divide", "divmod", "power", "greater", "maximum", "arctan2", "matmul")) else BIN_KINDS[:16]
            shapes2 = BIN_SHAPES if (not quick or uf.__name__ in ("add", "multiply", "divide", "divmod")) else BIN_SHAPES[:7]
            for (k0, k1) in kinds:
                both = k0 in "ASQ1SQ" and k1 in ("A", "S", "Q", "Q1", "SQ") and k0 in ("A", "S", "Q", "Q1", "SQ")
                for (s0, s1) in shapes2:
                    if (k0 in "LT" and (len(s0) == 0 or 0 in s0)) or (k1 in "LT" and (len(s1) == 0 or 0 in s1)):
                        continue
                    if k0 in ("Q", "SQ", "F", "I", "NP", "Q1") and s0 != BIN_SHAPES[0][0] and (s0, s1) != ((), (2, 3)) and s0 != ():
                        # the first operand's shape is fixed by its kind: visit each second shape once
                        if (s0, s1) not in (((3,), (3,)), ((1,), (3,)), ((1, 1), (1,)), ((2, 3), (3,)), ((0,), (1,)), ((1,), (1,))):
                            continue
                    if uf.__name__ in ("matmul", "vecdot") and (len(kind_shape(k0, s0)) == 0 or len(kind_shape(k1, s1)) == 0):
                        continue
                    unit_sets = [("m", "m")] if both else [("", "")]
                    if both and uf.__name__ in ("divide", "multiply", "true_divide", "floor_divide", "matmul", "vecdot"):
                        # a pair whose product/quotient simplifies with a numeric coefficient: the result goes
                        # through the final `mul * out_arr` of __array_ufunc__ (seeded change C16-c: 0-d matmul)
                        unit_sets.append(("cm", "m") if uf.__name__ not in ("matmul", "vecdot") else ("km/s", "hr"))
                    if uf.__name__ in ("power", "ldexp") or (uf.__name__ == "heaviside"):
                        unit_sets = [("m", "")] if k0 in ("A", "S", "Q", "Q1", "SQ") else [("", "")]
                    for units in unit_sets:
                        if uf.__name__ in ("matmul", "vecdot"):
                            run_case(uf, "call", None, [(k0, (3,)), (k1, (3,))], units)
                            run_case(uf, "call", None, [(k0, (2, 3)), (k1, (3,))], units)
                            continue
                        run_case(uf, "call", None, [(k0, s0), (k1, s1)], units)
                    if uf.__name__ in ("matmul", "vecdot"):
                        break
                if uf.__name__ in ("matmul", "vecdot"):
                    continue
            # methods of binary ufuncs
            if uf.nout == 1 and uf.__name__ not in ("matmul", "vecdot"):
                for shp in shapes1:
                    r_ = len(shp)
                    axes = [None, 0, -1] + ([(0, 1)] if r_ >= 2 else []) + ([1] if r_ >= 2 else []) + ([()] if not quick else [])
                    for ax in axes:
                        if r_ == 0 and ax not in (None, 0):
                            continue
                        for keep in (False, True):
                            run_case(uf, "reduce", (ax, keep), [("A", shp)], ("m",))
                    run_case(uf, "accumulate", None, [("A", shp)], ("m",))
                for k, shp in UNARY_OPERANDS:
                    run_case(uf, "reduce", (None, False), [(k, shp)], ("m",))
                    run_case(uf, "reduce", (0, True), [(k, shp)], ("m",))
                for (s0, s1) in BIN_SHAPES[:8]:
                    run_case(uf, "outer", None, [("A", s0), ("A", s1)], ("m", "m"))
                run_case(uf, "outer", None, [("Q", ()), ("Q", ())], ("m", "m"))
                run_case(uf, "outer", None, [("Q", ()), ("A", (3,))], ("m", "m"))
                run_case(uf, "outer", None, [("Q", ()), ("N", (3,))], ("", ""))
        elif uf.__name__ == "clip":
            for shp in shapes1:
                run_case(uf, "call", None, [("A", shp), ("Q", ()), ("Q", ())], ("m", "m", "m"))
            run_case(uf, "call", None, [("Q", ()), ("Q", ()), ("Q", ())], ("m", "m", "m"))
            run_case(uf, "call", None, [("S", (3,)), ("Q", ()), ("A", (3,))], ("m", "m", "m"))
            run_case(uf, "call", None, [("Q", ()), ("A", (3,)), ("Q", ())], ("m", "m", "m"))


# ==========================================================================================
# S7 — catalogue of unit-returning operations


def s7_functions(ctx):
    import unyt
    import c16_cat

    chk = ctx.chk
    rules = ctx.tables()["handler_rules"]
    # the regenerated Lean table against what the translator reported (dump cross-check)
    for name, rs in rules.items():
        ctx.ask(f"c16.handlerrules\t{name}", ["ok", ",".join(rs)], f"generated handler rules {name}")
    par = [("A", s_) for s_ in ctx.shapes if s_ != ()] + [("Q", ()), ("Q1", (1,)), ("S", (3,)), ("S", (1,))]
    for kind, shp in par:
        for key, expr, guard, handler, uses_out in c16_cat.CATALOGUE:
            if not guard(shp):
                continue
            setup = L.setup_src(shp, kind)
            if uses_out:
                plain = expr.replace(", out=" + c16_cat.OUT, "")
                env0 = {}
                st0, _ = outcome(lambda: exec(setup + f"r = {plain}\n", env0))
                if st0 == "err" or not isinstance(env0.get("r"), np.ndarray):
                    continue
                expr_ = expr.replace("RSHAPE", repr(tuple(env0["r"].shape)))
            else:
                expr_ = expr
            src = setup + f"r = {expr_}\n"
            env = {}
            st, r = outcome(lambda: exec(src, env))
            chk.case(("func", key, expr, kind, shp), {"op": expr_, "parent": f"{kind}{shp}"} if len(chk.samples) < 12 else None)
            chk.count("S7:" + ("handled" if handler else "other"))
            if st == "err":
                try:
                    msg = str(r)
                except Exception:
                    msg = ""
                if isinstance(r, RuntimeError) and "must be scalars" in msg:
                    chk.fail(f"quantity-size-refusal|func|{key}", f"{expr_} on {kind}{shp} raised 'unyt_quantity instances must be scalars'", {"python": src, "operation": expr_})
                elif isinstance(r, AttributeError) and "has no attribute 'units'" in msg:
                    chk.fail(f"scalar-wrap-crash|func|{key}", f"{expr_} on {kind}{shp}: a NumPy scalar result reached unyt_array(..., bypass_validation=True) ({msg})", {"python": src, "operation": expr_})
                else:
                    chk.count("S7:raised:" + core.exc_name(r))
                continue
            r = env["r"]
            ctx.judge(r, "func", key, src)
            # handlers: class predicted from the regenerated return rule and the result's shape
            if handler and isinstance(r, unyt.unyt_array) and handler in rules:
                rs = [x_ for x_ in rules[handler] if x_ in ("timesUnit", "byNdim", "alwaysArray", "alwaysQuantity")]
                if uses_out and "alwaysArray" in rs:
                    rule = "alwaysArray"
                elif len(rs) == 1:
                    rule = rs[0]
                else:
                    rs2 = [x_ for x_ in rs if x_ != "alwaysArray"]
                    rule = rs2[0] if len(rs2) == 1 else None
                if rule:
                    ctx.ask(f"c16.handler\t{rule}\t{L.shape_w(r.shape)}", ["ok", L.cls_name(r) if kind != "S" or type(r) in (unyt.unyt_array, unyt.unyt_quantity) else L.cls_name(r), L.shape_w(r.shape)], f"{expr_} on {kind}{shp}")

    # the view-making methods on unyt parents against the model's `viewOp` (class and shape)
    for kind, shp in par + [("A", ())]:
        env = L.make_env(shp, kind)
        x = env["x"]
        n = x.size
        vops = [("squeeze", "_", "x.squeeze()"), ("transpose", "_", "x.T"), ("ravel", "_", "x.ravel()"), ("repeat", "2", "x.repeat(2)"),
                ("expandDims", "0", "np.expand_dims(x, 0)"), ("squeezeAxis", "0", "x.squeeze(axis=0)")]
        for t, tsrc in [((), "()"), ((-1,), "-1"), ((1,), "1"), ((1,), "(1,)"), ((1, 1), "1, 1"), ((1, -1), "(1, -1)"), ((n,), str(n)), ((-1, 1), "(-1, 1)"), ((2, -1), "(2, -1)")]:
            vops.append(("reshape", L.ints_w(t), f"x.reshape({tsrc})"))
        # the shape passed as a list: `unyt_quantity.reshape` compares its argument with `()`
        for t in [(), (1,), (-1,), (1, 1), (n,)]:
            vops.append(("reshapeList", L.ints_w(t), f"x.reshape({list(t)!r})"))
            vops.append(("reshapeList", L.ints_w(t), f"np.reshape(x, {list(t)!r})"))
        vops.append(("reshape", "()", "np.reshape(x, ())"))
        for k, arg, expr in vops:
            st, r = outcome(lambda: eval(expr, env))
            chk.case(("viewop", kind, shp, expr))
            chk.count("S7:viewop")
            line = f"c16.view\t{PARENT_CLS[kind]}\t{L.shape_w(x.shape)}\t{k}\t{arg}"
            if st == "err":
                en = core.exc_name(r)
                ctx.ask(line, ["err", "AxisError" if "AxisError" in en else en], f"{kind}{shp}: {expr}")
            else:
                ctx.ask(line, ["ok", L.cls_name(r), L.shape_w(r.shape)], f"{kind}{shp}: {expr}")

# ==========================================================================================
# S8 — the witnesses of the `…_counterexample` theorems, replayed on the real code

WITNESSES = [
    ("C16_view_counterexample(reshape)", "r = unyt_array([1.0], 'm').reshape(())", "unyt_array", ()),
    ("C16_view_counterexample(reshape list)", "r = unyt_quantity(3.0, 'm').reshape([])", "unyt_array", ()),
    ("C16_view_counterexample(repeat)", "r = unyt_quantity(3.0, 'm').repeat(2)", "unyt_quantity", (2,)),
    # behaviour the full-strength theorems now state (fixed defects): examples of C16.lean
    ("C16_getitem(example)", "r = unyt_quantity(3.0, 'm')[None]", "unyt_array", (1,)),
    ("C16_getitem(example)", "r = unyt_quantity(np.array([3.0]), 'm')[[0, 0]]", "unyt_array", (2,)),
    ("squeeze_strict(example)", "r = unyt_array([[1.0]], 'm').squeeze()", "unyt_quantity", ()),
    ("ufunc_wrap_class_iff_shape(example)", "r = np.divmod(unyt_quantity(7.0, 'm'), np.array([2.0, 3.0]))[0]", "unyt_array", (2,)),
    ("ufunc_wrap_class_iff_shape(example)", "r = np.divmod(unyt_quantity(7.0, 'm'), unyt_quantity(2.0, 'm'))[1]", "unyt_quantity", ()),
]


def s8_witnesses(ctx):
    chk = ctx.chk
    for thm, code, want_cls, want_shape in WITNESSES:
        env = {}
        st, r = outcome(lambda: exec(L.SETUP + code + "\n", env))
        chk.case(("witness", thm))
        chk.count("S8:witness")
        if st == "err":
            got = (core.exc_name(r), None)
        else:
            got = (L.cls_name(env["r"]), tuple(env["r"].shape))
        if got != (want_cls, want_shape):
            chk.disagree("witness", f"{thm}: `{code}` gives {got}, the theorem / example says {(want_cls, want_shape)} — the model no longer describes this path")
