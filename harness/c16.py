"""C16 — scalars are quantities, arrays are arrays, views stay attached to their data.

Sections of one run (all enumerations are deterministic; the seed only adds index tuples / values):
  S1  shape algebra of the model vs NumPy itself (index, broadcast, reduce, reshape, squeeze, …)
  S2  `x[ix]` on unyt objects: class, shape, units, name, memory — model + direct oracle
  S3  iteration
  S4  constructors, `data * unit`, list coercion
  S4b `_coerce_iterable_units` as the program regenerated from the live source (dtype kinds x offset units x routes)
  S5  accessor table (regenerated probe vs live re-probe on every shape) + view/copy oracle
  S6  ufuncs (every registered ufunc × operand classes × shapes × methods)
  S7  array functions / ndarray methods catalogue (handled and default-path)
Direct oracle (never consults the model): a unyt result of shape () is a unyt_quantity; a result
with more than one element is not a unyt_quantity; indexing/iteration keep units and name and
return unyt objects; views share memory, copies do not.
"""
import itertools

import numpy as np

import core
import c16_lib as L
import c16_ops as O

PROOF_MODULES = ["UnytProofs.C16"]

ASSERT_GOOD = (
    "bad = [(type(t).__name__, t.shape) for t in _flat(r) if _bad(t)]\n"
    "assert not bad, ('C16: 0-d unyt_array or multi-element unyt_quantity', bad)\n"
)


def run(tier, seed):
    import unyt
    from unyt import unyt_array, unyt_quantity

    chk = core.Check("C16", tier, seed)
    chk.proof = core.prove("C16", PROOF_MODULES, extra_targets=("drv_c16",), tier=tier)
    rng = chk.rng
    model = core.Model("drv_c16")
    shapes = L.SHAPES_QUICK + (L.SHAPES_MORE if tier == "thorough" else [])
    ctx = O.Ctx(chk, model, tier, rng, shapes)

    def guarded(name, fn):
        try:
            fn(ctx)
        except Exception as e:  # a crashed section must not pass silently
            import traceback

            chk.disagree("section:" + name, f"{core.exc_name(e)}: {e}\n{traceback.format_exc()[-1500:]}")

    guarded("S1", O.s1_shape_algebra)
    guarded("S2", O.s2_getitem)
    guarded("S3", O.s3_iteration)
    guarded("S4", O.s4_constructors)
    guarded("S4b", O.s4b_coerce_prog)
    guarded("S5", O.s5_accessors)
    guarded("S6", O.s6_ufuncs)
    guarded("S7", O.s7_functions)
    guarded("S8", O.s8_witnesses)
    ctx.flush()
    chk.assumptions = [
        "NumPy's own shape semantics (indexing, broadcasting, reductions) are modelled in UnytModel/Shape.lean and validated against NumPy in S1, not derived",
        "functions unyt leaves to NumPy's default path keep type(self) through __array_finalize__ (validated in S7 for the catalogue, not modelled beyond the view-making methods)",
        "np.shares_memory is taken as the ground truth for view/copy",
    ]
    rule = ("S1: shapes x index forms (int, slice, Ellipsis, newaxis, boolean mask, integer array, tuples; deterministic catalogue + seeded tuples), "
            "broadcast pairs, reductions, reshapes vs NumPy; S2/S3: the same index forms on unyt_array / unyt_quantity / subclass parents; "
            "S4: constructors x input kinds x shapes, data*unit, quantity lists; S4b: quantity lists through the regenerated _coerce_iterable_units program: unit groups (offset, plain, incommensurable) x element dtype kinds and shapes x routes (list/tuple constructor, ufunc list operand left/right) x position of the differing unit; S5: accessors x shapes; "
            "S6: every ufunc in unyt_array._ufunc_registry x operand class pairs x shape pairs x (call, reduce, accumulate, outer); "
            "S7: array-function / method catalogue x shapes; distinct = distinct (section, operation, operand classes, shapes, index form)")
    return chk.finish(rule)
