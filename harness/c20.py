"""C20 — the unit-string interface is total, canonical and re-readable.

Real library: always through `c20_worker.py` child processes under a wall-clock watchdog (a
request that does not come back is a hang finding and the child is killed and restarted).
Model: `drv_c20` (`c20.parse`, `c20.bytes`, `c20.print`, `c20.layout`).

Direct oracles (never consult the model):
  escape|<Exc>|<trigger>          Unit(text) raised something other than UnitParseError
  hang|<shape>                    Unit(text) did not return within the limit
  vocab|<construct>               Unit(text) accepted text outside the documented vocabulary
  print-raises|<Exc>              str()/repr() of an accepted unit raised
  reparse|str/repr|<how>|<kind>   Unit(str(u)) / Unit(repr(u)) does not denote u
  spelling|<variant>              equivalent spellings give unequal units
"""
import json
import os
import select
import subprocess
import sys
from fractions import Fraction

import core
import gen
from c20_vocab import vocab_category

PROOF_MODULES = ["UnytProofs.C20", "UnytProofs.C20Tab0", "UnytProofs.C20Tab1", "UnytProofs.C20Tab2", "UnytProofs.C20Names",
                 "UnytProofs.C20Syntax", "UnytProofs.C20Total", "UnytProofs.C20Roundtrip", "UnytProofs.C20Arith", "UnytProofs.C20Cache"]
HERE = os.path.dirname(os.path.abspath(__file__))
LIMIT = 8.0  # seconds per request on the real parser

# --------------------------------------------------------------------------------------
# watchdog around the real library


def needs_confirmation(req):
    """time-outs are taken at face value only for texts that have the shape of an unbounded
    computation (a power of numbers, a huge float exponent); decided from the text alone"""
    k = req.get("k")
    if k == "str":
        return hang_shape(req["s"]) == "other"
    if k == "bytes":
        return hang_shape(bytes(req["b"]).decode("utf-8", "replace")) == "other"
    return True


class Real:
    def __init__(self):
        self.p = None
        self.restarts = 0
        self.slow = 0

    def start(self):
        env = dict(os.environ, UNYT_REPO=core.REPO, PYTHONHASHSEED="0")
        self.p = subprocess.Popen([core.PY, "-W", "ignore", os.path.join(HERE, "c20_worker.py")],
                                  stdin=subprocess.PIPE, stdout=subprocess.PIPE, stderr=subprocess.DEVNULL,
                                  env=env, bufsize=0)
        self.buf = b""

    def single(self, req, limit):
        """one request alone in a fresh child"""
        self.start()
        try:
            self.p.stdin.write((json.dumps(req) + "\n").encode("utf-8"))
            self.p.stdin.flush()
            line = self._readline(limit)
        except Exception:  # noqa: BLE001
            line = None
        if not line:
            self.stop()
            return {"r": "hang"}
        return json.loads(line)

    def stop(self):
        if self.p is not None:
            try:
                self.p.kill()
                self.p.wait()
            except Exception:  # noqa: BLE001
                pass
            self.p = None

    def _readline(self, timeout):
        fd = self.p.stdout.fileno()
        import time

        end = time.time() + timeout
        while b"\n" not in self.buf:
            left = end - time.time()
            if left <= 0:
                return None
            r, _, _ = select.select([fd], [], [], left)
            if not r:
                return None
            chunk = os.read(fd, 1 << 16)
            if not chunk:
                return b""  # died
            self.buf += chunk
        line, self.buf = self.buf.split(b"\n", 1)
        return line

    def run(self, reqs, chunk=100):
        """replies for a list of requests; {'r': 'hang'} for one that did not come back,
        {'r': 'died'} when the child died on it.  Requests are fed by a separate thread so that a
        full pipe in one direction can never block the other (requests and replies both exceed
        the 64 kB pipe buffer for long strings)."""
        import threading

        out = []
        i = 0
        while i < len(reqs):
            if self.p is None:
                self.start()
            part = reqs[i:i + chunk]
            data = "".join(json.dumps(r) + "\n" for r in part).encode("utf-8")
            proc = self.p

            def feed(proc=proc, data=data):
                try:
                    proc.stdin.write(data)
                    proc.stdin.flush()
                except Exception:  # noqa: BLE001  (child killed meanwhile)
                    pass

            th = threading.Thread(target=feed, daemon=True)
            th.start()
            done = 0
            for req in part:
                line = self._readline(LIMIT if done else LIMIT + 20.0)  # first reply also pays the import
                if line is None:
                    self.stop()
                    self.restarts += 1
                    # a time-out on an input that has no unbounded-number shape is confirmed once, alone,
                    # in a fresh process with a generous limit (a loaded machine must not look like a hang)
                    if needs_confirmation(req):
                        out.append(self.single(req, 45.0))
                        self.slow += 1 if out[-1].get("r") != "hang" else 0
                    else:
                        out.append({"r": "hang"})
                    done += 1
                    break
                if line == b"":
                    out.append({"r": "died"})
                    done += 1
                    self.stop()
                    self.restarts += 1
                    break
                out.append(json.loads(line))
                done += 1
            th.join(timeout=10)
            i += done
        return out


# --------------------------------------------------------------------------------------
# replay snippets

PRE = "import sys, math\nfrom unyt import Unit\nfrom unyt.exceptions import UnitParseError\n"


def snip_total(s):
    return PRE + f"s = {s!r}\ntry:\n    Unit(s)\nexcept UnitParseError:\n    pass\n"


def snip_hang(s):
    inner = f"import sys, resource\nresource.setrlimit(resource.RLIMIT_AS, (4<<30, 4<<30))\nfrom unyt import Unit\ntry:\n    Unit({s!r})\nexcept Exception:\n    pass\n"
    return ("import subprocess, sys\ntry:\n    subprocess.run([sys.executable, '-W', 'ignore', '-c', " + repr(inner) +
            "], timeout=20)\nexcept subprocess.TimeoutExpired:\n    raise AssertionError('Unit(%r) did not return within 20 s' % " + repr(s) + ")\n")


def snip_vocab(s):
    return PRE + f"s = {s!r}\ntry:\n    u = Unit(s)\nexcept UnitParseError:\n    u = None\nassert u is None, ('accepted text outside the unit vocabulary', s, u)\n"


def snip_print(s):
    return PRE + f"u = Unit({s!r})\nstr(u); repr(u)\n"


CHECK = (
    "def same(u, t, tol=1e-12):\n"
    "    v = Unit(t)\n"
    "    f = lambda a, b: a == b or (math.isnan(a) and math.isnan(b)) or math.isclose(a, b, rel_tol=1e-12)\n"
    "    assert v.dimensions == u.dimensions and f(float(v.base_offset), float(u.base_offset)), (u, t, v)\n"
    "    ok = u.base_value == 0 or 1e-290 < abs(u.base_value) < 1e290\n"
    "    logs = [float(p) * math.log10(abs(float(Unit(b).base_value))) for b, p in u.expr.as_coeff_Mul()[1].as_powers_dict().items() if b.is_Symbol and float(Unit(b).base_value) != 0]\n"
    "    ok = ok and sum(x for x in logs if x > 0) < 290 and sum(x for x in logs if x < 0) > -290\n"
    "    def exact_ok():\n"
    "        import mpmath, sympy\n"
    "        with mpmath.workdps(60):\n"
    "            c, rest = u.expr.as_coeff_Mul()\n"
    "            ref = mpmath.mpf(c.p) / mpmath.mpf(c.q) if c.is_Rational else mpmath.mpf(float(c))\n"
    "            for b, p in rest.as_powers_dict().items():\n"
    "                if not (b.is_Symbol and p.is_Rational): return False\n"
    "                ref *= mpmath.mpf(float(Unit(b).base_value)) ** (mpmath.mpf(p.p) / mpmath.mpf(p.q))\n"
    "            return bool(ref != 0 and abs(mpmath.mpf(float(v.base_value)) - ref) <= abs(ref) * mpmath.mpf('1e-12') and abs(mpmath.mpf(float(u.base_value)) - ref) <= abs(ref) * mpmath.mpf('1e-9'))\n"
    "    if ok and tol is not None:\n"
    "        assert (f(float(v.base_value), float(u.base_value)) or math.isclose(float(v.base_value), float(u.base_value), rel_tol=tol) or exact_ok()) and (math.isnan(u.base_value) or v == u), (u, t, v)\n"
    "    import sympy\n"
    "    if u.expr == 1 or not any(f.is_number for f in sympy.Mul.make_args(u.expr)):\n"
    "        assert v.expr == u.expr and hash(v) == hash(u), (u.expr, t, v.expr)\n"
)


def snip_reparse_str(s, which):
    return PRE + CHECK + f"u = Unit({s!r})\nsame(u, {which}(u))\n"


def arith_py(prog):
    lines = ["import sympy"]
    for op, arg in prog:
        if op == "unit":
            lines.append(f"u = Unit({arg!r})")
        elif op == "mul":
            lines.append(f"u = u * Unit({arg!r})")
        elif op == "div":
            lines.append(f"u = u / Unit({arg!r})")
        elif op == "rdiv":
            lines.append(f"u = Unit({arg!r}) / u")
        elif op == "mulpow":
            p, q = arg[1].split("/")
            lines.append(f"u = u * Unit({arg[0]!r}) ** sympy.Rational({p}, {q})")
        elif op == "divpow":
            p, q = arg[1].split("/")
            lines.append(f"u = u / Unit({arg[0]!r}) ** sympy.Rational({p}, {q})")
        elif op == "powq":
            p, q = arg.split("/")
            lines.append(f"u = u ** sympy.Rational({p}, {q})")
        elif op == "powf":
            lines.append(f"u = u ** {float(arg)!r}")
        elif op == "sqrt":
            lines.append("u = u ** 0.5")
        elif op == "simplify":
            lines.append("u = Unit(u.expr, registry=u.registry).simplify()")
        elif op == "coeff":
            p, q = arg.split("/")
            lines.append(f"u = Unit(sympy.Rational({p}, {q}) * u.expr, registry=u.registry)")
    return "\n".join(lines) + "\n"


def snip_reparse_arith(prog, which, tol=1e-12):
    return PRE + CHECK + arith_py(prog) + f"same(u, {which}(u), {tol!r})\n"


def snip_spell(variants):
    return PRE + f"vs = {variants!r}\nus = [Unit(v) for v in vs]\nfor v, u in zip(vs, us):\n    assert u == us[0] and us[0] == u and u.dimensions == us[0].dimensions, (vs[0], v, us[0], u)\n"


def snip_bytes(b):
    return PRE + f"b = {bytes(b)!r}\ntry:\n    Unit(b)\nexcept UnitParseError:\n    pass\n"


# --------------------------------------------------------------------------------------
# generators

HOSTILE = list("+-#,[]{}'\"=<>!^|&~@$?`;:\\.\t\n\r\x0b\x0c\x00 ") + [" ", " ", "é", "×", "·", "²", "½", "Ω", "Å", "Δ", "﻿", "//", "==", "e", "E", "j", "_", "0x", "°", "%", "µ", "μ", "Ω", "Å"]
TOKENS = ["*", "**", "/", "(", ")", "-", "+", " ", "sqrt", "sqrt(", "1", "2", "0", "-1", "0.5", "1.5", "(1/2)", "(-1/3)", "1e3", "1e-3", ".5", "2.",
          "m", "s", "kg", "K", "degC", "lat", "%", "°C", "µm", "Ω", "dimensionless", "in", "as", "Integer", "Symbol", "Rational", "Float", "Integer(2)",
          "#", ",", "[", "]", "'m'", "==", "\n", "\t", "lambda", "None", "__import__", "9**9", "1_0", "0x1f", "1j", "zz", "e",
          ".", ".args", ".func", ".exp", ".base", ".subs(", ".is_positive", "=", "evaluate=1", "[0]", "[5]", "{}", "//0", "//", "{", "}", ":"]


def fmt_exp(rng, q, style=None):
    """one spelling of an exponent"""
    style = style or rng.choice(["rat", "rat", "float", "paren"])
    if q.denominator == 1:
        n = q.numerator
        if n < 0:
            return rng.choice([f"{n}", f"({n})", f"-{-n}"])
        return rng.choice([f"{n}", f"({n})", f"{n}.0" if style == "float" else f"{n}"])
    if style == "float" and q.denominator in (2, 4, 5, 8, 10):
        return repr(float(q)) if q > 0 else rng.choice([repr(float(q)), f"({float(q)!r})"])
    return f"({q.numerator}/{q.denominator})"


def fmt_num(rng, q):
    """one spelling of a positive rational literal (as a NUMBER token or a parenthesised quotient)"""
    if q.denominator == 1:
        n = q.numerator
        return rng.choice([str(n), str(n), f"{n}.0", f"{n}.", f"{n}e0", hex(n) if n < 4096 else str(n), f"{n:_}"])
    f = float(q)
    if Fraction(repr(f)) == q:
        return rng.choice([repr(f), f"({q.numerator}/{q.denominator})"])
    return f"({q.numerator}/{q.denominator})"


class Grammar:
    def __init__(self, rng, ex):
        self.rng = rng
        lut = ex["lut"]
        self.lut = lut
        self.atoms = list(lut.keys())
        self.alts = [k for k in ex["inv_names"].keys() if k and k.isidentifier()]
        self.pre = list(ex["prefixes"].keys())
        self.prefixable = [k for k, v in lut.items() if v[3]]
        self.exps = [Fraction(a, b) for a in range(-4, 5) for b in (1, 1, 2, 3) if a != 0]

    def name(self):
        r = self.rng.random()
        if r < 0.45:
            return self.rng.choice(self.atoms)
        if r < 0.75:
            return self.rng.choice(self.alts)
        if r < 0.97:
            return self.rng.choice(self.pre) + self.rng.choice(self.prefixable)
        return self.rng.choice(["°C", "°F", "%", "°", "µm", "μm", "um", "Ω", "ohm", "Å", "angstrom"])

    def number(self):
        rng = self.rng
        r = rng.random()
        if r < 0.5:
            return fmt_num(rng, Fraction(rng.choice([1, 2, 3, 5, 7, 10, 12, 60, 100, 1000, 3600])))
        if r < 0.8:
            return fmt_num(rng, Fraction(rng.randint(1, 9999), rng.choice([1, 2, 4, 5, 8, 10, 100, 1000])))
        return rng.choice(["1e3", "1E-3", "2.5e2", "1_000", ".5", "0.25", "1e+2", "12.", "0x10", "0b101", "0o17", "1_0.2_5"])

    def sp(self):
        return self.rng.choice(["", "", "", " ", "  ", "\t"])

    def expr(self, depth):
        rng = self.rng
        r = rng.random()
        if depth <= 0 or r < 0.25:
            a = self.name() if rng.random() < 0.85 else self.number()
            if rng.random() < 0.4:
                q = rng.choice(self.exps)
                a = f"{a}{self.sp()}**{self.sp()}{fmt_exp(rng, q)}"
            return a
        if r < 0.60:
            return f"{self.expr(depth - 1)}{self.sp()}*{self.sp()}{self.expr(depth - 1)}"
        if r < 0.80:
            d = self.expr(depth - 1)
            if any(c in d for c in "*/ -") :
                d = f"({d})" if rng.random() < 0.8 else d
            return f"{self.expr(depth - 1)}{self.sp()}/{self.sp()}{d}"
        if r < 0.88:
            return f"({self.sp()}{self.expr(depth - 1)}{self.sp()})"
        if r < 0.93:
            return f"sqrt({self.expr(depth - 1)})"
        if r < 0.97:
            q = rng.choice(self.exps)
            return f"({self.expr(depth - 1)})**{fmt_exp(rng, q)}"
        return f"-{self.expr(depth - 1)}"

    def valid(self):
        s = self.expr(self.rng.randint(0, 3))
        if self.rng.random() < 0.15:
            s = self.rng.choice([" ", "\n", "\t", " "]) + s + self.rng.choice([" ", "\n", "  ", " "])
        return s

    # ---- canonical trees for the spelling oracle: list of (canonical symbol, exponent)
    def monomial(self):
        rng = self.rng
        k = rng.randint(1, 4)
        syms = rng.sample(self.atoms, k)
        return [(s, rng.choice(self.exps)) for s in syms]

    def spellings(self, mono, inv_alts):
        """different texts of one monomial; returns [(variant kind, text)]"""
        rng = self.rng

        def nm(s, alt):
            if alt and inv_alts.get(s):
                return rng.choice(inv_alts[s])
            return s

        def prod(style, alt=False, spaces=False):
            sp = " " if spaces else ""
            num, den = [], []
            for s, q in mono:
                n = nm(s, alt)
                if style == "inverse" and q < 0:
                    den.append(n if q == -1 else f"{n}**{fmt_exp(rng, -q, 'rat')}")
                elif q == 1:
                    num.append(n)
                else:
                    num.append(f"{n}{sp}**{sp}{fmt_exp(rng, q, 'float' if style == 'float' else 'rat')}")
            t = f"{sp}*{sp}".join(num) if num else "1"
            if den:
                t += f"{sp}/{sp}" + (den[0] if len(den) == 1 else "(" + f"{sp}*{sp}".join(den) + ")")
            return t

        out = [("reference", prod("power"))]
        out.append(("spacing", prod("power", spaces=True)))
        out.append(("inverse-vs-negative-power", prod("inverse")))
        out.append(("float-vs-rational-exponent", prod("float")))
        out.append(("alternative-names", prod("power", alt=True)))
        rev = list(reversed(mono))
        out.append(("factor-order", "*".join(f"{s}**{fmt_exp(rng, q, 'rat')}" for s, q in rev)))
        out.append(("redundant-parentheses", "(" + ")*(".join(f"{s}**{fmt_exp(rng, q, 'rat')}" for s, q in mono) + ")"))
        return out


SYMPY_ATTRS = ["args", "func", "exp", "base", "name", "is_positive", "is_Symbol", "free_symbols", "p", "q", "real", "assumptions0"]
SYMPY_METHODS = ["as_coeff_Mul()", "as_numer_denom()", "as_base_exp()", "as_powers_dict()", "simplify()", "expand()", "doit()", "evalf()",
                 "n()", "copy()", "subs({a}, {b})", "replace({a}, {b})", "xreplace({{{a}: {b}}})", "func({a})", "func({a}, {b})", "as_coeff_mul()",
                 "together()", "cancel()", "factor()", "powsimp()", "as_independent({a})", "atoms()", "as_ordered_factors()", "sort_key()"]


def outside_vocabulary(rng, G, n):
    """texts that use Python syntax beyond the unit vocabulary and would be VALID expressions if that
    syntax were evaluated: attribute access and method calls on names and parenthesised unit
    expressions (real sympy attribute names), keyword arguments to sqrt, subscripts of well-formed
    containers.  Every production once with fixed operands (seed-independent), then `n` random ones."""

    def operand(fixed):
        if fixed:
            return "m", "(g*cm)", "(m**3)", "km", "s"
        e = G.expr(1)
        return G.name() if G.rng.random() < 0.5 else "m", f"({e})", f"({G.name()}**{rng.randint(2, 4)})", rng.choice(G.atoms), rng.choice(G.atoms)

    out = []

    def productions(fixed):
        nm, par, pw, a, b = operand(fixed)
        res = []
        for base in (nm, par, pw):
            for at in SYMPY_ATTRS:
                res.append(f"{base}.{at}")
                res.append(f"{base}.{at}*{b}")
                res.append(f"{b}*{base}.{at}.real" if at.startswith("is_") else f"{base}.{at}[0]")
            for me in SYMPY_METHODS:
                call = me.format(a=a, b=b)
                res.append(f"{base}.{call}")
                res.append(f"{base}.{call}[0]")
                res.append(f"{base}.{call}*{b}")
            res.append(f"{base}.func('{a}')")
            res.append(f"{base} . args [ 0 ]")
        for kw in ("evaluate=1", "evaluate=0", "evaluate=True", "evaluate = 1"):
            res.append(f"sqrt({a}, {kw})")
            res.append(f"sqrt({par},{kw})*{b}")
            res.append(f"sqrt(arg={a})")
        for i in (0, 1, -1):
            res.append(f"({a},{b})[{i}]")
            res.append(f"[{a},{b}][{i}]*{b}")
            res.append(f"{{1:{a}}}[1]")
        return res

    out += productions(True)
    while len(out) < len(productions(True)) + n:
        out.append(rng.choice(productions(False)))
    return out


def evaluator_faults(rng, G, n):
    """texts that tokenize and compile but whose EVALUATION fails, in exception families of every
    kind (LookupError, ArithmeticError, RecursionError, OverflowError, ValueError, TypeError …):
    every production once with fixed operands, then `n` random ones"""

    def productions(fixed):
        a, b = ("g", "cm") if fixed else (G.name(), G.name())
        e = "g*cm**2/s" if fixed else G.expr(1)
        k = 2 if fixed else rng.randint(2, 9)
        big = 5000 if fixed else rng.randint(3000, 7000)
        res = [
            # subscripts on empty / short literal containers, dict look-ups
            "[][0]", f"[{a}][{k}]", f"({a},{b})[{k}]", f"({a},)[{k}]", f"''[{k}]", f"'{a}'[{k + 5}]", "()[0]", f"{{}}[{a}]", f"{{{a}:1}}[{b}]",
            f"{{1:{a}}}[{k}]", f"{e}*[{a}][{k}]", f"[][{a}]", f"({a},{b})[{a}]",
            # integer floor division by zero, numbers the constructors reject
            "1//0", f"{k}//0", f"{e}//0*1//0", f"{k}//(1-1)", f"({k}//0)*{a}", f"Rational('1/0')*{a}", f"Rational('{k}/0')", f"Integer({k})//Integer(0)",
            f"Integer('{a}')", "Float('')", f"Rational('{a}/{b}')", f"Integer({k}.5//0)",
            # index-sized / overflow errors
            f"'{a}'*10**30", f"[0]*10**{20 + k}", f"({a},)*10**25", f"'{a}'*-10**30*10**30",
            # operator chains deeper than the compiler accepts
            a + f"*{a}" * big, "-" * (big // 2 + 500) + a, a + "**1" * big, "+" * big + a, a + f"/{b}" * big,
            # attribute / call errors of the evaluator itself
            f"{a}()", f"{k}({a})", f"sqrt()", f"sqrt({a})({b})", f"({a},{b})*{a}", f"[{a}]*{b}", f"{{}}*{a}", f"{a}**[{k}]", f"{a}**()", f"sqrt([{a}])",
        ]
        return res

    out = productions(True)
    base = len(out)
    while len(out) < base + n:
        out.append(rng.choice(productions(False)))
    return out


PRIMES = [2, 3, 5, 7, 11, 13, 97, 101, 499, 503, 997, 1009, 1013, 1999, 2003, 4999, 5003, 65521, 65537, 999983]

DEEP_FIXED = [
    # exponents that only unit ARITHMETIC reaches: __pow__ rounds its operand, sympy then multiplies / adds exponents exactly
    [["unit", "m"]] + [["sqrt", ""]] * 20,                                   # m**(1/2**20): twenty ordinary square roots
    [["unit", "km"]] + [["powf", "0.5"]] * 25,
    [["unit", "g"], ["mul", "cm"]] + [["sqrt", ""]] * 70,                    # beyond 2**64
    [["unit", "m"]] + [["powq", "1/3"]] * 13,
    [["unit", "s"]] + [["powq", "2/3"]] * 40,                                # numerator and denominator beyond 2**53
    [["unit", "m"], ["powq", "1/1009"], ["powq", "1/1013"]],                 # a root of a root
    [["unit", "m"], ["powq", "1/1999"], ["div", "s"], ["divpow", ["m", "1/2003"]]],   # co-prime roots: m**(4/4003997)/s
    [["unit", "kg"], ["mulpow", ["m", "1/999983"]], ["mulpow", ["m", "1/65537"]]],
    [["unit", "m"], ["powq", "999983/1000003"], ["powq", "65521/65537"]],    # operand beyond the bound: rounded, then exact
    [["unit", "m"], ["powf", "0.3333333333333333"], ["powf", "0.14285714285714285"], ["powf", "0.09090909090909091"], ["powf", "0.07692307692307693"], ["powf", "0.0101010101010101"], ["powf", "0.3333333333333333"]],
    [["unit", "J"], ["sqrt", ""], ["powq", "1/3"], ["rdiv", "W"]] + [["sqrt", ""]] * 18,
    [["unit", "m"], ["powq", "1/1000000"]], [["unit", "m"], ["powq", "1/1000"], ["powq", "1/1001"]], [["unit", "m"], ["powq", "-7/999999"], ["powq", "3/2"]],
]


def deep_programs(rng, atom, n):
    """random programs of unit operations whose exponents grow beyond any fixed bound: chains of
    roots, roots of roots, products / quotients of roots with co-prime denominators"""
    out = []
    for _ in range(n):
        prog = [["unit", atom()]]
        for _ in range(rng.choice([2, 3, 4, 6, 10, 20, 30, 45])):
            r = rng.random()
            if r < 0.35:
                prog.append(rng.choice([["sqrt", ""], ["powf", "0.5"], ["powq", "1/2"], ["powq", "1/3"], ["powf", "0.25"], ["powq", "3/2"], ["powq", "-1/2"]]))
            elif r < 0.55:
                a, b = rng.choice(PRIMES), rng.choice(PRIMES)
                prog.append(["powq", f"{rng.choice([1, 1, -1, a])}/{b}"] if a != b else ["powq", f"1/{b}"])
            elif r < 0.62:
                prog.append(["powf", repr(rng.choice([1 / 3, 1 / 7, 2 / 3, 1 / 9, 0.1, 1e-3, 1 / 997, 0.123456789, rng.random()]))])
            elif r < 0.78:
                prog.append([rng.choice(["mulpow", "divpow"]), [atom() if rng.random() < 0.5 else prog[0][1], f"{rng.choice([1, -1, 2])}/{rng.choice(PRIMES)}"]])
            elif r < 0.9:
                prog.append([rng.choice(["mul", "div"]), atom() if rng.random() < 0.6 else prog[0][1]])
            else:
                prog.append(["rdiv", atom()])
        out.append(prog)
    return out


def model_prog(prog, operands):
    """wire form of a program for `c20.arith` (None when an operand is not a coefficient-free monomial or
    the program uses operations outside the exponent model: simplify, coefficients)"""
    def fstr(ex):
        if ex is None or Fraction(ex[0]) != 1:
            return None
        return ";".join(f"{s}:{gen.rat_str(Fraction(q))}" for s, q in sorted(ex[1].items()))
    ops = iter(operands)
    steps, start = [], None
    for op, arg in prog:
        if op in ("unit", "mul", "div", "rdiv", "mulpow", "divpow"):
            f = fstr(next(ops, None))
            if f is None:
                return None
            if op == "unit":
                start = f
            elif op in ("mulpow", "divpow"):
                steps.append(("M=" if op == "mulpow" else "D=") + f + "=" + gen.rat_str(Fraction(arg[1])))
            else:
                steps.append({"mul": "m=", "div": "d=", "rdiv": "r="}[op] + f)
        elif op == "powq":
            steps.append("p=" + gen.rat_str(Fraction(arg)))
        elif op == "powf":
            # `Rational(str(p))` of Unit.__pow__: the rational the shortest decimal text of the float denotes
            steps.append("p=" + gen.rat_str(Fraction(repr(float(arg)))))
        elif op == "sqrt":
            steps.append("p=1/2")
        else:
            return None
    return None if start is None else start + "\t" + "|".join(steps)


UNICODE_PAIRS = [("µm", "um"), ("μm", "um"), ("µm", "μm"), ("µs", "us"), ("μF", "uF"), ("Ω", "ohm"), ("kΩ", "kohm"), ("Å", "angstrom"),
                 ("°", "deg"), ("°", "degree"), ("°C", "degC"), ("°F", "degF"), ("%", "percent"), ("m°C", "mdegC"), ("Ω*m", "ohm*m"),
                 ("µm/Ω**2", "um/ohm**2"), ("Å**-1", "1/angstrom"), ("°**2", "deg**2"),
                 ("°*°", "deg*deg"), ("°C/°F", "degC/degF"), ("%*%", "percent*percent"), ("%/°*%/°", "percent/deg*percent/deg"),
                 ("µm*µs/µF", "um*us/uF"), ("Ω/kΩ", "ohm/kohm")]


def mutate_chars(rng, s, pool):
    cs = list(s)
    for _ in range(rng.choice([1, 1, 1, 2, 3])):
        op = rng.random()
        i = rng.randrange(len(cs) + 1)
        if op < 0.35 or not cs:
            cs[i:i] = list(rng.choice(pool))
        elif op < 0.6:
            del cs[min(i, len(cs) - 1)]
        elif op < 0.85:
            cs[min(i, len(cs) - 1)] = rng.choice(pool)
        else:
            j = rng.randrange(len(cs))
            k = min(i, len(cs) - 1)
            cs[j], cs[k] = cs[k], cs[j]
    return "".join(cs)


def split_tokens(s):
    out, cur = [], ""
    for c in s:
        if c.isalnum() or c in "_.°%µμΩÅ":
            cur += c
        else:
            if cur:
                out.append(cur)
                cur = ""
            out.append(c)
    if cur:
        out.append(cur)
    # glue '**'
    res = []
    for t in out:
        if t == "*" and res and res[-1] == "*":
            res[-1] = "**"
        else:
            res.append(t)
    return res


def mutate_tokens(rng, s):
    ts = split_tokens(s)
    for _ in range(rng.choice([1, 1, 2])):
        op = rng.random()
        i = rng.randrange(len(ts) + 1)
        if op < 0.4 or not ts:
            ts.insert(i, rng.choice(TOKENS))
        elif op < 0.6:
            del ts[min(i, len(ts) - 1)]
        elif op < 0.8:
            ts[min(i, len(ts) - 1)] = rng.choice(TOKENS)
        elif op < 0.9:
            ts.insert(i, ts[rng.randrange(len(ts))])
        else:
            j = rng.randrange(len(ts))
            k = min(i, len(ts) - 1)
            ts[j], ts[k] = ts[k], ts[j]
    return "".join(ts)


def mutate_bytes(rng, s):
    b = bytearray(s.encode("utf-8", "surrogatepass"))
    for _ in range(rng.choice([1, 1, 2])):
        op = rng.random()
        i = rng.randrange(len(b) + 1)
        if op < 0.3 or not b:
            b.insert(min(i, len(b)), rng.randrange(256))
        elif op < 0.5:
            del b[min(i, len(b) - 1)]
        elif op < 0.8:
            b[min(i, len(b) - 1)] ^= 1 << rng.randrange(8)
        else:
            b[min(i, len(b) - 1)] = rng.randrange(256)
    return list(b)


# every run, whatever the seed: one probe per known shape of failure and a fixed list of
# boundary strings of the tokenizer / parser / evaluator
PROBES = [
    "", " ", "m", " m ", "m\n", "\tm", "m ", " m", "(m\n*s)", "m\n*s", "(m\r*s)", "m\x0c*s", "m\x0b*s", "m\x00", "﻿m",
    "m*s", "m s", "2m", "2 m", "2*m", "m/s", "m**2", "m**-2", "m**(-2)", "m**0.5", "m**(1/2)", "sqrt(m)", "sqrt", "(sqrt)(m)", "sqrt(m)(s)",
    "sqrt()", "2(m)", "m(s)", "()", "(m)", "-m", "+m", "--m", "m* *2", "m * * 2", "m***2", "m/ /s", "m//s", "(m", "m)", "m**", "*m", "m/",
    "0", "0*m", "0**0", "1**m", "m**s", "m**m", "2**m", "4**s", "m**(2*s)", "m**-s", "m**(s/s)", "lat**0.5", "lat**2", "lat**(1/3)",
    "lat**1.0", "(lat**2)**0.5", "(lat*m)**0.5", "sqrt(lat)", "m/lat**0.5", "lon**0.5", "(-8)**(1/3)", "(-4)**(1/2)", "(-1)**(1/2)", "(-m)**(1/2)",
    "(-m)**(1/3)", "(-m)**2", "sqrt(-4)", "zz", "zz*m", "zz**2", "m**zz", "4**(1/2)", "8**(1/3)", "(4/9)**(1/2)", "(4*m)**(1/2)", "8**(2/3)",
    "(1/4)**-0.5", "2**10*m", "2**-10*m", "10**20*m", "1e20*m", "1e-20*m",
    "0x10", "0b11", "0o17", "007", "00", "0_0", "007.5", "1_000", "1__0", "1_", "1e5", "1e", "1e+5", "1E-5", "1.", ".5", ".", "1.e5", "1j", "1.2.3",
    "1in", "1if", "1_0.5", "00e1", "1e5_0", "1e_5", "0x_1f", "0xe", "0b12", "0o8", "0x", "0X1F", "1 .5", "1. 5", "m.s", "m.5",
    "5%", "5*%", "%", "°C", "°", "°F", "m°", "m°C", "%*m", "Δ°C", "Δ°F", "delta_degC", "delta_degF", "degC", "degF", "dimensionless", "(dimensionless)",
    "in", "as", "is", "lambda", "None", "True", "__builtins__", "sqrt*m", "m*sqrt", "sqrt**2", "2**sqrt", "sqrt(sqrt)", "Integer", "Integer*m",
    "µm", "μm", "um", "Ω", "ohm", "Ω", "Å", "Å", "angstrom", "é", "m·s", "m²", "m**½", "٣*m",
    "1/2", "-1/2", "5", "-5", "3*m/2", "-3*m/(2*s*kg)", "m/(2*s)", "kg*m**2/s**2", "1/sqrt(m)", "-1/m", "-m**-2", "kg/sqrt(m)", "kg*m**(2/3)/s**(1/3)",
    "m**2**3", "m**-2**2", "-m**2", "-2**2", "m/s/kg", "m/(s/kg)", "1.5e3*m**-1.5", "m*Ω*K*kg*A*Å", "K*kg", "Ω*μm",
    "(" * 50 + "m" + ")" * 50, "-" * 40 + "m", "*".join(["m"] * 60), "m" + "**1" * 30,
    # out-of-vocabulary constructs
    "m+m", "m-m", "m+s", "2+3", "m+s-s", "m#foo", "m # foo", "Symbol('m')", "Integer(2)*m", "Rational(1,2)*m", "Float(2)*m", "Float('2.5')*m",
    "sqrt(m,)", "sqrt(m,s)", "m*[1][0]", "m*(1,2)[0]", "m*-(1==1)", "m*\\\ns", "2//1*m", "m<s", "m==s", "m,s", "[m]", "m@s", "~m", "m^s", "2^3", "m|s",
    "'m'", "\"m\"", "sqrt('4')", "abs(-2)*m", "__import__('os')", "().__class__", "m.name", "exp(0)*m", "len('ab')*m", "print(1)", "open('x')",
    "Symbol('')", "10**5000+m", "1e9999999991j*m", "1j*9**9**9**9", "1j**9**9**9**9", "2.5J*m", "m if 1 else s", "not m", "m or s", "lambda: m", "m;s", "m:s", "m=s", "m$", "m!", "m?", "m`",
    # resource probes
    "(-8)**sqrt(1/3)", "2**sqrt(-2)", "m**sqrt(-2)", "m**sqrt(2)", "km**sqrt(-1)",
    "9**9**9**9", "m**9**9**9", "1e999999999*m", "1e-999999999*m", "0/0", "1/0", "1/(1/0)", "10**5000*m",
]


# --------------------------------------------------------------------------------------


def cps(s):
    return ",".join(str(ord(c)) for c in s)


def from_cps(t):
    return "".join(chr(int(x)) for x in t.split(",")) if t else ""


def hang_shape(s):
    import re

    if re.search(r"[\d.][eE][+-]?[\d_]{6,}", s):
        return "float-exponent"
    if "**" in s and any(c.isdigit() for c in s):
        return "numeric-power"
    return "other"


def model_expr(fields):
    """('ok', Fraction coeff, {sym: Fraction}) from 'ok', coeff, factors"""
    c = Fraction(fields[1])
    return c, gen.parse_factors(fields[2])


def real_expr(e):
    return Fraction(e[0]), {k: Fraction(v) for k, v in e[1].items()}


def run(tier, seed):
    chk = core.Check("C20", tier, seed)
    chk.proof = core.prove("C20", PROOF_MODULES, extra_targets=("drv_c20",), tier=tier)
    rng = chk.rng
    ex = gen.extract()
    G = Grammar(rng, ex)
    inv_alts = {}
    for k, v in ex["inv_names"].items():
        if k and k.isidentifier() and k != v:
            inv_alts.setdefault(v, []).append(k)
    quick = tier == "quick"
    n_valid = 2500 if quick else 60000
    n_mut = 2500 if quick else 60000
    n_arith = 1500 if quick else 30000
    n_spell = 300 if quick else 6000
    n_bytes = 300 if quick else 5000

    # ------------------------------------------------------------------ inputs
    strings = []  # (origin, text)
    for s in PROBES:
        strings.append(("probe", s))
    for a in G.atoms:
        strings.append(("atomic", a))
    for k in ex["inv_names"]:  # every documented name, every run
        strings.append(("name", k))
    valid = [G.valid() for _ in range(n_valid)]
    strings += [("grammar", s) for s in valid]
    for _ in range(n_mut):
        base = rng.choice(valid) if rng.random() < 0.9 else rng.choice(PROBES)
        r = rng.random()
        if r < 0.45:
            strings.append(("mut-char", mutate_chars(rng, base, HOSTILE + list("*/()-+ 0123456789.msKkg_e"))))
        elif r < 0.9:
            strings.append(("mut-token", mutate_tokens(rng, base)))
        else:
            n = rng.randint(1, 12)
            strings.append(("malformed", "".join(rng.choice(HOSTILE + TOKENS) for _ in range(n))))
    for t in outside_vocabulary(rng, G, 300 if quick else 6000):
        strings.append(("outside-vocabulary", t))
    for t in evaluator_faults(rng, G, 150 if quick else 3000):
        strings.append(("evaluator-fault", t))
    byte_cases = [mutate_bytes(rng, rng.choice(valid)) for _ in range(n_bytes)] + [[0xFF], [0x6D, 0xC3], list("m*s".encode()), list("µm".encode("utf-8"))]

    # ------------------------------------------------------------------ the real library, under the watchdog
    nproc = 2 if quick else 4
    parts = [strings[i::nproc] for i in range(nproc)]
    reals = [Real() for _ in range(nproc)]
    import concurrent.futures as cf

    with cf.ThreadPoolExecutor(nproc) as tp:
        futs = [tp.submit(reals[i].run, [{"k": "str", "s": s} for _o, s in parts[i]]) for i in range(nproc)]
        res_parts = [f.result() for f in futs]
    replies = [None] * len(strings)
    for i in range(nproc):
        for j, rep in enumerate(res_parts[i]):
            replies[i + j * nproc] = rep

    # ------------------------------------------------------------------ the model
    try:
        mreplies = core.Model("drv_c20").ask(["c20.parse\t" + (cps(s) if not any(0xD800 <= ord(c) <= 0xDFFF for c in s) else "55296") for _o, s in strings])
    except Exception as e:  # noqa: BLE001
        mreplies = [["driver-failed"]] * len(strings)
        chk.disagree("driver", repr(e))

    # ------------------------------------------------------------------ oracles + correspondence on strings
    for (origin, s), rep, m in zip(strings, replies, mreplies):
        r = rep["r"]
        voc = rep.get("vocab") if r not in ("hang", "died") else vocab_category(s)
        chk.case(("str", s), {"origin": origin, "text": s, "real": r, "model": m[:2]} if origin == "grammar" and len(chk.samples) < 6 else None)
        chk.count(f"{origin}:{r}")
        mk = m[0] + (":" + m[1] if m[0] == "err" else "")
        chk.count("model:" + mk)
        # -- direct oracles
        if r == "hang":
            chk.fail(f"hang|{hang_shape(s)}", f"Unit({s!r}) did not return within {LIMIT} s", {"python": snip_hang(s), "text": s})
        elif r == "died":
            chk.fail("died", f"Unit({s!r}) killed the interpreter", {"python": snip_hang(s), "text": s})
        elif r == "exc":
            key = (f"escape|{rep['exc']}|{rep['trig']}" if voc is None
                   else f"escape|outside-vocabulary|{rep['exc']}|{rep.get('phase', 'unit-data')}")
            chk.fail(key, f"Unit({s!r}) raised {rep['exc']}, not UnitParseError", {"python": snip_total(s), "text": s})
        elif r == "ok":
            if voc is not None:
                chk.fail(f"vocab|{voc}", f"Unit({s!r}) accepted text outside the unit vocabulary ({voc})", {"python": snip_vocab(s), "text": s})
            elif "print_exc" in rep:
                chk.fail(f"print-raises|{rep['print_exc']}", f"str()/repr() of Unit({s!r}) raised {rep['print_exc']}", {"python": snip_print(s), "text": s})
            else:
                for which in ("str", "repr"):
                    v = rep["rt_" + which]
                    if v != "same":
                        how = "fails" if rep["kind"] == "irrational-exponent" else v if v.startswith("raises") else "differs"
                        chk.fail(f"reparse|{which}|{how}|{rep['kind']}", f"Unit({which}(u)) for u = Unit({s!r}) [{rep[which]!r}]: {v}",
                                 {"python": snip_reparse_str(s, which), "text": s})
        # -- correspondence
        if m[0] == "driver-failed":
            continue
        if m[0] == "err" and m[1] == "unmodelled":
            chk.count("unmodelled-skipped")
            continue
        if m[0] == "err" and m[1] == "outOfVocabulary":
            # the model is the specification here, not a model of the code: it only says the text is outside
            # the vocabulary.  Checked: Python's own tokenizer agrees, or the code refuses the text anyway.
            chk.count("model-out-of-vocabulary(spec, not compared)")
            if voc is None and r != "upe":
                chk.disagree("c20.parse", f"{s!r}: the model calls it outside the vocabulary, the tokenizer-based classifier does not, implementation {r}")
            continue
        if voc is not None:
            # outside the vocabulary: the model must refuse; the code's acceptance is the finding above
            if m[0] == "ok":
                chk.disagree("c20.parse", f"{s!r}: outside the vocabulary ({voc}) but the model accepts it")
            continue
        if m[0] == "err" and m[1] == "hang":
            if r != "hang":
                chk.disagree("c20.parse", f"{s!r}: model predicts no return in practical time, implementation {r}")
            continue
        if r in ("hang", "died"):
            chk.disagree("c20.parse", f"{s!r}: implementation {r}, model {m[:2]}")
            continue
        if r == "upe":
            if not (m[0] == "err" and m[1] == "UnitParseError"):
                chk.disagree("c20.parse", f"{s!r}: implementation UnitParseError, model {m[:3]}")
            continue
        if r == "exc":
            if not (m[0] == "err" and m[1] == rep["exc"]):
                chk.disagree("c20.parse", f"{s!r}: implementation {rep['exc']}, model {m[:3]}")
            continue
        # r == ok
        if m[0] != "ok":
            chk.disagree("c20.parse", f"{s!r}: implementation accepts ({rep.get('str')!r}), model {m[:2]}")
            continue
        if rep["expr"] is None:
            chk.disagree("c20.parse", f"{s!r}: implementation gives a non-rational-monomial expression {rep.get('str')!r}, model {m[:3]}")
            continue
        if model_expr(m) != real_expr(rep["expr"]):
            chk.disagree("c20.parse", f"{s!r}: expression differs: model {m[1:3]} implementation {rep['expr']}")
            continue
        if "print_exc" not in rep:
            if from_cps(m[3]) != rep["str"] or from_cps(m[4]) != rep["repr"]:
                chk.disagree("c20.parse", f"{s!r}: str/repr differ: model {from_cps(m[3])!r}/{from_cps(m[4])!r} implementation {rep['str']!r}/{rep['repr']!r}")

    # ------------------------------------------------------------------ bytes
    brep = reals[0].run([{"k": "bytes", "b": b} for b in byte_cases])
    try:
        bm = core.Model("drv_c20").ask(["c20.bytes\t" + ",".join(map(str, b)) for b in byte_cases])
    except Exception as e:  # noqa: BLE001
        bm = [["driver-failed"]] * len(byte_cases)
        chk.disagree("driver", repr(e))
    for b, rep, m in zip(byte_cases, brep, bm):
        r = rep["r"]
        chk.case(("bytes", bytes(b)))
        chk.count(f"bytes:{r}")
        if r == "hang":
            chk.fail("hang|" + hang_shape(bytes(b).decode("utf-8", "replace")), f"Unit({bytes(b)!r}) did not return", {"python": snip_hang(bytes(b))})
        elif r == "exc":
            chk.fail(f"escape|{rep['exc']}|{rep['trig']}", f"Unit({bytes(b)!r}) raised {rep['exc']}, not UnitParseError", {"python": snip_bytes(b)})
        voc = rep.get("vocab")
        if m[0] == "err" and len(m) > 1 and m[1] == "outOfVocabulary":
            m = ["err", "UnitParseError"] if (voc is None) else m
        if r == "ok" and voc is not None:
            chk.fail(f"vocab|{voc}", f"Unit({bytes(b)!r}) accepted text outside the unit vocabulary ({voc})", {"python": snip_bytes(b).replace("    Unit(b)\n", "    u = Unit(b)\n    raise AssertionError(('accepted', b, u))\n")})
        if m[0] == "driver-failed" or (m[0] == "err" and m[1] == "unmodelled"):
            continue
        if voc is not None:
            if m[0] == "ok":
                chk.disagree("c20.bytes", f"{bytes(b)!r}: outside the vocabulary ({voc}) but the model accepts it")
            continue
        want = {"upe": "err:UnitParseError", "exc": "err:" + rep.get("exc", ""), "ok": "ok", "hang": "err:hang"}.get(r, r)
        got = m[0] + (":" + m[1] if m[0] == "err" else "")
        if want != got:
            chk.disagree("c20.bytes", f"{bytes(b)!r}: implementation {want}, model {got}")
        elif r == "ok" and (rep["expr"] is None or model_expr(m) != real_expr(rep["expr"])):
            chk.disagree("c20.bytes", f"{bytes(b)!r}: expression differs: model {m[1:3]} implementation {rep['expr']}")

    # ------------------------------------------------------------------ units from unit arithmetic: print, re-parse
    progs = []
    zero_off = [k for k, v in ex["lut"].items() if v[1] == 0]
    for _ in range(n_arith):
        def atom():
            s = rng.choice(G.atoms if rng.random() < 0.15 else zero_off)
            if ex["lut"][s][3] and rng.random() < 0.3:
                s = rng.choice(G.pre) + s
            return s
        prog = [["unit", atom()]]
        for _ in range(rng.randint(0, 4)):
            r = rng.random()
            if r < 0.35:
                prog.append(["mul", atom()])
            elif r < 0.6:
                prog.append(["div", atom()])
            elif r < 0.65:
                prog.append(["rdiv", atom()])
            elif r < 0.8:
                q = rng.choice(G.exps)
                prog.append(["powq", f"{q.numerator}/{q.denominator}"])
            elif r < 0.88:
                prog.append(["powf", repr(rng.choice([0.5, -0.5, 1.5, 2.0, -1.0, 0.25, 1 / 3, 2 / 3, -1.5, 3.0,
                                                      rng.randint(-12, 12) / rng.choice([2, 3, 4, 5, 8]) or 2.5]))])
            elif r < 0.92:
                prog.append(["sqrt", ""])
            elif r < 0.96:
                prog.append(["simplify", ""])
            else:
                q = Fraction(rng.randint(1, 50), rng.choice([1, 2, 3, 10]))
                prog.append(["coeff", f"{q.numerator}/{q.denominator}"])
        progs.append(prog)
    # deterministic: every atomic unit, the dimensionless unit, inverse/sqrt of a few
    fixed = [[["unit", a]] for a in G.atoms] + [[["unit", ""]], [["unit", "m"], ["div", "m"]], [["unit", "m"], ["powq", "-1/1"]],
             [["unit", "m"], ["powq", "-1/2"]], [["unit", "km"], ["div", "m"], ["simplify", ""]], [["unit", "delta_degC"], ["mul", "m"]],
             [["unit", "degC"], ["powq", "2/1"]], [["unit", "%"], ["powq", "2/1"]], [["unit", "m"], ["coeff", "-3/2"]],
             [["unit", "degC"], ["mul", "dimensionless"]], [["unit", "degF"], ["div", "counts"]],
             [["unit", "degC"], ["powq", "1/1"]], [["unit", "lat"], ["powq", "2/1"], ["powf", "0.25"]],
             [["unit", "lat"], ["coeff", "1/10"], ["powq", "2/1"], ["powf", "0.25"]],
             [["unit", "m"], ["powf", "2.5"]], [["unit", "kg"], ["powf", "-3.5"]], [["unit", "s"], ["powf", "0.1"]], [["unit", "km"], ["powf", "7.25"]],
             [["unit", "m"], ["powf", "0.3333333333333333"]], [["unit", "m"], ["powf", "1e-3"]], [["unit", "m"], ["powf", "12.0"]]]
    def zatom():
        a = rng.choice(zero_off)
        return rng.choice(G.pre) + a if ex["lut"][a][3] and rng.random() < 0.2 else a
    progs = fixed + DEEP_FIXED + deep_programs(rng, zatom, 250 if quick else 6000) + progs
    with cf.ThreadPoolExecutor(nproc) as tp:
        pparts = [progs[i::nproc] for i in range(nproc)]
        futs = [tp.submit(reals[i].run, [{"k": "arith", "prog": p} for p in pparts[i]]) for i in range(nproc)]
        rp = [f.result() for f in futs]
    areps = [None] * len(progs)
    for i in range(nproc):
        for j, rep in enumerate(rp[i]):
            areps[i + j * nproc] = rep
    lines, idx = [], []
    for k, (prog, rep) in enumerate(zip(progs, areps)):
        r = rep["r"]
        chk.case(("arith", json.dumps(prog)), {"arith": prog, "str": rep.get("str")} if len(chk.samples) < 9 else None)
        chk.count(f"arith:{r}")
        if r == "hang":
            chk.fail("hang|arith", f"unit arithmetic {prog} did not return", {"python": PRE + arith_py(prog)})
            continue
        if r != "ok":
            continue
        if "print_exc" in rep:
            chk.fail(f"print-raises|{rep['print_exc']}", f"str()/repr() of the unit built by {prog} raised", {"python": PRE + arith_py(prog) + "str(u); repr(u)\n"})
            continue
        for which in ("str", "repr"):
            v = rep["rt_" + which]
            if v != "same":
                how = v if v.startswith("raises") else "differs"
                chk.fail(f"reparse|{which}|{how}|{rep['kind']}", f"Unit({which}(u)) for u built by {prog} [{rep[which]!r}]: {v}",
                         {"python": snip_reparse_arith(prog, which, rep.get("tol", 1e-12)), "prog": prog})
        if rep["expr"] is None:
            chk.count("arith:float-or-irrational-coefficient(model skipped)")
            continue
        c, fac = real_expr(rep["expr"])
        if any(q.denominator > 10**4 for q in fac.values()):
            chk.count("arith:long-exponent")
        mp = model_prog(prog, rep.get("operands", []))
        if mp is not None:
            lines.append("c20.arith\t" + mp)
            idx.append(k)
        lines.append("c20.print\t" + gen.rat_str(c) + "\t" + ";".join(f"{s}:{gen.rat_str(q)}" for s, q in sorted(fac.items())))
        idx.append(k)
        lines.append("c20.layout\t" + gen.rat_str(c) + "\t" + ";".join(f"{s}:{gen.rat_str(q)}" for s, q in sorted(fac.items())))
        idx.append(k)
    try:
        mrep = core.Model("drv_c20").ask(lines)
    except Exception as e:  # noqa: BLE001
        mrep = []
        chk.disagree("driver", repr(e))
    for line, k, m in zip(lines, idx, mrep):
        rep = areps[k]
        c, fac = real_expr(rep["expr"])
        want = f"ok|{gen.rat_str(c)}|" + ";".join(f"{s}:{gen.rat_str(q)}" for s, q in sorted(fac.items()))
        if line.startswith("c20.arith"):
            # the exponent arithmetic of __mul__/__truediv__/__pow__ (operand rounding, exact products and sums)
            chk.count("model:c20.arith")
            wantf = ";".join(f"{s}:{gen.rat_str(q)}" for s, q in sorted(fac.items()))
            if m[0] != "ok" or c != 1 or m[1] != wantf:
                chk.disagree("c20.arith", f"{progs[k]}: model expression {m[:2]} implementation {rep['expr']}")
                continue
            if from_cps(m[2]) != rep["str"] or from_cps(m[3]) != rep["repr"]:
                chk.disagree("c20.arith", f"{progs[k]}: model str/repr {from_cps(m[2])!r}/{from_cps(m[3])!r} implementation {rep['str']!r}/{rep['repr']!r}")
                continue
            for j, which in ((4, "str"), (5, "repr")):
                if m[j].startswith("err|unmodelled"):
                    continue
                if (m[j] == want) != (rep["xs_" + which] is True):
                    chk.disagree("c20.arith", f"{progs[k]}: re-parse of {which} {rep[which]!r}: model {m[j]} (want {want}) implementation {rep['rt_' + which]}")
        elif line.startswith("c20.print"):
            chk.count("model:c20.print")
            if m[0] != "ok" or from_cps(m[1]) != rep["str"] or from_cps(m[2]) != rep["repr"]:
                chk.disagree("c20.print", f"{progs[k]}: model str/repr {from_cps(m[1])!r}/{from_cps(m[2])!r} implementation {rep['str']!r}/{rep['repr']!r}")
                continue
            # the model's own re-parse verdict must be the implementation's
            for j, which in ((3, "str"), (4, "repr")):
                model_same = m[j] == want
                real_same = rep["xs_" + which] is True
                if m[j].startswith("err|unmodelled"):
                    continue
                if model_same != real_same:
                    chk.disagree("c20.print", f"{progs[k]}: re-parse of {which} {rep[which]!r}: model {m[j]} (want {want}) implementation {rep['rt_' + which]}")
        else:
            chk.count("model-only:c20.layout(lexer/evaluator self-consistency, not a tie to the code)")
            if m[0] != "ok" or m[1] != want or (m[2] != want and not m[2].startswith("err|unmodelled")) or m[3] != "1":
                chk.disagree("c20.layout", f"{progs[k]}: layout round trip broken in the model: {m} (want {want})")

    # ------------------------------------------------------------------ histories on one registry: the unit-object cache
    def variants(t):
        vs = [t, t, " " + t, t + " ", t.replace("*", " * "), t.swapcase(), t.lower(), t.upper(), t.replace("µ", "μ").replace("u", "μ", 1),
              t.replace("m", "M", 1), t.replace("k", "K", 1), t.replace("P", "p", 1), t.strip("()"), "(" + t + ")"]
        return rng.choice(vs)

    FAILING = ["m**", "zz", "(m", "m)", "zz*m", "m**zz", "m/", "2m"]
    hist_fixed = [
        [["s", "m"], ["s", "m"], ["b", list(b"m")], ["w", "m"], ["s", "m**"], ["s", "m**"], ["c", ""], ["w", "m"], ["s", "m"], ["s", " m"], ["b", [255]]],
        [["s", "mm"], ["s", "Mm"], ["s", "MM"], ["s", "mM"], ["s", "Pa"], ["s", "pA"], ["s", "PA"], ["s", "pa"]],                # keys differing in case only
        [["s", "km/s"], ["s", "km / s"], ["s", " km/s"], ["s", "km/s "], ["s", "(km/s)"], ["s", "km/s"], ["s", "km*s**-1"]],  # … in spacing only
        [["s", "µm"], ["s", "μm"], ["s", "um"], ["b", list("µm".encode())], ["s", "Ω"], ["s", "ohm"], ["s", "Ω"]],       # … in spelling only
        [["w", "km"], ["s", "km"], ["w", "km"], ["c", ""], ["s", "km"]],                                                          # data handed in is never stored
        [["s", "zz"], ["s", "zz"], ["s", "m"], ["s", "zz*m"], ["s", "m"], ["s", ""], ["s", ""], ["s", " "], ["s", "1"], ["s", "dimensionless"]],
        [["s", "degC"], ["s", "degc"], ["s", "DEGC"], ["s", "°C"], ["s", "degC"], ["s", "%"], ["s", "percent"]],
        [["s", "m"], ["s", "s"], ["s", "m*s"], ["s", "s*m"], ["s", "m"], ["c", ""], ["s", "s*m"], ["s", "m*s"]],
    ]
    hists = list(hist_fixed)
    for _ in range(200 if quick else 4000):
        pool = [rng.choice(valid) for _ in range(rng.randint(1, 3))] + [rng.choice(G.atoms), rng.choice(FAILING)]
        h = []
        for _ in range(rng.randint(3, 12)):
            t = variants(rng.choice(pool))
            r = rng.random()
            if r < 0.7:
                h.append(["s", t])
            elif r < 0.8:
                h.append(["b", list(t.encode("utf-8"))])
            elif r < 0.92:
                h.append(["w", t])
            else:
                h.append(["c", ""])
        hists.append(h)
    hrep = reals[0].run([{"k": "history", "calls": h} for h in hists])

    def hist_py(h, upto):
        lines = ["from unyt.unit_registry import UnitRegistry", "from unyt import dimensions", "reg = UnitRegistry()",
                 "def make(kind, arg, reg):", "    if kind == 'w':", "        return Unit(arg, base_value=2.5, dimensions=dimensions.length, registry=reg)",
                 "    return Unit(bytes(arg) if kind == 'b' else arg, registry=reg)",
                 "def facts(kind, arg, reg):", "    try:", "        u = make(kind, arg, reg)", "    except Exception as e:", "        return type(e).__name__",
                 "    return (str(u.expr), str(u.dimensions), round(float(u.base_offset), 9), '%.9e' % float(u.base_value))",
                 f"calls = {h[:upto + 1]!r}", "n = 0", "for kind, arg in calls[:-1]:", "    if kind == 'c':", "        n += 1", "        reg.add('c20aux%d' % n, 1.0, dimensions.length)",
                 "    else:", "        facts(kind, arg, reg)", "kind, arg = calls[-1]", "got = facts(kind, arg, reg)", "want = facts(kind, arg, UnitRegistry())",
                 "assert got == want, ('Unit(...) depends on what the registry was asked before', calls, got, want)"]
        return PRE + "\n".join(lines) + "\n"

    hlines, hidx = [], []
    for k, (h, rep) in enumerate(zip(hists, hrep)):
        chk.case(("history", json.dumps(h)), {"history": h[:5]} if k == len(hist_fixed) else None)
        if rep.get("r") != "history":
            chk.count(f"history:{rep.get('r')}")
            if rep.get("r") == "hang":
                chk.fail("hang|history", f"history {h} did not return", {"python": snip_hang(h[0][1] if isinstance(h[0][1], str) else "m")})
            continue
        chk.count("history:ok")
        for j, ((kind, arg), d) in enumerate(zip(h, rep["calls"])):
            chk.count(f"history-call:{kind}:{d['o']}")
            # DIRECT ORACLE (plain string / bytes calls): the answer must not depend on the history of the registry
            if kind in ("s", "b") and d.get("vs_fresh", "same") != "same":
                chk.fail(f"cache|history-dependent|{d['vs_fresh']}", f"call {j} of history {h}: Unit({arg!r}, registry=reg) differs from the same call on an unused registry in {d['vs_fresh']}",
                         {"python": hist_py(h, j), "history": h})
        def wire(kind, arg):
            if kind == "c":
                return "c"
            if kind == "b":
                return "b=" + ",".join(map(str, arg))
            return kind + "=" + cps(arg)
        if any(kind in ("s", "w") and (any(0xD800 <= ord(c) <= 0xDFFF for c in arg) or vocab_category(arg) is not None) for kind, arg in h):
            chk.count("history:text-outside-vocabulary(model skipped)")
            continue
        hlines.append("c20.history\t" + "|".join(wire(kind, arg) for kind, arg in h))
        hidx.append(k)
    try:
        hm = core.Model("drv_c20").ask(hlines)
    except Exception as e:  # noqa: BLE001
        hm = []
        chk.disagree("driver", repr(e))
    for k, m in zip(hidx, hm):
        h, rep = hists[k], hrep[k]
        chk.count("model:c20.history")
        if m[0] != "ok" or len(m) != len(h) + 2:
            chk.disagree("c20.history", f"{h}: model reply {m[:3]}")
            continue
        if any(x.startswith("E|err|") and x[6:] in ("unmodelled", "outOfVocabulary", "hang") for x in m[1:-1]):
            chk.count("history:model-outside-its-domain(skipped)")
            continue
        okay = True
        for j, ((kind, arg), d, x) in enumerate(zip(h, rep["calls"], m[1:-1])):
            if x[0] != d["o"]:
                chk.disagree("c20.history", f"call {j} of {h}: model {x[:40]} implementation {d['o']} ({d.get('exc')})")
                okay = False
                break
            if d["o"] == "E" and not (x == "E|err|UnitParseError" and d["exc"] == "UnitParseError"):
                chk.disagree("c20.history", f"call {j} of {h}: model {x} implementation raises {d['exc']}")
                okay = False
                break
            if d["o"] in ("H", "B") and d["expr"] is not None:
                c, fac = real_expr(d["expr"])
                want = f"{d['o']}|ok|{gen.rat_str(c)}|" + ";".join(f"{s}:{gen.rat_str(q)}" for s, q in sorted(fac.items()))
                if x != want:
                    chk.disagree("c20.history", f"call {j} of {h}: model {x} implementation {want}")
                    okay = False
                    break
        if okay and int(m[-1]) != rep["cached"]:
            chk.disagree("c20.history", f"{h}: {rep['cached']} texts cached at the end, model {m[-1]}")

    # ------------------------------------------------------------------ limit_denominator: the model's loop against CPython's / sympy's
    import sympy

    ld_cases = [(10**6, Fraction(1, 1048576)), (10**6, Fraction(4, 4003997)), (10**6, Fraction(1, 10**6)), (10**6, Fraction(1, 10**6 + 1)), (1, Fraction(1, 2)),
                (1, Fraction(3, 2)), (1, Fraction(-1, 2)), (10, Fraction("3.141592653589793")), (10**6, Fraction(repr(1 / 3)))]
    for _ in range(400 if quick else 8000):
        k = rng.choice([3, 7, 12, 17, 25])
        x = Fraction(rng.randint(-10**k, 10**k), rng.randint(1, 10**k))
        if rng.random() < 0.25:
            x = Fraction(repr(rng.random() * rng.choice([1, 10, 0.001])))
        ld_cases.append((rng.choice([1, 2, 3, 10, 1000, 10**6, 10**6, 10**6, 10**9]), x))
    try:
        lm = core.Model("drv_c20").ask([f"c20.limden\t{B}\t{gen.rat_str(x)}" for B, x in ld_cases])
    except Exception as e:  # noqa: BLE001
        lm = []
        chk.disagree("driver", repr(e))
    for (B, x), m in zip(ld_cases, lm):
        chk.case(("limden", B, str(x)))
        chk.count("model:c20.limden")
        w = sympy.Rational(x.numerator, x.denominator).limit_denominator(B)
        w = Fraction(int(w.p), int(w.q))
        if m[0] != "ok" or Fraction(m[1]) != w or w != x.limit_denominator(B):
            chk.disagree("c20.limden", f"limit_denominator({x}, {B}): model {m}, sympy {w}, fractions {x.limit_denominator(B)}")

    # ------------------------------------------------------------------ equivalent spellings
    spell_cases = []
    for _ in range(n_spell):
        mono = G.monomial()
        spell_cases.append(G.spellings(mono, inv_alts))
    for a, b in UNICODE_PAIRS:
        spell_cases.append([("reference", b), ("unicode-vs-ascii", a)])
    # every documented alternative name against its canonical symbol, every run
    for k, v in ex["inv_names"].items():
        if k and k != v:
            spell_cases.append([("reference", v), ("alternative-names", k)])
    srep = reals[0].run([{"k": "spell", "v": [t for _k, t in case]} for case in spell_cases])
    slines = []
    for case, rep in zip(spell_cases, srep):
        chk.case(("spell", case[0][1]), {"spellings": [t for _k, t in case[:4]]} if len(chk.samples) < 12 else None)
        if rep["r"] == "hang":
            chk.fail("hang|spelling", f"{case}", {"python": snip_hang(case[0][1])})
            continue
        if rep["verdicts"][0] != "same":
            chk.count("spell:reference-not-accepted")  # offset units under powers etc. — a totality matter, checked above
        for (kind, text), v in zip(case, rep["verdicts"]):
            chk.count("spell:" + kind)
            if v != "same" and rep["verdicts"][0] == "same":
                if kind == "alternative-names" and "°" in text and len(case) == 2:
                    kind = "alternative-names-degree-sign"
                chk.fail(f"spelling|{kind}", f"{text!r} and {case[0][1]!r} are spellings of one expression but give {v}",
                         {"python": snip_spell([case[0][1], text])})
            slines.append("c20.parse\t" + cps(text))
    try:
        sm = core.Model("drv_c20").ask(slines)
    except Exception as e:  # noqa: BLE001
        sm = []
        chk.disagree("driver", repr(e))
    it = iter(sm)
    for case, rep in zip(spell_cases, srep):
        if rep["r"] == "hang":
            continue
        ms = [next(it, ["missing"]) for _ in case]
        if rep["verdicts"][0] != "same":
            continue
        for (kind, text), m, rx, vd in zip(case, ms, rep["exprs"], rep["verdicts"]):
            if m[0] == "err" and m[1] == "unmodelled":
                continue
            if vd.startswith("raises:"):
                want = "UnitParseError" if vd == "raises:UnitParseError" else vd[7:]
                if not (m[0] == "err" and (m[1] == want or (want == "UnitParseError" and m[1] == "outOfVocabulary"))):
                    chk.disagree("c20.parse(spelling)", f"{text!r}: implementation {vd}, model {m[:3]}")
                continue
            if rx is None or m[0] != "ok" or model_expr(m) != real_expr(rx):
                chk.disagree("c20.parse(spelling)", f"{text!r} (a spelling of {case[0][1]!r}): model {m[:3]} implementation {rx}")

    for r in reals:
        r.stop()
    if os.environ.get("C20_DEBUG"):
        for o, d, _c in chk.disagreements:
            print("DISAGREE", o, d[:400], file=sys.stderr)
    chk.extra["worker_restarts"] = sum(r.restarts for r in reals)
    chk.extra["slow_replies_confirmed_not_hanging"] = sum(r.slow for r in reals)
    rule = ("strings: fixed probe list + every atomic symbol + grammar-generated valid expressions (all names, nested products/quotients/powers, "
            "coefficients, spellings of numbers) + char/token/byte mutations of them + malformed streams, each evaluated on the real parser under a "
            f"{LIMIT:g} s watchdog and on the compiled model; units built by random unit arithmetic (printed, re-parsed, compared with the model's "
            "str/repr and its own re-parse); families of equivalent spellings. distinct = distinct text / program")
    return chk.finish(rule)
