"""C16: catalogue of unit-returning operations (ndarray methods, NumPy functions with and without a
unyt handler, operators, conversions) as expression templates over
    x  the parent (unyt_array / unyt_quantity / subclass), a  the same data as bare ndarray,
    q  a scalar quantity in x's unit.
Each entry: (key, expression, guard(shape) -> bool, handler name or None, uses out=).
`key` names the operation family in finding keys (np.f(x) and x.f() share one)."""


def _any(s):
    return True


def nd(k):
    return lambda s: len(s) >= k


def ndeq(k):
    return lambda s: len(s) == k


def nonempty(s):
    n = 1
    for d in s:
        n *= d
    return n > 0


def vec(s):
    return len(s) == 1 and s[0] >= 1


def mat(s):
    return len(s) == 2 and s[0] >= 1 and s[1] >= 1


def square(s):
    return len(s) == 2 and s[0] == s[1] and s[0] >= 1


def size1(s):
    n = 1
    for d in s:
        n *= d
    return n == 1


def both(*gs):
    return lambda s: all(g(s) for g in gs)


OUT = "unyt_array(np.zeros(RSHAPE), 'm')"

CATALOGUE = [
    # ---- reductions (ufunc.reduce / handlers / default path) --------------------------------
    ("sum", "x.sum()", _any, None, False),
    ("sum", "np.sum(x)", _any, None, False),
    ("sum", "x.sum(axis=0)", nd(1), None, False),
    ("sum", "np.sum(x, axis=-1, keepdims=True)", nd(1), None, False),
    ("sum", "x.sum(axis=(0, 1))", nd(2), None, False),
    ("mean", "x.mean()", nonempty, None, False),
    ("mean", "np.mean(x, axis=0)", both(nd(1), nonempty), None, False),
    ("mean", "np.mean(x, axis=0, keepdims=True)", both(nd(1), nonempty), None, False),
    ("std", "x.std()", nonempty, None, False),
    ("std", "np.std(x, axis=-1)", both(nd(1), nonempty), None, False),
    ("var", "np.var(x)", nonempty, "var", False),
    ("var", "x.var(axis=0)", both(nd(1), nonempty), "var", False),
    ("min", "x.min()", nonempty, None, False),
    ("max", "np.max(x, axis=0)", both(nd(1), nonempty), None, False),
    ("max", "np.amax(x, axis=-1, keepdims=True)", both(nd(1), nonempty), None, False),
    ("nanmax", "np.nanmax(x)", nonempty, None, False),
    ("nansum", "np.nansum(x, axis=0)", nd(1), None, False),
    ("nanmean", "np.nanmean(x)", nonempty, None, False),
    ("median", "np.median(x)", nonempty, None, False),
    ("median", "np.median(x, axis=0)", both(nd(1), nonempty), None, False),
    ("nanmedian", "np.nanmedian(x)", nonempty, None, False),
    ("average", "np.average(x)", nonempty, None, False),
    ("prod", "np.prod(x)", nonempty, "prod", False),
    ("prod", "x.prod(axis=0)", both(nd(1), nonempty), "prod", False),
    ("ptp", "np.ptp(x)", nonempty, "ptp", False),
    ("ptp", "np.ptp(x, axis=0)", both(nd(1), nonempty), "ptp", False),
    ("percentile", "np.percentile(x, 50)", nonempty, "percentile", False),
    ("percentile", "np.percentile(x, [25, 75])", nonempty, "percentile", False),
    ("quantile", "np.quantile(x, 0.5, axis=0)", both(nd(1), nonempty), "quantile", False),
    ("nanpercentile", "np.nanpercentile(x, 50)", nonempty, "nanpercentile", False),
    ("nanquantile", "np.nanquantile(x, 0.5)", nonempty, "nanquantile", False),
    ("trace", "np.trace(x)", nd(2), "trace", False),
    ("trace", "x.trace()", nd(2), None, False),
    ("linalg.norm", "np.linalg.norm(x)", both(lambda s: 1 <= len(s) <= 2, nonempty), "linalg.norm", False),
    ("linalg.norm", "np.linalg.norm(x, axis=0)", both(nd(1), nonempty), "linalg.norm", False),
    ("linalg.norm", "np.linalg.norm(x, keepdims=True)", both(lambda s: 1 <= len(s) <= 2, nonempty), "linalg.norm", False),
    ("linalg.det", "np.linalg.det(x)", square, "linalg.det", False),
    ("linalg.inv", "np.linalg.inv(x + unyt_array(np.eye(x.shape[0]) * 10, 'm'))", square, "linalg.inv", False),
    ("trapezoid", "np.trapezoid(x)", both(nd(1), nonempty), "trapezoid", False),
    ("trapezoid", "np.trapezoid(x, axis=0)", both(nd(1), nonempty), "trapezoid", False),
    ("cumsum", "np.cumsum(x)", _any, None, False),
    ("cumsum", "x.cumsum(axis=0)", nd(1), None, False),
    ("cumulative_sum", "np.cumulative_sum(x, axis=0)", nd(1), None, False),
    # ---- products ---------------------------------------------------------------------------
    ("dot", "np.dot(x, x)", lambda s: len(s) <= 1, "dot", False),
    ("dot", "x.dot(x)", lambda s: len(s) <= 1, None, False),
    ("dot", "np.dot(x, x.T)", ndeq(2), "dot", False),
    ("dot(out)", "np.dot(x, x, out=" + OUT + ")", vec, "dot", True),
    ("dot(out)", "np.dot(x, x.T, out=" + OUT + ")", mat, "dot", True),
    ("vdot", "np.vdot(x, x)", _any, "vdot", False),
    ("inner", "np.inner(x, x)", lambda s: len(s) <= 2, "inner", False),
    ("outer", "np.outer(x, x)", _any, "outer", False),
    ("outer(out)", "np.outer(x, x, out=" + OUT + ")", both(nd(1), nonempty), "outer", True),
    ("kron", "np.kron(x, x)", _any, "kron", False),
    ("tensordot", "np.tensordot(x, x, 1)", vec, "tensordot", False),
    ("tensordot", "np.tensordot(x, x, 0)", _any, "tensordot", False),
    ("einsum", "np.einsum('i,i->', x, x)", vec, "einsum", False),
    ("einsum", "np.einsum('i->i', x)", ndeq(1), "einsum", False),
    ("einsum", "np.einsum('ij->', x)", ndeq(2), "einsum", False),
    ("einsum", "np.einsum('ij->j', x)", ndeq(2), "einsum", False),
    ("einsum", "np.einsum('...->...', x)", _any, "einsum", False),
    ("einsum(out)", "np.einsum('i,i->', x, x, out=" + OUT + ")", vec, "einsum", True),
    ("matmul", "x @ x", vec, None, False),
    ("matmul", "x @ x.T", mat, None, False),
    ("cross", "np.cross(x, x)", lambda s: s == (3,), "cross", False),
    ("convolve", "np.convolve(x, x)", vec, "convolve", False),
    ("correlate", "np.correlate(x, x)", vec, "correlate", False),
    # ---- take / choose / clip / around (handlers with out=) --------------------------------------
    ("take", "np.take(x, 0)", nonempty, "take", False),
    ("take", "x.take(0)", nonempty, "take", False),
    ("take", "np.take(x, [0])", nonempty, "take", False),
    ("take", "np.take(x, [[0, 0]])", nonempty, "take", False),
    ("take", "np.take(x, 0, axis=0)", both(nd(1), nonempty), "take", False),
    ("take", "np.take(x, np.array(0))", nonempty, "take", False),
    ("take(out)", "np.take(x, 0, out=" + OUT + ")", nonempty, "take", True),
    ("take(out)", "np.take(x, [0, 0], out=" + OUT + ")", nonempty, "take", True),
    ("clip", "np.clip(x, q, 2 * q)", _any, "clip", False),
    ("clip(out)", "np.clip(x, q, 2 * q, out=" + OUT + ")", _any, "clip", True),
    ("around", "np.around(x)", _any, "around", False),
    ("round", "np.round(x, 1)", _any, None, False),
    ("around(out)", "np.around(x, out=" + OUT + ")", _any, "around", True),
    ("choose", "np.choose(0, [x, x])", _any, "choose", False),
    ("choose(out)", "np.choose(0, [x, x], out=" + OUT + ")", _any, "choose", True),
    ("where", "np.where(True, x, x)", _any, "where", False),
    ("where", "np.where(np.ones(x.shape, dtype=bool), x, q)", _any, "where", False),
    ("select", "np.select([np.ones(x.shape, dtype=bool)], [x], q)", _any, "select", False),
    ("interp", "np.interp(q, unyt_array([1., 5.], 'm'), unyt_array([1., 2.], 'm'))", _any, "interp", False),
    ("interp", "np.interp(x, unyt_array([1., 5.], 'm'), unyt_array([1., 2.], 'm'))", _any, "interp", False),
    ("linspace", "np.linspace(q, 2 * q, 5)", _any, "linspace", False),
    ("linspace", "np.linspace(q, 2 * q, 1)", _any, "linspace", False),
    ("linspace", "np.linspace(x, 2 * x, 3)", _any, "linspace", False),
    ("geomspace", "np.geomspace(q, 2 * q, 4)", _any, "geomspace", False),
    # ---- joining -----------------------------------------------------------------------------
    ("concatenate", "np.concatenate([x, x])", nd(1), "concatenate", False),
    ("concatenate", "np.concatenate([x, x], axis=None)", _any, "concatenate", False),
    ("concatenate(out)", "np.concatenate([x, x], out=" + OUT + ")", nd(1), "concatenate", True),
    ("stack", "np.stack([x, x])", _any, "stack", False),
    ("stack(out)", "np.stack([x, x], out=" + OUT + ")", _any, "stack", True),
    ("vstack", "np.vstack([x, x])", _any, "vstack", False),
    ("hstack", "np.hstack([x, x])", _any, "hstack", False),
    ("dstack", "np.dstack([x, x])", _any, "dstack", False),
    ("column_stack", "np.column_stack([x, x])", _any, "column_stack", False),
    ("block", "np.block([x, x])", _any, "block", False),
    ("block", "np.block([[x], [x]])", _any, "block", False),
    ("append", "np.append(x, x)", _any, None, False),
    ("insert", "np.insert(x, 0, q)", nd(1), "insert", False),
    ("delete", "np.delete(x, 0)", nonempty, None, False),
    ("pad", "np.pad(x, 1)", nd(1), "pad", False),
    ("split", "np.split(x, 1)", nd(1), None, False),
    ("array_split", "np.array_split(x, 2)", nd(1), None, False),
    ("meshgrid", "np.meshgrid(x, x)", lambda s: len(s) <= 1, None, False),
    ("meshgrid", "np.meshgrid(q, x)", lambda s: len(s) <= 1, None, False),
    ("union1d", "np.union1d(x, x)", _any, "union1d", False),
    ("intersect1d", "np.intersect1d(x, x)", _any, "intersect1d", False),
    ("setdiff1d", "np.setdiff1d(x, x[:0] if x.ndim else x)", _any, "setdiff1d", False),
    ("unique", "np.unique(x)", _any, None, False),
    # ---- view-making / rearranging (default path) ----------------------------------------------
    ("squeeze", "x.squeeze()", _any, None, False),
    ("squeeze", "np.squeeze(x)", _any, None, False),
    ("squeeze", "np.squeeze(x, axis=0)", lambda s: len(s) >= 1 and s[0] == 1, None, False),
    ("reshape", "x.reshape(-1)", _any, None, False),
    ("reshape", "x.reshape(x.shape + (1,))", _any, None, False),
    ("reshape", "np.reshape(x, (1,) + x.shape)", _any, None, False),
    ("reshape", "x.reshape(())", size1, None, False),
    ("reshape", "np.reshape(x, ())", size1, None, False),
    ("reshape", "x.reshape(1, 1)", size1, None, False),
    ("reshape", "x.reshape([])", size1, None, False),
    ("ravel", "x.ravel()", _any, None, False),
    ("ravel", "np.ravel(x)", _any, None, False),
    ("flatten", "x.flatten()", _any, None, False),
    ("transpose", "x.T", _any, None, False),
    ("transpose", "x.transpose()", _any, None, False),
    ("transpose", "np.transpose(x)", _any, None, False),
    ("swapaxes", "np.swapaxes(x, 0, -1)", nd(1), None, False),
    ("moveaxis", "np.moveaxis(x, 0, -1)", nd(1), None, False),
    ("expand_dims", "np.expand_dims(x, 0)", _any, None, False),
    ("atleast_1d", "np.atleast_1d(x)", _any, None, False),
    ("atleast_2d", "np.atleast_2d(x)", _any, None, False),
    ("atleast_3d", "np.atleast_3d(x)", _any, None, False),
    ("broadcast_to", "np.broadcast_to(x, (2,) + x.shape)", _any, None, False),
    ("broadcast_arrays", "np.broadcast_arrays(x, x)", _any, None, False),
    ("tile", "np.tile(x, 2)", _any, None, False),
    ("repeat", "x.repeat(2)", _any, None, False),
    ("repeat", "np.repeat(x, 3)", _any, None, False),
    ("repeat", "np.repeat(x, 2, axis=0)", nd(1), None, False),
    ("resize", "np.resize(x, (2, 2))", nonempty, None, False),
    ("flip", "np.flip(x)", _any, None, False),
    ("roll", "np.roll(x, 1)", _any, None, False),
    ("rot90", "np.rot90(x)", nd(2), None, False),
    ("sort", "np.sort(x)", nd(1), None, False),
    ("sort", "np.sort(x, axis=None)", _any, None, False),
    ("diagonal", "np.diagonal(x)", nd(2), None, False),
    ("diag", "np.diag(x)", lambda s: 1 <= len(s) <= 2, None, False),
    ("diagflat", "np.diagflat(x)", _any, None, False),
    ("tril", "np.tril(x)", nd(1), "tril", False),
    ("triu", "np.triu(x)", nd(1), "triu", False),
    ("compress", "np.compress([True], x)", nonempty, None, False),
    ("extract", "np.extract(np.ones(x.shape, dtype=bool), x)", _any, None, False),
    ("take_along_axis", "np.take_along_axis(x, np.zeros(x.shape, dtype=int), axis=0)", both(nd(1), nonempty), None, False),
    ("view", "x.view()", _any, None, False),
    ("copy", "x.copy()", _any, None, False),
    ("copy", "np.copy(x, subok=True)", _any, None, False),
    ("astype", "x.astype('float32')", _any, None, False),
    ("real", "x.real", _any, None, False),
    ("real", "np.real(x)", _any, None, False),
    ("imag", "np.imag(x)", _any, None, False),
    ("conj", "x.conj()", _any, None, False),
    ("nan_to_num", "np.nan_to_num(x)", _any, None, False),
    ("fix", "np.fix(x)", _any, None, False),
    ("diff", "np.diff(x)", both(nd(1)), "diff", False),
    ("ediff1d", "np.ediff1d(x)", _any, "ediff1d", False),
    ("gradient", "np.gradient(x)", lambda s: len(s) == 1 and s[0] >= 2, None, False),
    ("fft.fft", "np.fft.fft(x)", both(nd(1), nonempty), "fft.fft", False),
    ("fft.fftshift", "np.fft.fftshift(x)", _any, "fft.fftshift", False),
    ("sort_complex", "np.sort_complex(x)", nd(1), "sort_complex", False),
    ("unwrap", "np.unwrap(x)", both(nd(1), nonempty), "unwrap", False),
    ("apply_along_axis", "np.apply_along_axis(np.sum, 0, x)", both(nd(1), nonempty), None, False),
    ("apply_over_axes", "np.apply_over_axes(np.sum, x, [0])", nd(1), "apply_over_axes", False),
    # ---- *_like ------------------------------------------------------------------------------------
    ("ones_like", "np.ones_like(x)", _any, None, False),
    ("zeros_like", "np.zeros_like(x)", _any, None, False),
    ("full_like", "np.full_like(x, 2.0)", _any, None, False),
    ("empty_like", "np.empty_like(x)", _any, None, False),
    ("like(shape=)", "np.ones_like(x, shape=(3,))", _any, None, False),
    ("like(shape=)", "np.ones_like(x, shape=())", _any, None, False),
    ("like(shape=)", "np.zeros_like(x, shape=(2, 2))", _any, None, False),
    ("like(shape=)", "np.zeros_like(x, shape=())", _any, None, False),
    ("like(shape=)", "np.full_like(x, 2.0, shape=(2,))", _any, None, False),
    ("like(shape=)", "np.full_like(x, 2.0, shape=())", _any, None, False),
    ("like(shape=)", "np.empty_like(x, shape=(2,))", _any, None, False),
    ("like(shape=)", "np.empty_like(x, shape=())", _any, None, False),
    # ---- unyt's own unit-returning members ------------------------------------------------------------
    ("to", "x.to('cm')", _any, None, False),
    ("in_units", "x.in_units('km')", _any, None, False),
    ("in_base", "x.in_base('cgs')", _any, None, False),
    ("in_cgs", "x.in_cgs()", _any, None, False),
    ("in_mks", "x.in_mks()", _any, None, False),
    ("to_equivalent", "x.to_equivalent('Hz', 'spectral')", nonempty, None, False),
    ("unit_array", "x.unit_array", _any, None, False),
    ("unit_array", "x.ua", _any, None, False),
    ("unit_quantity", "x.unit_quantity", _any, None, False),
    ("unit_quantity", "x.uq", _any, None, False),
    ("deepcopy", "__import__('copy').deepcopy(x)", _any, None, False),
    ("pickle", "__import__('pickle').loads(__import__('pickle').dumps(x))", _any, None, False),
    ("from_string", "unyt_quantity.from_string('3 m')", lambda s: s == (), None, False),
    ("unyt.uconcatenate", "unyt.uconcatenate([x, x])", nd(1), None, False),
    ("unyt.ustack", "unyt.ustack([x, x])", _any, None, False),
    ("unyt.uvstack", "unyt.uvstack([x, x])", _any, None, False),
    ("unyt.uhstack", "unyt.uhstack([x, x])", _any, None, False),
    ("unyt.udot", "unyt.udot(x, x)", lambda s: len(s) <= 1, None, False),
    ("unyt.unorm", "unyt.unorm(x)", both(lambda s: 1 <= len(s) <= 2, nonempty), None, False),
    ("unyt.ucross", "unyt.ucross(x, x)", lambda s: s == (3,), None, False),
    ("unyt.uintersect1d", "unyt.uintersect1d(x, x)", _any, None, False),
    ("unyt.uunion1d", "unyt.uunion1d(x, x)", _any, None, False),
    # ---- operators --------------------------------------------------------------------------------------
    ("neg", "-x", _any, None, False),
    ("pos", "+x", _any, None, False),
    ("abs", "abs(x)", _any, None, False),
    ("pow", "x ** 2", _any, None, False),
    ("pow", "x ** 0", _any, None, False),
    ("pow", "x ** 0.5", _any, None, False),
    ("round", "round(x)", lambda s: s == (), None, False),
    ("mul", "x * 2", _any, None, False),
    ("mul", "2.0 * x", _any, None, False),
    ("mul", "x * x", _any, None, False),
    ("mul", "x * q", _any, None, False),
    ("mul", "q * x", _any, None, False),
    ("mul", "x * a", _any, None, False),
    ("mul", "a * x", _any, None, False),
    ("mul", "q * a", _any, None, False),
    ("mul", "a * q", _any, None, False),
    ("div", "x / x", _any, None, False),
    ("div", "x.to('cm') / x", _any, None, False),
    ("div", "1.0 / x", _any, None, False),
    ("div", "q.to('cm') / q", _any, None, False),
    ("add", "x + x", _any, None, False),
    ("add", "x + q", _any, None, False),
    ("add", "q + x", _any, None, False),
    ("add", "x + x.to('cm')", _any, None, False),
    ("sub", "x - q", _any, None, False),
    ("floordiv", "x // q", _any, None, False),
    ("mod", "x % q", _any, None, False),
    ("divmod", "divmod(x, q)", _any, None, False),
    ("divmod", "divmod(q, x)", _any, None, False),
    ("divmod", "divmod(q, 2.0)", _any, None, False),
    ("divmod", "divmod(q, a)", _any, None, False),
    ("divmod", "divmod(a, q)", _any, None, False),
    ("mul-unit", "x * m", _any, None, False),
    ("mul-unit", "m * x", _any, None, False),
    ("div-unit", "x / m", _any, None, False),
    ("div-unit", "m / x", _any, None, False),
    ("mul-unit", "a * m", _any, None, False),
    ("div-unit", "a / m", _any, None, False),
    ("div-unit", "m / a", nonempty, None, False),
]
