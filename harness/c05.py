"""C05 — unit objects form a consistent multiplicative algebra."""
import itertools
import math
from fractions import Fraction

import core
import gen

import c05_worlds

PROOF_MODULES = ["UnytProofs.C05", "UnytProofs.C05Div", "UnytProofs.C05Paths"]


def kind(u):
    if u.base_offset != 0:
        return "offset"
    if str(u.dimensions) == "(logarithmic)":
        return "log"
    if u.is_dimensionless:
        return "dimless"
    return "plain"


def snippet(body):
    return "import unyt, math\nfrom unyt import Unit\nfrom unyt.unit_registry import UnitRegistry\nimport unyt.dimensions as D\n" + body


def try_(f):
    try:
        return ("ok", f())
    except Exception as e:  # noqa: BLE001
        return ("err", core.exc_name(e))


def finite(*us):
    return all(math.isfinite(u.base_value) and u.base_value != 0 and 1e-290 < abs(u.base_value) < 1e290 for u in us)


def same_unit(a, b):
    """denote the same unit: ==, and identical expression"""
    return a == b and a.expr == b.expr and a.dimensions == b.dimensions


def run(tier, seed):
    import sympy
    import unyt
    from unyt import Unit
    from unyt.unit_registry import UnitRegistry
    import unyt.dimensions as D

    chk = core.Check("C05", tier, seed)
    chk.proof = core.prove("C05", PROOF_MODULES, extra_targets=("unytmodel", "drv_c05"), tier=tier)
    rng = chk.rng
    ex = gen.extract()
    atoms = list(ex["lut"].keys())
    pre = [p for p in ex["prefixes"]]
    # custom registry with power-of-two and odd scales
    reg = UnitRegistry()
    reg.add("foo", 3.5, D.length, prefixable=True)
    reg.add("bar", 0.125, D.time)
    reg.add("baz", 7.0, D.mass / D.time ** 2)
    pool = {}
    for a in atoms:
        pool[a] = ("atomic", f"Unit({a!r})", Unit(a))
    for a in gen.prefixable_symbols():
        for p in rng.sample(pre, 2):
            pool[p + a] = ("prefixed", f"Unit({p + a!r})", Unit(p + a))
    for i in range(40 if tier == "quick" else 300):
        c = gen.random_compound(rng, 3)
        try:
            pool[c] = ("compound", f"Unit({c!r})", Unit(c))
        except Exception:
            chk.count("compound-unparsable")
    creg = "reg = UnitRegistry(); reg.add('foo', 3.5, D.length, prefixable=True); reg.add('bar', 0.125, D.time); reg.add('baz', 7.0, D.mass/D.time**2)\n"
    for s in ("foo", "kfoo", "bar", "baz", "foo*bar**-1", "baz**(1/2)*m"):
        pool["reg:" + s] = ("custom", f"Unit({s!r}, registry=reg)", Unit(s, registry=reg))
    names = list(pool)
    atom_names = [n for n in names if pool[n][0] == "atomic"]

    def mk(n):
        return pool[n][1]

    def pre_for(*ns):
        return creg if any(n.startswith("reg:") for n in ns) else ""

    # ---------------------------------------------------------------- pairs: commutativity, inverse, ==, hash
    pairs = list(itertools.product(atom_names, repeat=2))
    if tier == "quick":
        pairs = rng.sample(pairs, 3500)
    extra = [(rng.choice(names), rng.choice(names)) for _ in range(1500 if tier == "quick" else 20000)]
    extra = [(a, b) for a, b in extra if a.startswith("reg:") == b.startswith("reg:")]
    model_lines, model_expect = [], []
    for a, b in pairs + extra:
        ua, ub = pool[a][2], pool[b][2]
        ka, kb = kind(ua), kind(ub)
        chk.case(("pair", a, b), {"op": "mul/div/==/hash", "u": a, "v": b} if len(chk.samples) < 4 else None)
        chk.count(f"pair:{ka}x{kb}")
        r1 = try_(lambda: ua * ub)
        r2 = try_(lambda: ub * ua)
        hdr = pre_for(a, b) + f"u = {mk(a)}; v = {mk(b)}\n"
        if r1[0] != r2[0] or (r1[0] == "err" and r1[1] != r2[1]):
            chk.fail(f"comm-outcome|{ka}x{kb}", "u*v and v*u differ in outcome", {"python": snippet(hdr + "def t(f):\n    try: f(); return 'ok'\n    except Exception as e: return type(e).__name__\nassert t(lambda: u*v) == t(lambda: v*u)\n")})
        elif r1[0] == "ok":
            p, q = r1[1], r2[1]
            if not (same_unit(p, q) and hash(p) == hash(q)):
                chk.fail(f"comm|{ka}x{kb}", "u*v != v*u (==, expression or hash)", {"python": snippet(hdr + "p = u*v; q = v*u\nassert p == q and p.expr == q.expr and hash(p) == hash(q), (p, q)\n")})
            # homomorphism onto (scale, dimension)
            if not (core.close(p.base_value, ua.base_value * ub.base_value, 1e-12) and p.dimensions == ua.dimensions * ub.dimensions):
                chk.fail(f"hom|{ka}x{kb}", "scale/dimension of product is not the product", {"python": snippet(hdr + "p = u*v\nassert math.isclose(p.base_value, u.base_value*v.base_value, rel_tol=1e-12) and p.dimensions == u.dimensions*v.dimensions\n")})
        # equality is decided by scale, offset and dimension only
        want_eq = (math.isclose(ua.base_value, ub.base_value) and math.isclose(ua.base_offset, ub.base_offset)
                   and (ua.dimensions / ub.dimensions) == 1)
        if (ua == ub) != want_eq or (ub == ua) != want_eq:
            chk.fail(f"eq|{ka}x{kb}", "== is not decided by (scale, offset, dimension)", {"python": snippet(hdr + "w = math.isclose(u.base_value, v.base_value) and math.isclose(u.base_offset, v.base_offset) and (u.dimensions/v.dimensions) == 1\nassert (u == v) == w and (v == u) == w\n")})
        # division = multiplication by the inverse
        d1 = try_(lambda: ua / ub)
        d2 = try_(lambda: ua * ub ** -1)
        if d1[0] == "ok" and d2[0] == "ok" and kb not in ("offset",):
            if not same_unit(d1[1], d2[1]):
                chk.fail(f"div-inv|{ka}x{kb}", "u/v != u*v**-1", {"python": snippet(hdr + "p = u/v; q = u*v**-1\nassert p == q and p.expr == q.expr, (p, q)\n")})
        # model correspondence
        if not a.startswith("reg:"):
            try:
                fa, fb = gen.unit_wire_fields(ua), gen.unit_wire_fields(ub)
            except ValueError:
                continue
            model_lines.append("\t".join(["umul"] + fa + fb))
            model_expect.append(("umul", a, b, r1))
            model_lines.append("\t".join(["udiv"] + fa + fb))
            model_expect.append(("udiv", a, b, d1))
            e = try_(lambda: ua == ub)
            model_lines.append("\t".join(["ueq"] + fa + fb))
            model_expect.append(("ueq", a, b, e))
    # ---------------------------------------------------------------- singles: identity, inverse, hash, simplify, as_coeff_unit
    for a in names:
        u = pool[a][2]
        k = kind(u)
        hdr = pre_for(a) + f"u = {mk(a)}\n"
        chk.case(("single", a))
        chk.count("single:" + k)
        one = Unit(registry=u.registry)
        r = try_(lambda: one * u)
        if r[0] != "ok" or not same_unit(r[1], u) or r[1].base_offset != u.base_offset:
            chk.fail(f"identity|{k}", "dimensionless * u is not u", {"python": snippet(hdr + "p = Unit(registry=u.registry)*u\nassert p == u and p.expr == u.expr and p.base_offset == u.base_offset\n")})
        if k == "plain" or k == "dimless":
            r = try_(lambda: u * u ** -1)
            if r[0] != "ok" or not (r[1].is_dimensionless and r[1].expr == 1 and math.isclose(r[1].base_value, 1.0, rel_tol=1e-12)):
                chk.fail(f"inverse|{k}", "u * u**-1 is not the dimensionless unit", {"python": snippet(hdr + "p = u*u**-1\nassert p.is_dimensionless and p.expr == 1 and math.isclose(p.base_value, 1.0, rel_tol=1e-12), p\n")})
        # u**1 is u (offset included), u**0 is the dimensionless unit (offset units included; a logarithmic unit refuses)
        r = try_(lambda: u ** 1)
        if r[0] != "ok" or not (same_unit(r[1], u) and r[1].base_offset == u.base_offset and r[1].base_value == u.base_value):
            chk.fail(f"pow-one|{k}", "u**1 is not u", {"python": snippet(hdr + "p = u**1\nassert p == u and p.expr == u.expr and p.base_offset == u.base_offset and p.base_value == u.base_value, (p, p.base_offset)\n")})
        if k != "log":
            r = try_(lambda: u ** 0)
            if r[0] != "ok" or not (r[1].is_dimensionless and r[1].expr == 1 and r[1].base_value == 1.0 and r[1].base_offset == 0):
                chk.fail(f"pow-zero|{k}", "u**0 is not the dimensionless unit", {"python": snippet(hdr + "p = u**0\nassert p.is_dimensionless and p.expr == 1 and p.base_value == 1.0 and p.base_offset == 0, p\n")})
        # __pow__ on every kind of unit (offset and logarithmic ones refuse most exponents): the regenerated program
        if True:
            for q in (Fraction(0), Fraction(1), Fraction(2), Fraction(-1), Fraction(1, 2)):
                try:
                    fu = gen.unit_wire_fields(u)
                except ValueError:
                    break
                rq = try_(lambda: u ** sympy.Rational(q.numerator, q.denominator))
                if rq[0] == "ok" and not finite(rq[1]):
                    continue
                model_lines.append("\t".join(["c05.upow"] + fu + [gen.rat_str(q)]))
                model_expect.append(("c05.upow", a, str(q), rq))
        # same expression, same registry state => equal hash and ==
        try:
            v = Unit(str(u.expr), registry=u.registry)
            if not (hash(v) == hash(u) and v == u):
                chk.fail(f"hash|{k}", "unit rebuilt from the same expression hashes/compares differently", {"python": snippet(hdr + "v = Unit(str(u.expr), registry=u.registry)\nassert hash(v) == hash(u) and v == u\n")})
        except Exception:
            chk.count("rebuild-raised")
        # simplify / as_coeff_unit denote the same unit (on copies: simplify mutates, a C18 matter)
        if k in ("plain", "dimless"):
            w = Unit(u.expr, registry=u.registry)
            hash(w)  # a unit that was already used as a dict key (hash taken) and is then simplified in place
            s = try_(lambda: w.simplify())
            if s[0] == "ok":
                sv = s[1]
                # same expression, same registry state => same hash, whatever was done to the object before
                try:
                    fresh = Unit(sv.expr, registry=u.registry)
                    if fresh.expr == sv.expr and not (hash(sv) == hash(fresh) and sv == fresh):
                        chk.fail(f"hash-after-simplify|{k}", "a unit hashed, then simplified, hashes differently from a unit built from the same expression",
                                 {"python": snippet(hdr + "w = Unit(u.expr, registry=u.registry); hash(w); s = w.simplify(); f = Unit(s.expr, registry=u.registry)\n"
                                                    "assert f.expr != s.expr or (hash(s) == hash(f) and s == f), (s, hash(s), hash(f))\n")})
                except Exception:  # noqa: BLE001
                    chk.count("rebuild-raised")
                ok = sv.dimensions == u.dimensions and math.isclose(sv.base_value, u.base_value, rel_tol=1e-12)
                try:
                    cf, cu = sv.as_coeff_unit()
                except Exception:  # noqa: BLE001  (as_coeff_unit raising on a simplified unit is itself a failure)
                    cf, cu, ok = 0.0, u, False
                # the simplified expression must denote the same scale when rebuilt from scratch
                try:
                    rebuilt = Unit(sv.expr, registry=u.registry)
                    ok = ok and rebuilt.dimensions == u.dimensions and math.isclose(rebuilt.base_value, u.base_value, rel_tol=1e-9)
                except Exception as e:  # noqa: BLE001
                    ok = False
                ok = ok and math.isclose(cf * cu.base_value, u.base_value, rel_tol=1e-9) and cu.dimensions == u.dimensions
                if ok:
                    try:
                        model_lines.append("\t".join(["c05.ascoeff"] + gen.unit_wire_fields(sv)))
                        model_expect.append(("c05.ascoeff", a + ".simplify()", "", ("ok", (cf, cu))))
                    except ValueError:
                        pass
                if not ok:
                    chk.fail(f"simplify|{pool[a][0]}", "simplify()/as_coeff_unit() changed what the unit denotes",
                             {"python": snippet(hdr + "w = Unit(u.expr, registry=u.registry); s = w.simplify(); r = Unit(s.expr, registry=u.registry); c, cu = s.as_coeff_unit()\n"
                                                "assert r.dimensions == u.dimensions and math.isclose(r.base_value, u.base_value, rel_tol=1e-9), (s, r.base_value, u.base_value)\n"
                                                "assert math.isclose(c*cu.base_value, u.base_value, rel_tol=1e-9) and cu.dimensions == u.dimensions\n")})
    # ---------------------------------------------------------------- triples: associativity and power laws
    exps = [Fraction(1, 2), Fraction(1, 3), Fraction(2, 3), Fraction(3, 2), Fraction(2), Fraction(3), Fraction(-1), Fraction(-2), Fraction(-1, 2), Fraction(1, 4), Fraction(5, 2)]

    def as_arg(q, style):
        if style == "float":
            return float(q), repr(float(q))
        if style == "trunc" and q.denominator == 3:
            return round(float(q), 7), repr(round(float(q), 7))
        return (sympy.Rational(q.numerator, q.denominator), f"__import__('sympy').Rational({q.numerator},{q.denominator})")

    from unyt.exceptions import InvalidUnitOperation

    plain = [n for n in names if kind(pool[n][2]) in ("plain", "dimless") and pool[n][2].base_value > 0]
    ntr = 1500 if tier == "quick" else 40000
    for _ in range(ntr):
        a, b, c = rng.choice(plain), rng.choice(plain), rng.choice(plain)
        if len({a.startswith("reg:"), b.startswith("reg:"), c.startswith("reg:")}) > 1:
            continue
        u, v, w = pool[a][2], pool[b][2], pool[c][2]
        hdr = pre_for(a, b, c) + f"u = {mk(a)}; v = {mk(b)}; w = {mk(c)}\n"
        chk.case(("triple", a, b, c))
        chk.count("triple")
        # a compound that carries a logarithmic factor (e.g. B*counts**4) is refused by the guards of
        # __mul__/__pow__: that is the documented refusal case of the laws, not a failure of them
        # units carrying a (fractional power of a) logarithmic or offset factor are refused by the guards of
        # __mul__/__pow__ at some step: that is the documented refusal case of the laws, not a failure of them
        try:
            l, r = (u * v) * w, u * (v * w)
            if not finite(l, r, u * v, v * w):
                chk.count("overflow-skipped")
            elif not (same_unit(l, r) and hash(l) == hash(r) and math.isclose(l.base_value, r.base_value, rel_tol=1e-12)):
                chk.fail("assoc", "(u*v)*w != u*(v*w)", {"python": snippet(hdr + "l = (u*v)*w; r = u*(v*w)\nassert l == r and l.expr == r.expr and hash(l) == hash(r), (l, r)\n")})
            p, q = rng.choice(exps), rng.choice(exps)
            style = rng.choice(["rational", "float", "trunc"])
            pa, ps = as_arg(p, style)
            qa, qs = as_arg(q, style)
            pqa, pqs = as_arg(p * q, style if style != "trunc" else "float")
            chk.count("pow:" + style)
            l, r = (u ** pa) ** qa, u ** pqa
            if not finite(l, r, u ** pa):
                chk.count("overflow-skipped")
            elif not (same_unit(l, r) and math.isclose(l.base_value, r.base_value, rel_tol=1e-9)):
                chk.fail(f"pow-pow|{style}", "(u**p)**q != u**(p*q)", {"python": snippet(hdr + f"l = (u**{ps})**{qs}; r = u**{pqs}\nassert l == r and l.expr == r.expr, (l, r)\n")})
            l, r = (u * v) ** pa, u ** pa * v ** pa
            if not finite(l, r, u * v, u ** pa, v ** pa):
                chk.count("overflow-skipped")
            elif not (same_unit(l, r) and math.isclose(l.base_value, r.base_value, rel_tol=1e-9)):
                chk.fail(f"mul-pow|{style}", "(u*v)**p != u**p * v**p", {"python": snippet(hdr + f"l = (u*v)**{ps}; r = u**{ps}*v**{ps}\nassert l == r and l.expr == r.expr, (l, r)\n")})
            # scale/dimension homomorphism for powers
            up = u ** pa
            try:
                want_scale = u.base_value ** float(p)
            except OverflowError:
                want_scale = float("inf")
            if finite(up) and not (core.close(up.base_value, want_scale, 1e-9) and up.dimensions == u.dimensions ** sympy.Rational(p.numerator, p.denominator)):
                chk.fail(f"hom-pow|{style}", "scale/dimension of u**p is not scale**p / dim**p", {"python": snippet(hdr + f"up = u**{ps}\nassert math.isclose(up.base_value, u.base_value**{float(p)!r}, rel_tol=1e-9)\n")})
            if not a.startswith("reg:"):
                try:
                    model_lines.append("\t".join(["upow"] + gen.unit_wire_fields(u) + [gen.rat_str(p)]))
                    model_expect.append(("upow", a, str(p), ("ok", up)))
                except ValueError:
                    pass
        except InvalidUnitOperation:
            chk.count("triple-guard-refused")
        except (TypeError, OverflowError, ZeroDivisionError) as e_:
            # scale arithmetic left the double range (e.g. (1e-132)**2.5 underflows to 0, then 0**-2 is sympy's zoo):
            # outside the claim, like the overflow-skipped cases above; anything else is a failure of the laws
            mags = [abs(math.log10(x.base_value)) for x in (u, v, w)]
            if max(mags) * 8 > 250:
                chk.count("overflow-skipped")
            else:
                chk.fail("law-raises|" + core.exc_name(e_), f"a unit-algebra law raised {e_!r} on in-range units",
                         {"python": snippet(hdr + "p = (u*v)*w; q = u*(v*w)\n")})

    # equality by (scale, offset, dimension) only — spelled differently
    for x, y in [("J", "N*m"), ("J", "kg*m**2/s**2"), ("W", "J/s"), ("Pa", "N/m**2"), ("Hz", "1/s"), ("erg", "g*cm**2/s**2"), ("V", "W/A"), ("ohm", "V/A"), ("T", "Wb/m**2")]:
        chk.case(("eq", x, y))
        if not (Unit(x) == Unit(y)):
            chk.fail("eq-spelling", f"{x} != {y}", {"python": snippet(f"assert Unit({x!r}) == Unit({y!r})\n")})
    # ---------------------------------------------------------------- same spelling, different stored data (histories)
    c05_worlds.run_worlds(chk, 4 if tier == "quick" else 40, model_lines, model_expect)
    # ---------------------------------------------------------------- model correspondence
    # every mul/div/pow case is run twice: through the hand-written model (`UnitV.mul/div/pow`, what the laws are proved
    # about) and through the program regenerated from the live source (`c05.*`, proved equal to it in C05Paths.lean)
    dup = [("c05." + ln, ("c05." + ex_[0],) + tuple(ex_[1:])) for ln, ex_ in zip(model_lines, model_expect) if ex_[0] in ("umul", "udiv", "upow", "ueq")]
    model_lines += [d[0] for d in dup]
    model_expect += [d[1] for d in dup]
    try:
        replies = core.Model("drv_c05").ask(model_lines)
    except Exception as e:  # noqa: BLE001
        replies = []
        chk.disagree("driver", repr(e))
    for rep, (op, a, b, real) in zip(replies, model_expect):
        chk.count("model:" + op)
        if op in ("ueq", "c05.ueq"):
            want = "1" if (real[0] == "ok" and real[1]) else "0"
            if rep[0] != "ok" or rep[1] != want:
                chk.disagree(op, f"{a} == {b}: model {rep} implementation {real}")
            continue
        if op == "c05.ascoeff":
            cf, cu = real[1]
            try:
                want = gen.unit_wire_fields(cu)
            except ValueError:
                continue
            ok = (rep[0] == "ok" and len(rep) >= 7 and core.close(core.b2f(rep[6]), cf, 1e-12) and core.close(core.b2f(rep[1]), cu.base_value, 1e-9)
                  and core.close(core.b2f(rep[2]), cu.base_offset) and rep[3] == want[2]
                  and gen.parse_factors(rep[5]) == gen.parse_factors(want[4]) and core.close(core.b2f(rep[4]), core.b2f(want[3]), 1e-9))
            if not ok:
                chk.disagree(op, f"{a}: model {rep[1:]} implementation coeff {cf!r} unit {want}")
            continue
        if real[0] == "err":
            if rep[0] != "err" or rep[1] != real[1]:
                chk.disagree(op, f"{a},{b}: model {rep[:2]} implementation raised {real[1]}")
            continue
        if rep[0] != "ok":
            chk.disagree(op, f"{a},{b}: model {rep[:2]} implementation returned {real[1]}")
            continue
        r = real[1]
        try:
            want = gen.unit_wire_fields(r)
        except ValueError:
            continue
        ok = core.close(core.b2f(rep[1]), r.base_value, 1e-9) and core.close(core.b2f(rep[2]), r.base_offset) and rep[3] == want[2]
        ok = ok and gen.parse_factors(rep[5]) == gen.parse_factors(want[4]) and core.close(core.b2f(rep[4]), core.b2f(want[3]), 1e-9)
        if not ok:
            chk.disagree(op, f"{a},{b}: model {rep[1:]} implementation {want}")
    rule = ("ordered pairs of atomic units (sampled in quick, exhaustive in thorough) plus mixed pairs over prefixed/compound/custom-registry units; "
            "every unit singly; random triples with rational/float/truncated-float exponents; distinct = distinct operand tuple; all involve a real unit operation")
    return chk.finish(rule)
