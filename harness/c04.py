"""C04 — arithmetic results do not depend on the units the operands are written in.

Three layers (see design.d/C04.md):
  1. proofs: lake build of UnytProofs.C04 (+ Real/C04Homog), axiom audit, translator plugin c04_ufuncs;
  2. correspondence: the compiled model (drv_c04) against the library on the unit rule each ufunc
     applies, the factor it puts on the second operand, the coefficient / post-multiplier and the
     returned numbers — per ufunc and unit pair, and on the nested units that arise inside programs;
  3. direct oracle (never consults the model): random expression programs over quantities are run
     on the library in several spellings of the leaves (each leaf independently re-expressed in a
     commensurable unit) and against a reference interpreter that does the same mathematics with
     NumPy on the SI magnitudes and dimensional analysis; every node is compared on SI magnitude
     (within a propagated rounding bound; bit-exact in the power-of-two registry), dimension, unit
     label for the sum-like ufuncs, and label/scale consistency.
"""
import math
import os
from fractions import Fraction

import numpy as np

import core
import gen

PROOF_MODULES = ["UnytProofs.C04", "UnytProofs.C04Programs", "UnytProofs.C04Buffers", "UnytProofs.Real.C04Homog"]
EPS = 2.0 ** -52
SLACK = 64 * EPS  # rounding of unit scales, conversion factors and simplification coefficients

# ---------------------------------------------------------------------------------------------
# unit spelling groups


# the custom registries: (symbol, scale in `reg` (and in `reg3` before modify), scale in `reg2` (and in `reg3`
# after modify), dimension, zero-point offset).  All scales are powers of two.  `reg` and `reg2` define the SAME
# symbols with DIFFERENT sizes (two "datasets"); `reg3` starts like `reg` and is modified to the sizes of `reg2`
# after the "before" unit objects were created (history).
CUSTOM = [("xla", 1.0, 2.0 ** 3, "length", 0.0), ("xlb", 2.0 ** -4, 2.0 ** -1, "length", 0.0),
          ("xlc", 2.0 ** 8, 2.0 ** 5, "length", 0.0), ("xld", 2.0 ** 10, 2.0 ** 12, "length", 0.0),
          ("xta", 4.0, 2.0 ** -1, "time", 0.0), ("xtb", 2.0 ** -6, 2.0 ** -3, "time", 0.0), ("xtc", 2.0 ** 6, 2.0 ** 9, "time", 0.0),
          ("xma", 2.0, 2.0 ** 4, "mass", 0.0), ("xmb", 2.0 ** -2, 2.0 ** -5, "mass", 0.0), ("xmc", 2.0 ** 8, 2.0 ** 6, "mass", 0.0),
          ("xfa", 8.0, 2.0 ** 1, "force", 0.0), ("xea", 2.0 ** 5, 2.0 ** 8, "energy", 0.0),
          ("xva", 2.0 ** -3, 2.0 ** -5, "velocity", 0.0), ("xqa", 2.0 ** 4, 2.0 ** 2, "rate", 0.0),
          # angle units, two of them with a zero point (like lat / lon), one with a negative scale
          ("xaa", 2.0 ** -3, 2.0 ** -5, "angle", 4.0), ("xab", -(2.0 ** -1), -(2.0 ** -2), "angle", -2.0),
          ("xac", 2.0 ** -2, 2.0 ** -4, "angle", 0.0)]
NDEF = 4  # definitions of a custom symbol: 0 = reg, 1 = reg2, 2 = reg3 before modify, 3 = reg3 after modify


def _registry_src(keys=()):
    """python source that rebuilds the custom registries, their history, and the unit objects `_U[(string, d)]`"""
    rows = ", ".join(f"({n!r}, {s!r}, {s2!r}, D.{d}, {off!r})" for n, s, s2, d, off in CUSTOM)
    keys = sorted(set(keys))
    return (f"_CUSTOM = [{rows}]\n"
            "reg = UnitRegistry(); reg2 = UnitRegistry(); reg3 = UnitRegistry()\n"
            "for _n, _s, _s2, _d, _o in _CUSTOM:\n"
            "    reg.add(_n, _s, _d, offset=(_o or None)); reg2.add(_n, _s2, _d, offset=(_o or None)); reg3.add(_n, _s, _d, offset=(_o or None))\n"
            f"_KEYS = {keys!r}\n"
            "_U = {}\n"
            "for _k in _KEYS:\n"
            "    if _k[1] == 2:\n        _U[_k] = Unit(_k[0], registry=reg3)      # created before the registry is modified\n"
            "for _n, _s, _s2, _d, _o in _CUSTOM:\n    reg3.modify(_n, _s2)\n"
            "for _k in _KEYS:\n"
            "    if _k[1] == 0:\n        _U[_k] = Unit(_k[0], registry=reg)\n"
            "    elif _k[1] == 1:\n        _U[_k] = Unit(_k[0], registry=reg2)\n"
            "    elif _k[1] == 3:\n        _U[_k] = Unit(Unit(_k[0], registry=reg2).expr, registry=reg3)   # re-read after modify\n")


# the same dimension spelled through different decompositions (a named derived unit against a
# product of others): their quotient does not cancel factor by factor, which is the branch of the
# dispatcher that multiplies the scale of a dimensionless-ratio result into the numbers
HETERO = [
    ["J", "erg", "N*m", "dyn*cm", "kg*m**2/s**2", "W*s", "Pa*m**3", "kJ"],
    ["N", "dyn", "kg*m/s**2", "g*cm/s**2", "J/m", "lbf", "erg/cm"],
    ["Pa", "bar", "N/m**2", "dyn/cm**2", "J/m**3", "psi", "lbf/inch**2"],
    ["W", "J/s", "erg/s", "hp", "N*m/s"],
    ["m/s", "km/hr", "mile/hr", "mph", "cm/s", "inch/min"],
    ["Hz", "1/s", "kHz", "1/min", "1/ms"],
    ["m**2", "ha", "acre", "km**2", "cm*m", "inch*ft"],
    ["m**3", "L", "gal_US", "cm**3", "m**2*cm", "ha*mm"],
    ["dimensionless", "percent", "m/km", "s/hr", "N*m/J"],
    ["rad", "degree", "arcmin", "arcsec", "mrad", "rev"],
]
# angle units with a zero point and/or a negative scale: points on an affine scale; only sin/cos/tan take them
AFFINE = [["rad", "degree", "lat", "lon", "arcmin", "mrad"]]
AFFINE_POW2 = [["xac", "xaa", "xab"]]
HETERO_POW2 = [
    ["xea", "xfa*xla", "xma*xla**2/xta**2", "xfa*xlb", "xmb*xlc**2*xtb**(-2)", "xma*xva**2"],
    ["xfa", "xea/xla", "xma*xla/xta**2", "xmc*xlb*xtc**(-2)", "xea/xld"],
    ["xva", "xla/xta", "xlb/xtb", "xld*xqa", "xlc/xtc"],
    ["xqa", "1/xta", "1/xtb", "xva/xla", "xva/xlc"],
]

PREFIXES = ["k", "m", "c", "M", "d", "h"]


def build_groups(rng, tier):
    """spelling groups: lists of unit strings of one dimension (zero offset, positive scale).
    Returns (default-registry groups, custom-registry groups); a group is (name, [strings])."""
    ex = gen.extract()
    lut = ex["lut"]
    bydim = {}
    for k, v in lut.items():
        scale, off = core.b2f(v[0]), core.b2f(v[1])
        dim = ",".join(v[2])
        if off != 0 or not (1e-7 <= scale <= 1e7):
            continue
        if v[2][3] != "0" or v[2][7] != "0":  # temperature (C08's subject) and logarithmic units
            continue
        if k in ("lat", "lon"):
            continue
        bydim.setdefault(dim, []).append(k)
    atomic = {}
    for dim, ks in bydim.items():
        names = list(ks)
        for k in ks:
            if lut[k][3]:
                for p in rng.sample(PREFIXES, 2):
                    s = core.b2f(lut[k][0]) * core.b2f(ex["prefixes"][p][0])
                    if 1e-7 <= s <= 1e7:
                        names.append(p + k)
        if len(names) >= 2:
            atomic[dim] = sorted(set(names))
    groups = [("atomic:" + dim, v) for dim, v in sorted(atomic.items())]
    # compound groups: the same shape spelled with different members
    dims = sorted(atomic)
    exps = [1, -1, 2, -2, Fraction(1, 2)]
    ncomp = 10 if tier == "quick" else 40
    for i in range(ncomp):
        shape = [(rng.choice(dims), rng.choice(exps)) for _ in range(rng.randint(2, 3))]
        names = set()
        for _ in range(6):
            parts = []
            for d, e in shape:
                s = rng.choice(atomic[d])
                parts.append(s if e == 1 else (f"{s}**({e})" if not isinstance(e, Fraction) else f"{s}**({e.numerator}/{e.denominator})"))
            names.add("*".join(parts))
        if len(names) >= 2:
            groups.append((f"compound:{i}", sorted(names)))
    for i, members in enumerate(HETERO):
        groups.append((f"hetero:{i}", list(members)))
    # custom registry: power-of-two scales
    cgroups = []
    fam = {}
    for n, _s, _s2, d, _off in CUSTOM:
        if d in ("length", "time", "mass"):
            fam.setdefault(d, []).append(n)
    for i, members in enumerate(AFFINE):
        groups.append((f"affine:{i}", list(members)))
    for i, members in enumerate(AFFINE_POW2):
        cgroups.append((f"pow2-affine:{i}", list(members)))
    for i, members in enumerate(HETERO_POW2):
        cgroups.append((f"pow2-hetero:{i}", list(members)))
    for d, ns in fam.items():
        cgroups.append(("pow2:" + d, ns))
    shapes = [[("length", 1), ("time", -1)], [("mass", 1), ("length", 2), ("time", -2)], [("length", 2)], [("mass", 1), ("length", -3)],
              [("time", -1)], [("length", 1), ("time", -2)]]
    for i, shape in enumerate(shapes):
        names = set()
        for _ in range(6):
            names.add("*".join((rng.choice(fam[d]) if e == 1 else f"{rng.choice(fam[d])}**({e})") for d, e in shape))
        if len(names) >= 2:
            cgroups.append((f"pow2-compound:{i}", sorted(names)))
    return groups, cgroups


# ---------------------------------------------------------------------------------------------
# the operations: reference kernel on SI magnitudes, rounding-bound propagation, applicability

def _away(a, ea, k=64.0):
    """every element of a is away from 0 by more than k times its error bound (or exactly known)"""
    a = np.abs(np.asarray(a, dtype=float))
    return bool(np.all((a > k * ea) & (a > 0)))


def _sep(a, b, ea, eb):
    d = np.abs(np.asarray(a) - np.asarray(b))
    e = ea + eb
    return bool(np.all((d > 64 * e) | (e == 0)))


class Node:
    __slots__ = ("ref", "err", "dim", "bare", "depth", "desc", "exact", "affine")

    def __init__(self, ref, err, dim, bare, depth, desc, exact):
        self.ref = np.asarray(ref)
        self.err = np.broadcast_to(np.asarray(err, dtype=float), self.ref.shape) if self.ref.dtype != bool else np.zeros(self.ref.shape)
        self.dim = dim        # tuple of 8 Fractions, None for bare results
        self.bare = bare
        self.depth = depth
        self.desc = desc      # (opname, form, arg indices, params)
        self.exact = exact    # every step so far is exactly scale-covariant in IEEE arithmetic under power-of-two rescaling
        self.affine = False   # a leaf written in a unit with a zero point: a point, not a difference


ZERO = tuple([Fraction(0)] * 8)


def dmul(a, b):
    return tuple(x + y for x, y in zip(a, b))


def ddiv(a, b):
    return tuple(x - y for x, y in zip(a, b))


def dpow(a, p):
    return tuple(x * Fraction(p) for x in a)


def dstr(d):
    return ",".join(gen.rat_str(x) for x in d)


HOM1 = {"add": np.add, "subtract": np.subtract, "maximum": np.maximum, "minimum": np.minimum, "fmax": np.fmax,
        "fmin": np.fmin, "hypot": np.hypot, "remainder": np.remainder, "fmod": np.fmod}
CMP = {"greater": np.greater, "greater_equal": np.greater_equal, "less": np.less, "less_equal": np.less_equal,
       "equal": np.equal, "not_equal": np.not_equal}
UN1 = {"negative": np.negative, "absolute": np.absolute, "fabs": np.fabs, "positive": np.positive, "conjugate": np.conjugate}
OPERATORS = {"add": "+", "subtract": "-", "multiply": "*", "divide": "/", "floor_divide": "//", "remainder": "%",
             "greater": ">", "greater_equal": ">=", "less": "<", "less_equal": "<=", "equal": "==", "not_equal": "!=",
             "matmul": "@", "power": "**"}
INPLACE = {"add", "subtract", "multiply", "divide", "floor_divide", "remainder"}
BINARY = (list(HOM1) + list(CMP) + ["multiply", "divide", "floor_divide", "arctan2", "copysign", "heaviside", "matmul", "dot", "vecdot"])
UNARY = list(UN1) + ["sqrt", "cbrt", "square", "reciprocal", "power", "sign", "sin", "cos", "tan"]
REDUCE = [("add", "reduce"), ("add", "accumulate"), ("maximum", "reduce"), ("minimum", "reduce"), ("multiply", "reduce"),
          ("divide", "reduce"), ("multiply", "outer"), ("add", "outer"), ("divide", "outer"), ("maximum", "accumulate"),
          # `reduce` without an axis keyword: NumPy reduces along axis 0
          ("multiply", "reduce0"), ("divide", "reduce0"), ("add", "reduce0"), ("maximum", "reduce0")]
ANGLE = tuple(Fraction(int(i == 4)) for i in range(8))


def try_binary(op, a, b, pow2):
    """reference evaluation of binary `op` on nodes a, b: returns (ref, err, dim, bare, exact) or None when
    the operation is not applicable / not safely away from a discontinuity"""
    A, B, ea, eb = a.ref, b.ref, a.err, b.err
    sl = 0.0 if (pow2 and a.exact and b.exact) else SLACK
    exact = a.exact and b.exact
    with np.errstate(all="ignore"):
        if op in HOM1 or op in CMP or op in ("arctan2", "floor_divide"):
            if a.dim != b.dim:
                return None
        if op in HOM1:
            if op in ("remainder", "fmod"):
                if not _away(B, eb):
                    return None
                q = A / B
                eq = (ea + np.abs(q) * eb) / np.abs(B) + 4 * sl * np.abs(q)
                fr = np.abs(q - np.round(q))
                if not np.all(((fr > 64 * eq + 1e-9) | (eq == 0)) & (np.abs(q) < 2.0 ** 30)):
                    return None
                r = HOM1[op](A, B)
                err = ea + (np.abs(np.floor(q)) + 1) * eb + sl * (np.abs(A) + np.abs(np.floor(q) * B))
                return r, err, a.dim, False, exact
            r = HOM1[op](A, B)
            if op in ("add", "subtract"):
                err = ea + eb + sl * (np.abs(A) + np.abs(B))
            elif op == "hypot":
                err = ea + eb + max(sl, SLACK) * np.abs(r)
                exact = False
            else:
                err = np.maximum(ea, eb) + sl * (np.abs(A) + np.abs(B))
            return r, err, a.dim, False, exact
        if op in CMP:
            if not _sep(A, B, ea + sl * np.abs(A), eb + sl * np.abs(B)):
                return None
            return CMP[op](A, B), 0.0, None, True, exact
        if op == "multiply":
            r = A * B
            return r, np.abs(A) * eb + np.abs(B) * ea + ea * eb + sl * np.abs(r), dmul(a.dim, b.dim), False, exact
        if op == "divide":
            if not _away(B, eb):
                return None
            r = A / B
            return r, (ea + np.abs(r) * eb) / np.abs(B) * 1.02 + sl * np.abs(r), ddiv(a.dim, b.dim), False, exact
        if op == "floor_divide":
            if not _away(B, eb):
                return None
            q = A / B
            eq = (ea + np.abs(q) * eb) / np.abs(B) + 4 * sl * np.abs(q)
            fr = np.abs(q - np.round(q))
            if not np.all(((fr > 64 * eq + 1e-9) | (eq == 0)) & (np.abs(q) < 2.0 ** 30)):
                return None
            return np.floor_divide(A, B), 0.0, ZERO, False, exact
        if op == "arctan2":
            h2 = A * A + B * B
            if not (np.all(h2 > 0) and _away(np.sqrt(h2), ea + eb)):
                return None
            r = np.arctan2(A, B)
            return r, (np.abs(B) * ea + np.abs(A) * eb) / h2 * 1.05 + SLACK, ZERO, False, False
        if op == "copysign":
            if not _away(B, eb + sl * np.abs(B)):
                return None
            return np.copysign(A, B), ea, a.dim, False, exact
        if op == "heaviside":
            # heaviside(x, h0) is 0, h0 or 1: a pure number for x != 0.  The library accepts h0 only in
            # x's own dimension, so that is what is generated; x is kept away from 0
            if a.dim != b.dim or not _away(A, ea + sl * np.abs(A)):
                return None
            return np.heaviside(A, B), 0.0 * ea, ZERO, False, exact
        if op in ("matmul", "dot", "vecdot"):
            if A.ndim == 0 or B.ndim == 0 or A.shape[-1] != B.shape[0]:
                return None
            if op == "vecdot" and not (A.ndim == 1 and B.ndim == 1):
                return None
            r = A @ B
            aa, bb = np.abs(A), np.abs(B)
            n = A.shape[-1]
            err = aa @ np.broadcast_to(eb, B.shape) + np.broadcast_to(ea, A.shape) @ bb + (sl + (0 if (pow2 and exact) else n * EPS)) * (aa @ bb)
            if pow2 and exact and not np.all((aa @ bb) < 2.0 ** 40):
                return None
            return r, err, dmul(a.dim, b.dim), False, exact
    return None


def try_unary(op, a, pow2, p=None):
    A, ea = a.ref, a.err
    sl = 0.0 if (pow2 and a.exact) else SLACK
    exact = a.exact
    with np.errstate(all="ignore"):
        if op in UN1:
            return UN1[op](A), ea, a.dim, False, exact
        if op == "square":
            return np.square(A), 2 * np.abs(A) * ea + ea * ea + sl * A * A, dpow(a.dim, 2), False, exact
        if op == "reciprocal":
            if not _away(A, ea):
                return None
            r = 1.0 / A
            return r, ea * r * r * 1.05 + sl * np.abs(r), dpow(a.dim, -1), False, exact
        if op == "sqrt":
            if not (np.all(A > 0) and _away(A, ea)):
                return None
            r = np.sqrt(A)
            return r, ea / (2 * r) * 1.05 + SLACK * r, dpow(a.dim, Fraction(1, 2)), False, False
        if op == "cbrt":
            if not _away(A, ea):
                return None
            r = np.cbrt(A)
            return r, ea / (3 * r * r) * 1.05 + SLACK * np.abs(r), dpow(a.dim, Fraction(1, 3)), False, False
        if op == "power":
            if p != int(p) and not np.all(A > 0):
                return None
            if not _away(A, ea):
                return None
            r = np.power(A, float(p))
            if not np.all(np.isfinite(r)):
                return None
            ex = exact and p in (1, 2)
            return r, abs(float(p)) * np.abs(r) * ea / np.abs(A) * 1.1 + (sl if ex else SLACK * (1 + abs(float(p)))) * np.abs(r), dpow(a.dim, Fraction(p)), False, ex
        if op == "sign":
            if not _away(A, ea + sl * np.abs(A)):
                return None
            return np.sign(A), 0.0, None, True, exact
        if op in ("sin", "cos", "tan"):
            if a.dim != ANGLE or not np.all(np.abs(A) < 1e6):
                return None
            e = ea + SLACK * np.abs(A)
            if op == "tan":
                c = np.cos(A)
                if not np.all(np.abs(c) > 0.1):
                    return None
                return np.tan(A), e / (c * c) * 1.1 + 16 * EPS * (1 + np.abs(np.tan(A))), None, True, False
            return getattr(np, op)(A), e + 16 * EPS, None, True, False
    return None


def try_reduce(uf, method, a, b, pow2):
    A, ea = a.ref, a.err
    sl = 0.0 if (pow2 and a.exact and (b is None or b.exact)) else SLACK
    exact = a.exact and (b is None or b.exact)
    with np.errstate(all="ignore"):
        if method == "outer":
            if b is None or A.ndim != 1 or b.ref.ndim != 1:
                return None
            B, eb = b.ref, b.err
            if uf == "add":
                if a.dim != b.dim:
                    return None
                r = np.add.outer(A, B)
                return r, np.add.outer(ea, eb) + sl * np.add.outer(np.abs(A), np.abs(B)), a.dim, False, exact
            if uf == "multiply":
                r = np.multiply.outer(A, B)
                return r, np.multiply.outer(np.abs(A), eb) + np.multiply.outer(ea, np.abs(B)) + np.multiply.outer(ea, eb) + sl * np.abs(r), dmul(a.dim, b.dim), False, exact
            if uf == "divide":
                if not _away(B, eb):
                    return None
                r = np.divide.outer(A, B)
                return r, (np.add.outer(ea, 0 * eb) + np.abs(r) * eb[None, :]) / np.abs(B)[None, :] * 1.02 + sl * np.abs(r), ddiv(a.dim, b.dim), False, exact
            return None
        if A.ndim == 0:
            return None
        if method == "reduce0":
            method = "reduce"
        n = A.shape[0]
        if uf == "add":
            f = np.add.reduce if method == "reduce" else np.add.accumulate
            r = f(A, axis=0)
            g = np.add.reduce if method == "reduce" else np.add.accumulate
            return r, g(np.broadcast_to(ea, A.shape), axis=0) + (sl + (0 if (pow2 and exact) else n * EPS)) * g(np.abs(A), axis=0), a.dim, False, exact
        if uf in ("maximum", "minimum"):
            f = getattr(getattr(np, uf), method)
            r = f(A, axis=0)
            return r, np.max(np.broadcast_to(ea, A.shape), axis=0) + sl * np.max(np.abs(A), axis=0), a.dim, False, exact
        if uf == "multiply" and method == "reduce":
            if not _away(A, ea):
                return None
            r = np.multiply.reduce(A, axis=0)
            rel = np.add.reduce(np.broadcast_to(ea, A.shape) / np.abs(A), axis=0)
            return r, np.abs(r) * (rel * 1.1 + (sl + (0 if (pow2 and exact) else 1) * n * SLACK)), dpow(a.dim, n), False, exact
        if uf == "divide" and method == "reduce":
            if not _away(A, ea):
                return None
            r = np.divide.reduce(A, axis=0)
            if not np.all(np.isfinite(r)):
                return None
            rel = np.add.reduce(np.broadcast_to(ea, A.shape) / np.abs(A), axis=0)
            return r, np.abs(r) * (rel * 1.1 + (sl + (0 if (pow2 and exact) else 1) * n * SLACK)), dpow(a.dim, 2 - n), False, exact
    return None


# ---------------------------------------------------------------------------------------------
# programs


class Program:
    def __init__(self, pow2):
        self.pow2 = pow2
        self.leaves = []   # (values ndarray, group index)
        self.mixed = False  # leaves may be written with the other definitions of the custom symbols
        self.nodes = []    # Node

    def ancestors(self, i):
        seen = set()
        stack = [i]
        while stack:
            k = stack.pop()
            if k in seen:
                continue
            seen.add(k)
            d = self.nodes[k].desc
            if d[0] != "leaf":
                stack.extend(d[2])
        return sorted(seen)


def leaf_values(rng, shape, pow2):
    n = int(np.prod(shape)) if shape else 1
    if pow2:
        vals = [rng.choice([-1, 1, 1, 1]) * rng.randint(1, 96) / 8.0 * 2.0 ** rng.randint(-2, 2) for _ in range(n)]
    else:
        vals = [rng.choice([-1, 1, 1, 1]) * rng.uniform(1.0, 10.0) * 10.0 ** rng.randint(-2, 2) for _ in range(n)]
    return np.array(vals, dtype=float).reshape(shape)


def gen_program(rng, groups, unit_of, pow2, max_depth, max_nodes, force_op=None):
    """grow a random program; the reference (SI magnitudes, NumPy) is evaluated alongside to decide
    applicability.  `unit_of(string)` gives the real Unit (for scale and dimension of the leaves)."""
    P = Program(pow2)
    nleaves = rng.randint(2, 4)
    het = [i for i, g in enumerate(groups) if "hetero" in g[0]]

    def pick():
        return rng.choice(het) if (het and rng.random() < 0.4) else rng.randrange(len(groups))

    ang = [i for i, g in enumerate(groups) if "affine" in g[0] or gen.dim_vec(unit_of(g[1][0]).dimensions) == "0,0,0,0,1,0,0,0"]
    if force_op in ("sin", "cos", "tan") and ang:
        gidx = [rng.choice(ang) for _ in range(2)]
    else:
        gidx = [pick() for _ in range(2)]
    shapes = [(), (3,), (3,), (2, 3), (3, 3)]
    for i in range(nleaves):
        g = rng.choice(gidx) if rng.random() < 0.8 else pick()
        shape = rng.choice(shapes) if i else rng.choice([(3,), (3,), (2, 3)])
        vals = leaf_values(rng, shape, pow2)
        u0 = unit_of(groups[g][1][0])
        P.leaves.append((vals, g))
        dim = tuple(Fraction(x) for x in gen.dim_vec(u0.dimensions).split(","))
        # reference SI magnitude of the leaf is defined through the first spelling of its group
        nd = Node(None, 0.0, dim, False, 0, ("leaf", "leaf", [i], None), True)
        nd.affine = "affine" in groups[g][0]
        P.nodes.append(nd)
    return P


# ---------------------------------------------------------------------------------------------


def snippet_header(custom, keys=()):
    h = ("import numpy as np, unyt\nfrom unyt import unyt_array, unyt_quantity, Unit\nfrom unyt.unit_registry import UnitRegistry\n"
         "import unyt.dimensions as D\nnp.seterr(all='ignore')\n")
    if custom:
        h += _registry_src(keys)
    else:
        h += "reg = None\n_U = {}\n"
    h += ("def SI(q):\n    return np.asarray(q.d if hasattr(q, 'units') else q, dtype=float) * (float(q.units.base_value) if hasattr(q, 'units') else 1.0)\n"
          "def Q(vals, u, d=0):\n    a = np.array(vals, dtype=float)\n    uu = _U[(u, d)] if (u, d) in _U else (Unit(u, registry=reg) if reg is not None else Unit(u))\n"
          "    return unyt_array(a, uu) if a.ndim else unyt_quantity(float(a), uu)\n")
    return h


def run(tier, seed):
    import sympy  # noqa: F401
    import unyt
    import unyt.dimensions as D
    from unyt import Unit, unyt_array, unyt_quantity
    from unyt.unit_registry import UnitRegistry

    chk = core.Check("C04", tier, seed)
    chk.proof = core.prove("C04", PROOF_MODULES, extra_targets=("drv_c04",), tier=tier)
    rng = chk.rng
    X = {}
    try:
        import json
        X = json.load(open(os.path.join(core.BUILD, "extract_c04_ufuncs.json"), encoding="utf-8"))
    except Exception as e:  # noqa: BLE001
        chk.disagree("translator", f"extract_c04_ufuncs.json unreadable: {e!r}")
    registry = unyt.unyt_array._ufunc_registry
    by_name = {k.__name__: k for k in registry}

    reg, reg2, reg3 = UnitRegistry(), UnitRegistry(), UnitRegistry()
    for n, s, s2, d, off in CUSTOM:
        reg.add(n, s, getattr(D, d), offset=(off or None))
        reg2.add(n, s2, getattr(D, d), offset=(off or None))
        reg3.add(n, s, getattr(D, d), offset=(off or None))
    ucache = {}
    reg3_modified = [False]

    def unit_of(s, custom=False, d=0):
        """the real Unit for spelling `s`; for the custom symbols `d` selects the definition (0 = reg, 1 = reg2,
        2 = reg3 before modify, 3 = reg3 after modify).  The objects are kept: a Unit carries the scale its
        registry gave the symbols when it was created."""
        key = (s, custom, d if custom else 0)
        if key not in ucache:
            if not custom:
                ucache[key] = Unit(s)
            elif d == 0:
                ucache[key] = Unit(s, registry=reg)
            elif d == 1:
                ucache[key] = Unit(s, registry=reg2)
            elif d == 2:
                if reg3_modified[0]:
                    raise RuntimeError("a 'before' unit must be created before reg3 is modified")
                ucache[key] = Unit(s, registry=reg3)
            else:
                if not reg3_modified[0]:
                    raise RuntimeError("an 'after' unit must be created after reg3 is modified")
                # through the expression: the registry's string cache may still hold the stale object
                ucache[key] = Unit(Unit(s, registry=reg2).expr, registry=reg3)
        return ucache[key]

    groups, cgroups = build_groups(rng, tier)
    # drop spellings the parser rejects (C14's business) or whose scale left the safe range
    def clean(gs, custom):
        out = []
        for name, members in gs:
            ok = []
            for m in members:
                try:
                    u = unit_of(m, custom)
                    if "affine" in name:
                        if 1e-12 < abs(float(u.base_value)) < 1e12:
                            ok.append(m)
                    elif u.base_offset == 0 and 1e-12 < float(u.base_value) < 1e12:
                        ok.append(m)
                except Exception:  # noqa: BLE001
                    chk.count("spelling-unparsable")
            if len(ok) >= 2:
                out.append((name, ok))
        return out

    groups = clean(groups, False)
    cgroups = clean(cgroups, True)
    # the history of reg3: every custom spelling first as a 'before' object, then the symbols are modified
    for _name, members in cgroups:
        for m in members:
            unit_of(m, True, 2)
    for n, s, s2, d, off in CUSTOM:
        unit_of(n, True, 2)
        reg3.modify(n, s2)
    reg3_modified[0] = True
    for _name, members in cgroups:
        for m in members:
            unit_of(m, True, 1)
            unit_of(m, True, 3)

    model_lines = []
    model_expect = []
    for n, s, s2, d, off in CUSTOM:
        model_lines.append("\t".join(["c04.lutadd", n, str(core.f2b(s)), str(core.f2b(off)), gen.dim_vec(getattr(D, d)), "0"]))
        model_expect.append(("lutadd", None))

    # ------------------------------------------------------------------ 1. translator cross-check
    model_lines.append("c04.rules")
    model_expect.append(("rules", None))
    # the literal exclusion list of the table obligation must mirror the known findings one-to-one
    model_lines.append("c04.excluded")
    model_expect.append(("excluded", None))

    # ------------------------------------------------------------------ helpers for the programs
    def si_of(q):
        if hasattr(q, "units"):
            return np.asarray(q.d, dtype=float) * float(q.units.base_value)
        return np.asarray(q)

    def leaf_numbers(vals, g, sp, gs, custom):
        """the numbers of a leaf (reference spelling: member 0 of its group in definition 0) when it is written in
        spelling sp = (member, definition): same SI magnitude scale*(x - offset)"""
        k, d = sp
        u0 = unit_of(gs[g][1][0], custom, 0)
        uk = unit_of(gs[g][1][k], custom, d)
        s0, o0, sk, ok_ = float(u0.base_value), float(u0.base_offset), float(uk.base_value), float(uk.base_offset)
        if o0 == 0 and ok_ == 0:
            return vals * (s0 / sk), uk
        return (s0 * (vals - o0)) / sk + ok_, uk

    def spell_leaf(vals, g, sp, gs, custom):
        x, uk = leaf_numbers(vals, g, sp, gs, custom)
        return unyt_array(x.copy(), uk) if x.ndim else unyt_quantity(float(x), uk)

    def apply_node(desc, vals, custom):
        """execute one node on the library; vals = results of earlier nodes"""
        op, form, args, p = desc
        a = vals[args[0]]
        b = vals[args[1]] if len(args) > 1 else None
        if form == "call":
            if op == "dot":
                return a.dot(b)
            if op == "power":
                return np.power(a, p)
            f = getattr(np, op)
            return f(a, b) if b is not None else f(a)
        if form == "op":
            sym = OPERATORS[op]
            if op == "power":
                return a ** p
            return eval("a " + sym + " b", {"a": a, "b": b})  # noqa: S307 (fixed operator table)
        if form == "iop":
            c = a.copy()
            sym = OPERATORS[op]
            env = {"c": c, "b": b}
            exec("c " + sym + "= b", env)  # noqa: S102
            return env["c"]
        if form == "out":
            f = getattr(np, op)
            shape = np.broadcast_shapes(np.shape(a), np.shape(b)) if b is not None else np.shape(a)
            out = unyt_array(np.zeros(shape), "dimensionless", registry=reg) if custom else unyt_array(np.zeros(shape), "dimensionless")
            f(a, b, out=out) if b is not None else f(a, out=out)
            return out
        if form == "reduce0":
            return getattr(np, op).reduce(a)
        if form in ("reduce", "accumulate"):
            return getattr(getattr(np, op), form)(a, axis=0)
        if form == "outer":
            return getattr(np, op).outer(a, b)
        raise ValueError(form)

    def node_code(i, desc):
        op, form, args, p = desc
        a = f"v{args[0]}"
        b = f"v{args[1]}" if len(args) > 1 else None
        if form == "call":
            if op == "dot":
                return f"v{i} = {a}.dot({b})"
            if op == "power":
                return f"v{i} = np.power({a}, {p!r})"
            return f"v{i} = np.{op}({a}, {b})" if b else f"v{i} = np.{op}({a})"
        if form == "op":
            if op == "power":
                return f"v{i} = {a} ** {p!r}"
            return f"v{i} = {a} {OPERATORS[op]} {b}"
        if form == "iop":
            return f"v{i} = {a}.copy(); v{i} {OPERATORS[op]}= {b}"
        if form == "out":
            sh = f"np.broadcast_shapes(np.shape({a}), np.shape({b}))" if b else f"np.shape({a})"
            call = f"np.{op}({a}, {b}, out=v{i})" if b else f"np.{op}({a}, out=v{i})"
            return f"v{i} = Q(np.zeros({sh}), 'dimensionless'); {call}"
        if form == "reduce0":
            return f"v{i} = np.{op}.reduce({a})"
        if form in ("reduce", "accumulate"):
            return f"v{i} = np.{op}.{form}({a}, axis=0)"
        if form == "outer":
            return f"v{i} = np.{op}.outer({a}, {b})"
        raise ValueError(form)

    def ref_code(i, desc):
        op, form, args, p = desc
        a = f"r{args[0]}"
        b = f"r{args[1]}" if len(args) > 1 else None
        if op in ("dot", "vecdot"):
            return f"r{i} = {a} @ {b}"
        if op == "power":
            return f"r{i} = np.power({a}, {float(p)!r})"
        if form == "reduce0":
            return f"r{i} = np.{op}.reduce({a})"
        if form in ("reduce", "accumulate"):
            return f"r{i} = np.{op}.{form}({a}, axis=0)"
        if form == "outer":
            return f"r{i} = np.{op}.outer({a}, {b})"
        return f"r{i} = np.{op}({a}, {b})" if b else f"r{i} = np.{op}({a})"

    PRESERVE_LABEL = set(HOM1)

    def finish_program(P, gs, custom, nspell):
        """run program P on the library in `nspell` spellings of its leaves; compare every node with
        the reference.  Returns after the first failing node (later nodes are poisoned)."""
        nleaf = len(P.leaves)
        spellings = [[(0, 0)] * nleaf]
        for _ in range(nspell - 1):
            spellings.append([(rng.randrange(len(gs[g][1])), (rng.randrange(NDEF) if P.mixed else 0)) for _v, g in P.leaves])
        outcomes = []   # per spelling: list of ('ok', value) / ('exc', name)
        for sp in spellings:
            vals = []
            res = []
            dead = False
            for i, nd in enumerate(P.nodes):
                if nd.desc[0] == "leaf":
                    v = spell_leaf(P.leaves[i][0], P.leaves[i][1], sp[i], gs, custom)
                    vals.append(v)
                    res.append(("ok", v))
                    continue
                if dead or any(res[j][0] != "ok" for j in nd.desc[2]):
                    vals.append(None)
                    res.append(("skip", None))
                    continue
                try:
                    v = apply_node(nd.desc, vals, custom)
                    vals.append(v)
                    res.append(("ok", v))
                except Exception as e:  # noqa: BLE001
                    vals.append(None)
                    res.append(("exc", core.exc_name(e)))
            outcomes.append(res)
        # compare node by node, in order
        for i, nd in enumerate(P.nodes):
            if nd.desc[0] == "leaf":
                continue
            op, form = nd.desc[0], nd.desc[1]
            kop = op if form in ("call", "op", "iop", "out") else f"{op}.{form}"
            kinds = [o[i][0] for o in outcomes]
            if all(k == "skip" for k in kinds):
                continue
            chk.count(f"node:{op}:{form}")
            excs = [(s_idx, o[i][1]) for s_idx, o in enumerate(outcomes) if o[i][0] == "exc"]
            if any(e == "RecursionError" for _s, e in excs):
                # the out= fix-up `multiply(out, mul, out=out)` re-entering the dispatcher without end
                s_idx = [s_ for s_, e in excs if e == "RecursionError"][0]
                chk.fail(f"{kop}|recursion", f"{op} ({form}): RecursionError (in-place / out= result whose coefficient is not 1 on an array whose own unit simplifies to a coefficient)",
                         {"python": make_snippet(P, gs, custom, spellings[s_idx], i, "recursion"), "program": describe(P, gs, i),
                          "spelling": [(gs[g][1][k[0]], k[1]) for (_v, g), k in zip(P.leaves, spellings[s_idx])]})
                return
            if any(e == "SymbolNotFoundError" for _s, e in excs):
                # a unit of the custom registry that ended up attached to the default registry (arctan2 and the
                # comparison rules return the *default* registry's dimensionless unit) cannot be simplified
                s_idx = [s_ for s_, e in excs if e == "SymbolNotFoundError"][0]
                chk.fail("arith|registry-lost", f"{op} ({form}): SymbolNotFoundError — an operand's custom-registry unit is attached to the default registry",
                         {"python": make_snippet(P, gs, custom, spellings[s_idx], i, "registry-lost"), "program": describe(P, gs, i)})
                return
            if excs and len(excs) == len([k for k in kinds if k != "skip"]):
                chk.count(f"refused:{op}:{excs[0][1]}")
                # refused in every spelling: no result, nothing to compare — but the refusal of an
                # operation the property covers on commensurable operands is reported
                chk.fail(f"{kop}|refused|{excs[0][1]}", f"{op} ({form}) on commensurable zero-offset quantities raised {excs[0][1]} in every spelling",
                         {"python": make_snippet(P, gs, custom, spellings[0], i, "refused"), "program": describe(P, gs, i)})
                return
            bad = None
            for s_idx, o in enumerate(outcomes):
                k, v = o[i]
                if k == "skip":
                    continue
                if k == "exc":
                    bad = (s_idx, f"raise-asym|{v}", f"raised {v} in one spelling but not in another")
                    break
                why = compare_node(nd, v, P, o, any(k[1] != 0 for k in spellings[s_idx]))
                if why:
                    bad = (s_idx, why[0], why[1])
                    break
            if bad:
                s_idx, kind, msg = bad
                chk.fail(f"{kop}|{kind}", f"{op} ({form}): {msg}",
                         {"python": make_snippet(P, gs, custom, spellings[s_idx], i, kind), "program": describe(P, gs, i),
                          "spelling": [(gs[g][1][k[0]], k[1]) for (_v, g), k in zip(P.leaves, spellings[s_idx])]})
                return

    def tol_of(nd):
        return 16 * nd.err + 1e-300

    # symbols that are the pure number 1 (`dimensionless`, `counts`, `photons`, …): powers of them are
    # interchangeable labels of the same unit.  (`x**-1` and `x**-2` even collide in `hash` — hash(-1) == hash(-2) —
    # so the process-wide lru caches of the rule functions may hand back one for the other: a C12 matter.)
    _lut = gen.extract()["lut"]
    UNITY = {k for k, v in _lut.items() if core.b2f(v[0]) == 1.0 and core.b2f(v[1]) == 0.0 and all(x == "0" for x in v[2])}

    def label(fac):
        return {k: v for k, v in gen.parse_factors(fac).items() if k not in UNITY}

    def same_label(a, b):
        """the same unit with the same label (powers of the unity symbols aside)"""
        if not (a == b):
            return False
        if a.expr == b.expr:
            return True
        try:
            fa = {k_: v_ for k_, v_ in gen.unit_factors(a).items() if k_ not in UNITY}
            fb = {k_: v_ for k_, v_ in gen.unit_factors(b).items() if k_ not in UNITY}
            return fa == fb
        except ValueError:
            return False

    def compare_node(nd, v, P, outcome, mixed_sp=False):
        """None if the library's node result v agrees with the reference, else (kind, message)"""
        op = nd.desc[0]
        if nd.bare:
            if hasattr(v, "units") and not v.units.is_dimensionless:
                return ("dim", f"result carries unit {v.units} where a pure number is required")
            got = np.asarray(v.d if hasattr(v, "units") else v)
            if nd.ref.dtype == bool:
                if got.shape != nd.ref.shape or not np.array_equal(got.astype(bool), nd.ref):
                    return ("si", f"truth values {got.tolist()} differ from those of the SI magnitudes {nd.ref.tolist()}")
                return None
            got = got.astype(float) * (float(v.units.base_value) if hasattr(v, "units") else 1.0)
        else:
            if not hasattr(v, "units"):
                return ("dim", "result lost its unit")
            got = si_of(v)
        if got.shape != nd.ref.shape:
            return ("si", f"shape {got.shape} differs from {nd.ref.shape}")
        if not np.all(np.isfinite(nd.ref)):
            return None
        if not np.all(np.isfinite(got)):
            return ("si", "non-finite result where the mathematics on the SI magnitudes is finite")
        with np.errstate(all="ignore"):
            d = np.abs(got - nd.ref)
        if not np.all(d <= tol_of(nd)):
            j = int(np.argmax(d - tol_of(nd)))
            return ("si", f"SI magnitude {got.ravel()[j]!r} differs from the mathematics on the SI magnitudes {nd.ref.ravel()[j]!r} "
                          f"(allowed rounding {float(np.ravel(tol_of(nd))[j] if np.ndim(tol_of(nd)) else tol_of(nd)):.3g})")
        if not nd.bare and gen.dim_vec(v.units.dimensions) != dstr(nd.dim):
            return ("dim", f"dimension {v.units.dimensions} differs from dimensional analysis {dstr(nd.dim)}")
        if not nd.bare and op in PRESERVE_LABEL:
            left = outcome[nd.desc[2][0]][1]
            if hasattr(left, "units") and not same_label(v.units, left.units):
                return ("label", f"result unit {v.units} is not the left operand's unit {left.units}")
        if not nd.bare and not mixed_sp:
            # the label must denote the scale it carries (so that later operations may rely on either); with
            # operands from registries that define the same symbol differently a label has no single reading
            try:
                rb = Unit(v.units.expr, registry=(reg if P.pow2 else v.units.registry))
                if not (math.isclose(float(rb.base_value), float(v.units.base_value), rel_tol=1e-9) and rb.dimensions == v.units.dimensions):
                    return ("label-sync", f"unit label {v.units} denotes scale {float(rb.base_value)!r} but carries {float(v.units.base_value)!r}")
            except Exception as e:  # noqa: BLE001
                return ("label-sync", f"unit label {v.units} cannot be rebuilt: {core.exc_name(e)}")
        return None

    def describe(P, gs, upto):
        keep = P.ancestors(upto)
        out = []
        for i in keep:
            d = P.nodes[i].desc
            if d[0] == "leaf":
                out.append(f"v{i} = leaf {P.leaves[i][0].tolist()} [{gs[P.leaves[i][1]][1][0]}]")
            else:
                out.append(node_code(i, d))
        return out

    def make_snippet(P, gs, custom, spelling, upto, kind):
        keep = P.ancestors(upto)
        keys = [(gs[P.leaves[i][1]][1][spelling[i][0]], spelling[i][1]) for i in keep if P.nodes[i].desc[0] == "leaf"]
        lines = [snippet_header(custom, keys)]
        for i in keep:
            nd = P.nodes[i]
            d = nd.desc
            if d[0] == "leaf":
                vals, g = P.leaves[i]
                u0 = unit_of(gs[g][1][0], custom, 0)
                x, _uk = leaf_numbers(vals, g, spelling[i], gs, custom)
                lines.append(f"v{i} = Q({np.asarray(x).tolist()!r}, {gs[g][1][spelling[i][0]]!r}, {spelling[i][1]})")
                lines.append(f"r{i} = (np.array({vals.tolist()!r}, dtype=float) - {float(u0.base_offset)!r}) * {float(u0.base_value)!r}")
            else:
                lines.append(node_code(i, d))
                lines.append(ref_code(i, d))
        nd = P.nodes[upto]
        tol = tol_of(nd)
        tl = np.asarray(tol).tolist()
        if nd.bare:
            if nd.ref.dtype == bool:
                lines.append(f"assert not (hasattr(v{upto}, 'units') and not v{upto}.units.is_dimensionless), v{upto}")
                lines.append(f"assert np.array_equal(np.asarray(v{upto}).astype(bool), r{upto}), (v{upto}, r{upto})")
            else:
                lines.append(f"assert not (hasattr(v{upto}, 'units') and not v{upto}.units.is_dimensionless), v{upto}")
                lines.append(f"assert np.all(np.abs(SI(v{upto}) - r{upto}) <= np.array({tl!r})), (v{upto}, r{upto})")
        else:
            lines.append(f"assert hasattr(v{upto}, 'units'), v{upto}")
            lines.append(f"import sys; sys.path.insert(0, {os.path.join(core.VERIF, 'harness')!r}); import gen")
            lines.append(f"assert np.all(np.abs(SI(v{upto}) - r{upto}) <= np.array({tl!r})), (v{upto}, SI(v{upto}), r{upto})")
            lines.append(f"assert gen.dim_vec(v{upto}.units.dimensions) == {dstr(nd.dim)!r}, v{upto}.units.dimensions")
            if nd.desc[0] in PRESERVE_LABEL:
                a0 = nd.desc[2][0]
                lines.append(f"assert v{upto}.units == v{a0}.units and v{upto}.units.expr == v{a0}.units.expr, (v{upto}.units, v{a0}.units)")
            if all(k[1] == 0 for k in spelling):
                lines.append(f"_rb = Unit(v{upto}.units.expr, registry=(reg if reg is not None else v{upto}.units.registry))")
                lines.append(f"assert abs(float(_rb.base_value) / float(v{upto}.units.base_value) - 1) < 1e-9 and _rb.dimensions == v{upto}.units.dimensions, (v{upto}.units, _rb.base_value)")
        return "\n".join(lines) + "\n"

    # ------------------------------------------------------------------ program generation
    def init_leaves(P, gs, custom):
        for i, (vals, g) in enumerate(P.leaves):
            u0 = unit_of(gs[g][1][0], custom, 0)
            ref = (vals - float(u0.base_offset)) * float(u0.base_value)
            nd = P.nodes[i]
            nd.ref = ref
            if nd.affine:
                # x*s - s*o is rounded relative to |s*o| as well
                mag = max(abs(float(unit_of(m, custom, d_).base_value) * float(unit_of(m, custom, d_).base_offset))
                          for m in gs[g][1] for d_ in (range(NDEF) if custom else (0,)))
                nd.err = 16 * EPS * (np.abs(ref) + mag)
                nd.exact = False
            else:
                nd.err = np.zeros(ref.shape) if P.pow2 else 4 * EPS * np.abs(ref)
                nd.exact = True

    def grow(P, gs, custom, max_depth, max_nodes, force=None):
        """append nodes; `force` = (opname) makes the first added node that operation if applicable"""
        tries = 0
        while len(P.nodes) < max_nodes and tries < 60:
            tries += 1
            allq = [i for i, n in enumerate(P.nodes) if not n.bare and n.depth < max_depth]
            qty = [i for i in allq if not P.nodes[i].affine]   # points on an affine scale feed only sin/cos/tan
            if not allq:
                break
            kind = rng.random()
            want = force if (force and len(P.nodes) == len(P.leaves)) else None
            if want is not None:
                cls = "binary" if want in BINARY else ("unary" if want in UNARY else "reduce")
            else:
                cls = "binary" if kind < 0.6 else ("unary" if kind < 0.85 else "reduce")
            if cls != "unary" and not qty:
                continue
            if cls == "binary":
                op = want or rng.choice(BINARY)
                a = rng.choice(qty)
                cands = [j for j in qty if (P.nodes[j].dim == P.nodes[a].dim) or op in ("multiply", "divide", "copysign", "matmul", "dot", "vecdot")]
                if not cands:
                    continue
                b = rng.choice(cands)
                try:
                    r = try_binary(op, P.nodes[a], P.nodes[b], P.pow2)
                except ValueError:  # shapes that do not broadcast
                    continue
                if r is None or not np.all(np.isfinite(np.asarray(r[0], dtype=float))):
                    continue
                if np.any(np.abs(np.asarray(r[0], dtype=float)) > 1e150):
                    continue
                forms = ["call"]
                if op in OPERATORS:
                    forms.append("op")
                shp = np.asarray(r[0]).shape
                if op in INPLACE and shp == P.nodes[a].ref.shape:
                    forms.append("iop")
                if op not in ("dot", "matmul", "vecdot") and op not in CMP:
                    forms.append("out")
                if op == "dot":
                    forms = ["call"]
                form = rng.choice(forms)
                P.nodes.append(Node(r[0], r[1], r[2], r[3], max(P.nodes[a].depth, P.nodes[b].depth) + 1, (op, form, [a, b], None), r[4]))
            elif cls == "unary":
                op = want or rng.choice(UNARY)
                pool_ = allq if op in ("sin", "cos", "tan") else qty
                if op in ("sin", "cos", "tan"):
                    angs = [i for i in pool_ if P.nodes[i].dim == ANGLE]
                    pool_ = angs or pool_
                if not pool_:
                    continue
                a = rng.choice(pool_)
                p = None
                if P.pow2 and op in ("sqrt", "cbrt"):
                    # a root gives the unit a scale that is a power of two only up to rounding; through the
                    # process-wide lru caches of the unit rules (keyed by Unit.__eq__, i.e. isclose) such a
                    # unit object can later stand in for the exact one, which would spoil bit-exactness
                    continue
                if op == "power":
                    p = rng.choice([2, 3, -1, -2, 1] if P.pow2 else [2, 3, -1, -2, 0.5, 1.5, 1])
                r = try_unary(op, P.nodes[a], P.pow2, p)
                if r is None or not np.all(np.isfinite(np.asarray(r[0], dtype=float))):
                    continue
                if np.any(np.abs(np.asarray(r[0], dtype=float)) > 1e150):
                    continue
                forms = ["call"] + (["op"] if op == "power" else []) + (["out"] if op not in ("power", "sign", "sin", "cos", "tan") else [])
                P.nodes.append(Node(r[0], r[1], r[2], r[3], P.nodes[a].depth + 1, (op, rng.choice(forms), [a], p), r[4]))
            else:
                uf, method = rng.choice(REDUCE) if want is None else want
                a = rng.choice(qty)
                b = None
                if method == "outer":
                    b = rng.choice(qty)
                try:
                    r = try_reduce(uf, method, P.nodes[a], P.nodes[b] if b is not None else None, P.pow2)
                except ValueError:
                    continue
                if r is None or not np.all(np.isfinite(np.asarray(r[0], dtype=float))):
                    continue
                if np.any(np.abs(np.asarray(r[0], dtype=float)) > 1e150):
                    continue
                args = [a] if b is None else [a, b]
                P.nodes.append(Node(r[0], r[1], r[2], r[3], max(P.nodes[j].depth for j in args) + 1, (uf, method, args, None), r[4]))

    # ------------------------------------------------------------------ 2. programs: direct oracle
    nprog = 2000 if tier == "quick" else 24000
    max_depth = 4 if tier == "quick" else 6
    sys_ops = list(BINARY) + list(UNARY) + list(REDUCE)
    plan = []
    # systematic part: every operation forced as the first node, in both registries, several times
    reps = 3 if tier == "quick" else 12
    for op in sys_ops:
        for r_ in range(reps):
            plan.append((op, r_ % 2 == 1))
    for k in range(nprog):
        plan.append((None, k % 2 == 1))
    dag_nodes_for_model = []
    for force, custom in plan:
        gs = cgroups if custom else groups
        P = gen_program(rng, gs, lambda s: unit_of(s, custom), custom, max_depth, 0, force if isinstance(force, str) else None)
        P.mixed = custom and rng.random() < 0.5
        init_leaves(P, gs, custom)
        before = len(P.nodes)
        grow(P, gs, custom, max_depth, before + (rng.randint(1, 3) if force else rng.randint(3, 9 if tier == "quick" else 14)), force)
        if len(P.nodes) == before:
            chk.count("program-empty")
            continue
        chk.case(("prog", tuple(n.desc[0] + ":" + n.desc[1] for n in P.nodes[before:]), custom),
                 {"registry": "pow2-custom" if custom else "default", "program": describe(P, gs, len(P.nodes) - 1)} if len(chk.samples) < 6 else None)
        chk.count("programs:" + (("pow2-mixed-definitions" if P.mixed else "pow2") if custom else "default"))
        chk.count(f"depth:{max(n.depth for n in P.nodes)}")
        nfail = len(chk.failures)
        finish_program(P, gs, custom, 3)
        if len(chk.failures) == nfail and not any(n.affine for n in P.nodes) and len(dag_nodes_for_model) < (1500 if tier == "quick" else 8000):
            dag_nodes_for_model.append((P, gs, custom))

    # ------------------------------------------------------------------ 3. model vs library
    def wire_unit(u):
        return gen.unit_wire_fields(u)

    def lib_binary(name, q0, q1, p=None):
        try:
            if name == "power":
                r = np.power(q0, p)
            else:
                r = by_name[name](q0, q1)
            return ("ok", r)
        except Exception as e:  # noqa: BLE001
            return ("err", core.exc_name(e))

    def add_binary_case(name, q0, q1, p=None, tag=""):
        """one c04.binary line for scalar quantities q0, q1 (q1 may be a bare float)"""
        try:
            f0 = ["q"] + wire_unit(q0.units) + ["0"]
            if hasattr(q1, "units"):
                f1 = ["q"] + wire_unit(q1.units) + ["0"]
                x1 = float(q1.d)
            else:
                f1 = ["b", "-", "-", "-", "-", "-", "1" if q1 == 0 else "0"]
                x1 = float(q1)
        except ValueError:
            chk.count("model-wire-skip")
            return
        if name == "power":
            import sympy as _s
            pe = gen.rat_str(_s.Rational(str(p)).limit_denominator())
        else:
            pe = "-"
        model_lines.append("\t".join(["c04.binary", name] + f0 + f1 + [pe, str(core.f2b(float(q0.d))), str(core.f2b(x1))]))
        model_expect.append(("binary", (name, q0, q1, p, lib_binary(name, q0, q1, p), tag)))

    # every ufunc of the table with two inputs × unit pairs
    pool = []
    for name, members in groups:
        if "affine" in name:
            continue
        for m in rng.sample(members, min(len(members), 3)):
            pool.append((m, False))
    for name, members in cgroups:
        if "affine" in name:
            continue
        for m in rng.sample(members, min(len(members), 2)):
            pool.append((m, True))
    binary_names = [n for n in X.get("ufuncRules", {}) if n in X.get("binary", []) or n in ("floor_divide", "matmul")]
    npairs = 6 if tier == "quick" else 30
    for name in binary_names:
        if name in ("matmul", "vecdot", "divmod", "clip"):
            continue
        for _ in range(npairs):
            (s0, c0) = rng.choice(pool)
            same = rng.random() < 0.6
            if same:
                gs = cgroups if c0 else groups
                g = next(gm for gm in gs if s0 in gm[1])
                s1, c1 = rng.choice(g[1]), c0
            else:
                s1, c1 = rng.choice([p_ for p_ in pool if p_[1] == c0])
            x0, x1 = float(leaf_values(rng, (), c0)), float(leaf_values(rng, (), c0))
            q0 = unyt_quantity(x0, unit_of(s0, c0))
            if name == "power":
                add_binary_case(name, q0, 0.0, rng.choice([2, 3, -1, 0.5, 1.5, -2]))
                continue
            if name in ("ldexp", "left_shift", "right_shift", "bitwise_and", "bitwise_or", "bitwise_xor"):
                q1 = unyt_quantity(float(int(abs(x1)) % 5 + 1), unit_of(s1, c1))
            else:
                q1 = unyt_quantity(x1, unit_of(s1, c1))
            add_binary_case(name, q0, q1)
            chk.case(("model-binary", name, s0, s1))
    # the same spelling with different definitions (two registries / before and after modify): whether the second
    # operand is rescaled must follow what the units are, not how they are written
    conv_ufuncs = [n for n in binary_names if X.get("ufuncRules", {}).get(n) in X.get("convRules", [])]
    cmembers = [m for name, members in cgroups if "affine" not in name for m in members]
    for name in conv_ufuncs:
        for _ in range(4 if tier == "quick" else 16):
            m = rng.choice(cmembers)
            d0, d1 = rng.sample(range(NDEF), 2)
            q0 = unyt_quantity(float(leaf_values(rng, (), True)), unit_of(m, True, d0))
            q1 = unyt_quantity(float(leaf_values(rng, (), True)), unit_of(m, True, d1))
            add_binary_case(name, q0, q1, tag=f"same-spelling def{d0}/def{d1}")
            chk.case(("model-same-spelling", name, m, d0, d1))
            chk.count("model-same-spelling")

    # floor division refuses what true division refuses (offset scales, logarithmic units)
    for a_, b_ in [("degC", "degC"), ("mdegC", "mK"), ("degF", "degF"), ("degC", "K"), ("K", "degC"), ("dB", "dB"), ("Np", "dB"),
                   ("K", "R"), ("delta_degC", "K"), ("lat", "degree")]:
        try:
            q0, q1 = unyt_quantity(7.0, a_), unyt_quantity(2.0, b_)
        except Exception:  # noqa: BLE001
            continue
        for nm in ("floor_divide", "divide"):
            add_binary_case(nm, q0, q1, tag="refusal")
            chk.case(("model-refusal", nm, a_, b_))

    # nested units from the programs
    for P, gs, custom in dag_nodes_for_model:
        # re-run on the reference spelling to get the operand quantities
        vals = []
        for i, nd in enumerate(P.nodes):
            try:
                if nd.desc[0] == "leaf":
                    vals.append(spell_leaf(P.leaves[i][0], P.leaves[i][1], (0, 0), gs, custom))
                else:
                    vals.append(apply_node(nd.desc, vals, custom))
            except Exception:  # noqa: BLE001
                vals.append(None)
                continue
            op, form, args, p = nd.desc
            if form == "call" and len(args) == 2 and op in by_name and all(vals[j] is not None for j in args):
                a, b = vals[args[0]], vals[args[1]]
                if hasattr(a, "units") and hasattr(b, "units") and op not in ("matmul", "divmod", "vecdot"):
                    qa = unyt_quantity(float(np.ravel(a.d)[0]), a.units)
                    qb = unyt_quantity(float(np.ravel(b.d)[0]), b.units)
                    add_binary_case(op, qa, qb, tag="nested")
                    chk.count("model-nested")

    # whole programs through the model's evaluator (Prog.evalModel — the function program_covariant is about)
    PB = {"add", "subtract", "multiply", "divide", "maximum", "fmax", "minimum", "fmin", "hypot", "remainder", "arctan2",
          "copysign", "floor_divide"}
    PU = {"negative", "absolute", "fabs", "positive", "conjugate", "sqrt", "cbrt", "square", "reciprocal"}

    def covered(nd):
        op, form, args, p = nd.desc
        if op == "leaf":
            return True
        if form in ("reduce", "reduce0", "accumulate", "outer"):
            return False
        return (op in PB and len(args) == 2) or (op in PU and len(args) == 1) or op == "power"

    nprog_model = 0
    for P, gs, custom in dag_nodes_for_model:
        if nprog_model >= (400 if tier == "quick" else 3000):
            break
        vals = []
        for i, nd in enumerate(P.nodes):
            try:
                if nd.desc[0] == "leaf":
                    vals.append(spell_leaf(P.leaves[i][0], P.leaves[i][1], (rng.randrange(len(gs[P.leaves[i][1]][1])), 0), gs, custom))
                else:
                    vals.append(apply_node(nd.desc, vals, custom))
            except Exception:  # noqa: BLE001
                vals.append(None)
        best = None
        for i in range(len(P.nodes) - 1, len(P.leaves) - 1, -1):
            anc = P.ancestors(i)
            if all(covered(P.nodes[j]) and vals[j] is not None for j in anc) and hasattr(vals[i], "units"):
                best = i
                break
        if best is None:
            continue
        anc = P.ancestors(best)
        leaf_ids = [j for j in anc if P.nodes[j].desc[0] == "leaf"]
        toks = []

        def emit(j, P=P, leaf_ids=leaf_ids, toks=toks):
            op, form, args, p = P.nodes[j].desc
            if op == "leaf":
                toks.append(f"L{leaf_ids.index(j)}")
                return
            for a_ in args:
                emit(a_)
            if op == "power":
                import sympy as _s
                toks.append("P:" + gen.rat_str(_s.Rational(str(p)).limit_denominator()))
            elif len(args) == 2:
                toks.append("B:" + op)
            else:
                toks.append("U:" + op)

        emit(best)
        try:
            fields = []
            for j in leaf_ids:
                fields += wire_unit(vals[j].units) + [str(core.f2b(float(np.ravel(vals[j].d)[0])))]
        except ValueError:
            continue
        model_lines.append("\t".join(["c04.prog", str(len(leaf_ids))] + fields + toks))
        model_expect.append(("prog", (describe(P, gs, best), vals[best], float(np.ravel(np.asarray(16 * P.nodes[best].err + 1e-300))[0]))))
        nprog_model += 1
        chk.count("model-program")

    # the out= fix-up: does `x *= q` terminate?
    for us in ["km/m", "percent**2", "J/erg", "km", "m*s", "dimensionless", "km*s/m", "N*m/J", "kHz*ms", "cm*km", "hr/min"]:
        for qs in [None, "m", "1/km", "s", "cm/m"]:
            try:
                U = Unit(us)
                qu = Unit(qs) if qs else Unit()
                lib_mul = float(registry[np.multiply](U, qu)[0])
            except Exception:  # noqa: BLE001
                continue
            xq = unyt_array([1.0, 2.0], U)
            try:
                if qs:
                    xq *= unyt_quantity(2.0, qu)
                else:
                    xq *= 2.0
                lib = "fixed"
            except RecursionError:
                lib = "recursion"
            except Exception as e:  # noqa: BLE001
                lib = core.exc_name(e)
            model_lines.append("\t".join(["c04.outfix"] + wire_unit(U) + [str(core.f2b(lib_mul))]))
            model_expect.append(("outfix", (us, qs, lib_mul, lib)))
            chk.case(("model-outfix", us, qs))

    # unary / reductions / dot / pow
    # (isnat: NumPy's kernel itself rejects floats, before any unit logic matters)
    unary_names = [n for n in X.get("ufuncRules", {}) if n in X.get("unary", []) and n != "isnat"]
    for name in unary_names + ["add", "multiply", "divide", "maximum", "subtract", "logical_and", "hypot"]:
        methods = ["__call__"] if name in unary_names else ["reduce", "accumulate"]
        for method in methods:
            for _ in range(3 if tier == "quick" else 10):
                s0, c0 = rng.choice(pool)
                u = unit_of(s0, c0)
                n = rng.randint(1, 4)
                vals = np.abs(leaf_values(rng, (n,), c0)) + 0.5
                q = unyt_array(vals, u)
                try:
                    if method == "__call__":
                        r = ("ok", by_name[name](q))
                    else:
                        r = ("ok", getattr(by_name[name], method)(q))
                except Exception as e:  # noqa: BLE001
                    r = ("err", core.exc_name(e))
                try:
                    fu = wire_unit(u)
                except ValueError:
                    continue
                model_lines.append("\t".join(["c04.unary", name, method, str(n)] + fu + [str(core.f2b(float(vals[0])))]))
                model_expect.append(("unary", (name, method, q, r)))
                chk.case(("model-unary", name, method, s0))
    # trig of angles
    angle_units = [(k, False, 0) for k, v in gen.extract()["lut"].items() if v[2] == ["0", "0", "0", "0", "1", "0", "0", "0"]]
    angle_units += [("mrad", False, 0), ("degree/2", False, 0)]
    angle_units += [(n, True, d_) for n, _s, _s2, dd, _o in CUSTOM if dd == "angle" for d_ in range(NDEF)]
    for s0, c0, d0 in angle_units:
        for name in ("sin", "cos", "tan"):
            try:
                u = unit_of(s0, c0, d0)
            except Exception:  # noqa: BLE001
                continue
            # an angle of 0.1 .. 1.2 rad, written in the unit: x = rad / scale + offset
            q = unyt_array(np.array([rng.uniform(0.1, 1.2) / float(u.base_value) + float(u.base_offset)]), u)
            try:
                r = ("ok", by_name[name](q))
            except Exception as e:  # noqa: BLE001
                r = ("err", core.exc_name(e))
            model_lines.append("\t".join(["c04.unary", name, "__call__", "1"] + wire_unit(u) + [str(core.f2b(float(q.d[0])))]))
            model_expect.append(("unary", (name, "__call__", q, r)))
            chk.case(("model-trig", name, s0))
    # _cancel_mul on compound expressions (default registry)
    for _ in range(150 if tier == "quick" else 1500):
        parts = []
        for _k in range(rng.randint(2, 4)):
            name, members = rng.choice(groups)
            m = rng.choice(members)
            if "*" in m:
                continue
            e = rng.choice([1, 1, -1, -1, 2, -2, 3, Fraction(1, 2), Fraction(3, 2), Fraction(-1, 2)])
            parts.append(f"({m})**({e})")
        if len(parts) < 2:
            continue
        s = "*".join(parts)
        try:
            u = Unit(s)
            c, fac = gen.expr_wire(u.expr)
            from unyt.unit_object import _cancel_mul
            lib = ("ok", _cancel_mul(u.expr, u.registry))
        except ValueError:
            continue
        except Exception as e:  # noqa: BLE001
            lib = ("err", core.exc_name(e))
            c, fac = None, None
        if c is None:
            continue
        model_lines.append("\t".join(["c04.cancel", str(c), fac]))
        model_expect.append(("cancel", (s, lib)))
        chk.case(("model-cancel", s))

    # ------------------------------------------------------------------ 3b. aliased calls (buffer discipline)
    # The caller's arrays may share storage: `out=` a view of the first operand (or the operand itself: the in-place
    # operators), `out=` the second operand, both operands views of one buffer written in different units, all three
    # the same.  NumPy defines a ufunc call to behave as if there were no overlap, and the property quantifies over
    # in-place / out= forms.  DIRECT ORACLE (never consults the model): the aliased call must return, and leave in
    # `out`, what the same call on private copies returns, and must not change an operand that is not the out array.
    # CORRESPONDENCE: the regenerated statement list run by the model at Float (`c04.bufrun`, the definitions
    # `buffer_program_refines_value` is about) against the caller cells after the call.
    alias_ops = [n for n in binary_names if X.get("ufuncRules", {}).get(n) in
                 ("_preserve_units", "_difference_units", "_arctan2_unit", "_floor_divide_units", "_multiply_units", "_divide_units")
                 and n not in ("matmul", "vecdot", "divmod", "clip", "heaviside", "ldexp")]
    # placement of (first operand, second operand, out) in the caller's three cells; `same` = out IS that operand object
    PLACEMENTS = [(0, 1, 2, None), (0, 1, 0, None), (0, 1, 0, "x"), (0, 1, 1, None), (0, 1, 1, "y"),
                  (0, 0, 2, None), (0, 0, 0, None), (0, 0, 0, "x"), (0, 0, 0, "y"), (0, 1, None, None)]
    plain_groups = [(n_, m_) for n_, m_ in groups if "affine" not in n_ and len(m_) >= 2]

    def alias_snippet(name, us0, us1, cellvals, pl):
        l0, l1, lo, same = pl
        return ("import numpy as np, unyt\nfrom unyt import unyt_array, Unit\nnp.seterr(all='ignore')\n"
                f"vals = {[list(map(float, c)) for c in cellvals]!r}\n"
                "def mk(cells, i, u):\n    a = cells[i].view(unyt_array); a.units = Unit(u); return a\n"
                "ref_cells = [np.array(v) for v in vals]; cells = [np.array(v) for v in vals]\n"
                f"ref = np.{name}(mk(ref_cells, {l0}, {us0!r}).copy(), mk(ref_cells, {l1}, {us1!r}).copy())\n"
                f"x = mk(cells, {l0}, {us0!r}); y = mk(cells, {l1}, {us1!r})\n"
                + (f"o = {same}\n" if same else (f"o = mk(cells, {lo}, 'dimensionless')\n" if lo is not None else "o = None\n"))
                + (f"r = np.{name}(x, y, out=o)\n" if lo is not None else f"r = np.{name}(x, y)\n")
                + "def same(a, b):\n    return a.units == b.units and np.allclose(np.asarray(a.d), np.asarray(b.d), rtol=1e-12, atol=0, equal_nan=True)\n"
                "assert same(r, ref), ('returned', r, 'expected', ref)\n"
                + (f"assert same(o, ref), ('out holds', o, 'expected', ref)\n" if lo is not None else "")
                + "".join(f"assert np.array_equal(cells[{i}], np.array(vals[{i}])), ('operand cell {i} changed', cells[{i}], vals[{i}])\n"
                          for i in range(3) if i != lo))

    def alias_case(name, us0, us1, pl):
        l0, l1, lo, same = pl
        u0, u1 = Unit(us0), Unit(us1)
        cellvals = [np.array([rng.uniform(1.0, 9.0) * 10.0 ** rng.randint(-1, 1) for _ in range(3)]) for _ in range(3)]
        cells = [c.copy() for c in cellvals]

        def mk(cs, i, u):
            a = cs[i].view(unyt_array)
            a.units = u
            return a
        f = by_name[name]
        try:
            ref = f(mk(cellvals, l0, u0).copy(), mk(cellvals, l1, u1).copy())
        except Exception:  # noqa: BLE001 (a refused pair: nothing to compare)
            return
        if isinstance(ref, tuple) or not hasattr(ref, "units") or np.asarray(ref).dtype.kind != "f":
            return
        x, y = mk(cells, l0, u0), mk(cells, l1, u1)
        o = x if same == "x" else (y if same == "y" else (mk(cells, lo, Unit("dimensionless")) if lo is not None else None))
        pname = f"x{l0}y{l1}o{'-' if lo is None else lo}{same or ''}"
        chk.case(("alias", name, us0, us1, pname))
        chk.count("alias:" + pname)
        repl = {"python": alias_snippet(name, us0, us1, cellvals, pl), "call": f"np.{name}(<{us0}> in cell {l0}, <{us1}> in cell {l1}, out=cell {lo} {same or 'view'})"}
        try:
            r = f(x, y, out=o) if lo is not None else f(x, y)
        except Exception as e:  # noqa: BLE001
            chk.fail(f"{name}.alias|refused|{core.exc_name(e)}", f"{name}: call with shared storage ({pname}) raised {core.exc_name(e)} where the call on copies returns", repl)
            return

        def same_q(a, b):
            return a.units == b.units and np.allclose(np.asarray(a.d), np.asarray(b.d), rtol=1e-12, atol=0, equal_nan=True)
        if not same_q(r, ref) or (lo is not None and not same_q(o, ref)):
            chk.fail(f"{name}.alias|si", f"{name}: with shared storage ({pname}: first operand in cell {l0}, second in cell {l1}, out in cell {lo}) "
                     f"the call gives {r!r} (out: {o!r}), on private copies {ref!r}", repl)
            return
        for i in range(3):
            if i != lo and not np.array_equal(cells[i], cellvals[i]):
                chk.fail(f"{name}.alias|clobber", f"{name}: the call ({pname}) changed an operand that is not its out array: cell {i} {cellvals[i]} -> {cells[i]}", repl)
                return
        # the model on element 0 of every cell (for the kernels the driver evaluates itself)
        if name not in ("add", "subtract", "multiply", "divide", "maximum", "fmax", "minimum", "fmin", "hypot", "floor_divide", "remainder", "arctan2"):
            return
        if name in ("floor_divide", "remainder") and l0 == l1:
            # x // x-in-another-unit sits exactly on a jump of the floor: one ulp in the conversion factor decides
            return
        try:
            f0 = ["q"] + wire_unit(u0) + ["0"]
            f1 = ["q"] + wire_unit(u1) + ["0"]
        except ValueError:
            return
        model_lines.append("\t".join(["c04.bufrun", name] + f0 + f1 + ["1" if lo is not None else "0", str(l0), str(l1), str(lo if lo is not None else 2)]
                                     + [str(core.f2b(float(c[0]))) for c in cellvals]))
        model_expect.append(("bufrun", (name, us0, us1, pname, lo, float(np.ravel(r.d)[0]), [float(c[0]) for c in cells])))

    for name in alias_ops:
        for _ in range(2 if tier == "quick" else 8):
            gname, members = rng.choice(plain_groups)
            us0, us1 = rng.sample(members, 2)
            if rng.random() < 0.15:
                us1 = us0
            for pl in PLACEMENTS:
                alias_case(name, us0, us1, pl)
    model_lines.append("c04.bufcheck")
    model_expect.append(("bufcheck", None))

    # ------------------------------------------------------------------ ask the model, compare
    try:
        replies = core.Model("drv_c04").ask(model_lines)
    except Exception as e:  # noqa: BLE001
        replies = []
        chk.disagree("driver", repr(e))

    def unit_matches(rep, u, at=1):
        """rep[at:at+6] = has, scale, offset, dim, coeff, factors  vs  real unit u (or None)"""
        if u is None:
            return rep[at] == "0"
        if rep[at] != "1":
            return False
        try:
            want = gen.unit_wire_fields(u)
        except ValueError:
            return True
        return (core.close(core.b2f(rep[at + 1]), float(u.base_value), 1e-9) and rep[at + 3] == want[2]
                and label(rep[at + 5]) == label(want[4])
                and core.close(core.b2f(rep[at + 4]), core.b2f(want[3]), 1e-9))

    try:
        import json as _json
        XB = _json.load(open(os.path.join(core.BUILD, "extract_c04_buffers.json"), encoding="utf-8"))
    except Exception as e:  # noqa: BLE001
        XB = {}
        chk.disagree("translator", f"extract_c04_buffers.json unreadable: {e!r}")

    def kernel_known(name):
        return True

    def vclose(a, b, scale):
        if math.isnan(a) and math.isnan(b):
            return True
        if math.isinf(a) or math.isinf(b):
            return a == b
        return abs(a - b) <= 1e-9 * max(abs(a), abs(b), scale)

    for rep, (kind, info) in zip(replies, model_expect):
        chk.count("model:" + kind)
        if kind == "lutadd":
            if rep[0] != "ok":
                chk.disagree("c04.lutadd", str(rep))
        elif kind == "excluded":
            excl = set(x for x in (rep[1].split(",") if rep[0] == "ok" and len(rep) > 1 and rep[1] else []))
            known_now = [k for k in core.load_known() if k["property"] == "C04" and k.get("status") == "known"]
            # findings about a ufunc's *rule* are keyed `<ufunc>|si` / `<ufunc>|dim` with <ufunc> a registry name
            known_ufuncs = set(k["key"].split("|")[0] for k in known_now if k["key"].split("|")[0] in X.get("ufuncRules", {}))
            if excl != known_ufuncs:
                chk.disagree("c04.excluded", f"exclusion list of rule_matches_class_partial {sorted(excl)} does not mirror the known findings "
                                             f"about ufunc rules {sorted(known_ufuncs)}")
        elif kind == "rules":
            if rep[0] != "ok":
                chk.disagree("c04.rules", str(rep))
                continue
            got = dict(kv.split("=") for kv in rep[1].split(";"))
            live = {k.__name__: v.__name__ for k, v in registry.items()}
            import unyt.array as ua
            if got != live:
                diff = {k: (got.get(k), live.get(k)) for k in set(got) | set(live) if got.get(k) != live.get(k)}
                chk.disagree("c04.rules", f"regenerated rule table differs from the live registry: {diff}")
            if rep[5].split(",") != [f.__name__ for f in ua.trigonometric_operators]:
                chk.disagree("c04.rules", "trigonometric_operators differ")
        elif kind == "cancel":
            s, lib = info
            if lib[0] == "err":
                if rep[0] != "err" or rep[1] != lib[1]:
                    chk.disagree("c04.cancel", f"{s}: model {rep} implementation raised {lib[1]}")
                continue
            if rep[0] != "ok":
                chk.disagree("c04.cancel", f"{s}: model {rep} implementation {lib[1]}")
                continue
            try:
                c, fac = gen.expr_wire(lib[1])
            except ValueError:
                continue
            if not (core.close(core.b2f(rep[1]), core.b2f(c), 1e-9) and gen.parse_factors(rep[2]) == gen.parse_factors(fac)):
                chk.disagree("c04.cancel", f"{s}: model ({core.b2f(rep[1])}, {rep[2]}) implementation {lib[1]}")
        elif kind == "binary":
            name, q0, q1, p, lib, tag = info
            what = f"{name}({q0!r}, {q1!r}{', p=' + repr(p) if p is not None else ''}) {tag}"
            if lib[0] == "err":
                if rep[0] != "err" or rep[1] != lib[1]:
                    chk.disagree("c04.binary", f"{what}: model {rep[:2]} implementation raised {lib[1]}")
                continue
            if rep[0] != "ok":
                chk.disagree("c04.binary", f"{what}: model {rep[:2]} implementation returned {lib[1]!r}")
                continue
            r = lib[1]
            if isinstance(r, tuple):
                continue
            ru = getattr(r, "units", None)
            early = rep[10]
            if early != "-":
                if bool(np.asarray(r)) != (early == "1"):
                    chk.disagree("c04.binary", f"{what}: early return {early} vs {r!r}")
                continue
            if not unit_matches(rep, ru):
                chk.disagree("c04.binary", f"{what}: model unit {rep[1:7]} implementation unit {ru!r} (scale {getattr(ru, 'base_value', None)})")
                continue
            conv, mul, post = core.b2f(rep[7]), core.b2f(rep[8]), core.b2f(rep[9])
            x0 = float(q0.d)
            x1 = float(q1.d) if hasattr(q1, "units") else float(q1)
            if rep[11] != "-":
                mv = core.b2f(rep[11])
            else:
                with np.errstate(all="ignore"):
                    try:
                        mv = float(mul * (float(getattr(np, name)(x0, x1 * conv)) * post))
                    except Exception:  # noqa: BLE001
                        continue
            lv = float(np.asarray(r.d if hasattr(r, "units") else r))
            if not vclose(mv, lv, abs(x0) + abs(x1 * conv) if name in ("add", "subtract", "remainder", "fmod", "nextafter") else 0.0):
                chk.disagree("c04.binary", f"{what}: model value {mv!r} (conv {conv!r}, mul {mul!r}, post {post!r}) implementation {lv!r}")
        elif kind == "outfix":
            us, qs, lib_mul, lib = info
            got = rep[1] if rep[0] == "ok" else rep[1]
            if got != lib:
                chk.disagree("c04.outfix", f"x[{us}] *= 2 {qs or ''} (coefficient {lib_mul}): model {rep[:2]} implementation {lib}")
        elif kind == "bufcheck":
            if rep[0] != "ok" or rep[1] != "true":
                chk.disagree("c04.bufcheck", "the statement list regenerated from the two-input branch of __array_ufunc__ does not meet the buffer contract "
                             "(theorem buffer_program_checked); first failing (conv, tdelta, post, hasOut, mulNe1, free0, free1, cell of first operand, "
                             f"of second operand, of out): {rep[3:]}; statements: {XB.get('stmts')}")
        elif kind == "bufrun":
            name, us0, us1, pname, lo, lret, lcells = info
            what = f"np.{name}(<{us0}>, <{us1}>) placement {pname}"
            if rep[0] != "ok" or rep[1] != "false":
                chk.disagree("c04.bufrun", f"{what}: model {rep[:2]} implementation returned {lret!r}")
                continue
            mret = core.b2f(rep[2]) if rep[2] != "-" else float("nan")
            mcells = [core.b2f(c) if c != "-" else float("nan") for c in rep[3:6]]
            sc = max(abs(v) for v in lcells) if name in ("add", "subtract", "remainder", "fmod", "nextafter") else 0.0
            if kernel_known(name) and not vclose(mret, lret, sc):
                chk.disagree("c04.bufrun", f"{what}: model returns {mret!r}, implementation {lret!r}")
            for i in range(3):
                if (i == lo and not kernel_known(name)):
                    continue
                if not vclose(mcells[i], lcells[i], sc if i == lo else 0.0):
                    chk.disagree("c04.bufrun", f"{what}: caller cell {i} after the call: model {mcells[i]!r}, implementation {lcells[i]!r}")
        elif kind == "prog":
            desc, r, tol = info
            if rep[0] != "ok":
                chk.disagree("c04.prog", f"{desc}: model {rep[:2]} implementation returned {r!r}")
                continue
            if not unit_matches(rep, r.units):
                chk.disagree("c04.prog", f"{desc}: model unit {rep[1:7]} implementation unit {r.units!r} (scale {r.units.base_value})")
                continue
            mv, lv = core.b2f(rep[7]), float(np.ravel(r.d)[0])
            # same operations in the same order on both sides: equal up to rounding of scales; where a
            # difference of nearly equal numbers is involved the propagated bound of the oracle applies
            if not (vclose(mv, lv, 0.0) or abs(mv - lv) * float(r.units.base_value) <= 4 * tol):
                chk.disagree("c04.prog", f"{desc}: model value {mv!r} implementation {lv!r}")
        elif kind == "unary":
            name, method, q, lib = info
            what = f"np.{name}{'' if method == '__call__' else '.' + method}({q!r})"
            if lib[0] == "err":
                if rep[0] != "err" or rep[1] != lib[1]:
                    chk.disagree("c04.unary", f"{what}: model {rep[:2]} implementation raised {lib[1]}")
                continue
            if rep[0] != "ok":
                chk.disagree("c04.unary", f"{what}: model {rep[:2]} implementation returned {lib[1]!r}")
                continue
            r = lib[1]
            if isinstance(r, tuple):
                r = r[0]
            ru = getattr(r, "units", None)
            if not unit_matches(rep, ru):
                chk.disagree("c04.unary", f"{what}: model unit {rep[1:7]} implementation unit {ru!r}")
                continue
            if rep[10] != "-" and method == "__call__":
                mv = core.b2f(rep[10])
                lv = float(np.ravel(np.asarray(r.d if hasattr(r, "units") else r))[0])
                if not vclose(mv, lv, 1e-3 if name in ("sin", "cos", "tan") else 0.0):
                    chk.disagree("c04.unary", f"{what}: model value {mv!r} implementation {lv!r}")

    # ------------------------------------------------------------------ counterexample witnesses, replayed
    # (the witnesses of floor_divide_counterexample / divmod_counterexample / heaviside_counterexample)
    hdr = snippet_header(False)
    q = unyt_quantity(2.0, "km") // unyt_quantity(3.0, "m")
    if float(q.d) * float(q.units.base_value) != 666.0:
        chk.fail("floor_divide|si", "2 km // 3 m is not 666",
                 {"python": hdr + "q = unyt_quantity(2.0, 'km') // unyt_quantity(3.0, 'm')\nassert float(SI(q)) == 666.0, q\n"})
    dm = divmod(unyt_quantity(2.0, "km"), unyt_quantity(3.0, "m"))
    if not (getattr(dm[0], "units", None) is not None and dm[0].units.is_dimensionless and float(dm[0].d) * float(dm[0].units.base_value) == 666.0):
        chk.fail("divmod|si", "divmod(2 km, 3 m) quotient is not the pure number 666",
                 {"python": hdr + "q, r = divmod(unyt_quantity(2.0, 'km'), unyt_quantity(3.0, 'm'))\nassert q.units.is_dimensionless and float(SI(q)) == 666.0, (q, r)\nassert abs(float(SI(r)) - 2.0) < 1e-9, r\n"})
    h1 = np.heaviside(unyt_quantity(2.0, "km"), unyt_quantity(0.5, "km"))
    h2 = np.heaviside(unyt_quantity(2000.0, "m"), unyt_quantity(500.0, "m"))
    if not (float(si_of(h1)) == float(si_of(h2)) == 1.0):
        chk.fail("heaviside|si", "heaviside(2 km, 0.5 km) and heaviside(2000 m, 500 m) differ / are not the pure number 1",
                 {"python": hdr + "a = np.heaviside(unyt_quantity(2.0, 'km'), unyt_quantity(0.5, 'km'))\nb = np.heaviside(unyt_quantity(2000.0, 'm'), unyt_quantity(500.0, 'm'))\nassert float(SI(a)) == float(SI(b)) == 1.0, (a, b)\n"})

    try:
        xq = unyt_array([1.0, 2.0], "km/m")
        xq *= 2
        ok = bool(np.all(si_of(xq) == np.array([2000.0, 4000.0])))
    except RecursionError:
        ok = False
    if not ok:
        chk.fail("multiply|recursion", "x = unyt_array([1., 2.], 'km/m'); x *= 2 raises RecursionError",
                 {"python": hdr + "x = unyt_array([1.0, 2.0], 'km/m')\nx *= 2\nassert np.all(SI(x) == np.array([2000.0, 4000.0])), x\n"})

    try:
        aq = unyt_array([1.0, 2.0], "xla**2", registry=reg)
        tq = np.arctan2(aq, aq)
        wq = tq * tq.dot(aq)
        ok = bool(np.isfinite(float(np.ravel(wq.d)[0])))
    except Exception as e:  # noqa: BLE001
        ok = core.exc_name(e) != "SymbolNotFoundError"
    if not ok:
        chk.fail("arith|registry-lost", "t = arctan2(a, a); t * t.dot(a) raises SymbolNotFoundError for a in a custom registry",
                 {"python": snippet_header(True) + "a = Q([1.0, 2.0], 'xla**2')\nt = np.arctan2(a, a)\nw = t * t.dot(a)\nassert np.all(np.isfinite(SI(w))), w\n"})

    x2 = unyt_array(np.full((3, 3), 2.0), "km")
    r2 = np.multiply.reduce(x2)
    if not (np.all(si_of(r2) == 8.0e9) and gen.dim_vec(r2.units.dimensions) == "0,3,0,0,0,0,0,0"):
        chk.fail("multiply.reduce0|si", "np.multiply.reduce(x) of a 3x3 array in km is labelled km**9 (NumPy reduces along axis 0: three factors)",
                 {"python": hdr + "x = Q(np.full((3, 3), 2.0), 'km')\nr = np.multiply.reduce(x)\nassert np.all(SI(r) == 8.0e9), (r, SI(r))\n"})

    chk.assumptions = [
        "kernels whose homogeneity class is assumed, not proved: fmod, fmax/fmin (NaN handling aside they are max/min), nextafter, copysign, arctan2, matmul/vecdot (finite sums of products)",
        "IEEE-754 rounding is outside the theorems; the oracle allows a first-order propagated rounding bound (x16) and is bit-exact in the power-of-two registry for +,-,*,/,max,min,remainder,floor_divide,comparisons",
        "temperature-dimension operands (offset units, K/R guard, delta units) are C08's subject and are not generated here; lat/lon (negative scale, offset) excluded",
    ]
    rule = ("random expression programs (depth <= %d; %d operations x forms call/operator/in-place/out=/reduce/accumulate/outer, broadcasting) over leaves in "
            "default-registry units (atomic, SI-prefixed, compound) and in a custom registry of power-of-two scales; every leaf independently re-expressed "
            "(3 spellings per program); distinct = distinct (operation:form sequence, registry); every program contains at least one operation on quantities; "
            "plus model-vs-library cases per (ufunc, unit pair)" % (max_depth, len(sys_ops)))
    return chk.finish(rule)
