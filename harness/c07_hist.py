"""C07 under a HISTORY of the process: registries that are edited in place between calls.

A `Unit` is not determined by (registry object, expression): `UnitRegistry.modify` (or `remove` + `add`)
re-scales a symbol in place.  Anything a function remembers between calls (module-level memo, lru_cache,
registry caches) must not leak the old scale into a later result.  Three users:

  * `probe_memo` (translator plugin tools/extract.d/c07_memo.py): which components of an operand's unit does
    the label of the result depend on THROUGH THE HISTORY — a previous call that differs only in the scale
    (`modify`), in the registry object, in the expression — regenerated as `Generated/C07Memo.lean`;
  * `real_history` (correspondence): a random history of edits and calls on the real function; the label
    scales are compared with `LabelMemo.run` of the compiled model (`c07.history`);
  * `history_compare` (direct oracle, never consults the model): the covariance comparison of c07_cov on
    units of a registry that was edited after a first (warming) call — bit for bit, power-of-four scales.
"""
import itertools
import math

import numpy as np

import c07_cov as V

DIMS = ("length", "time", "mass")
LOGBASE = (0, -2, 2)  # log2 of the scale of the base symbol q<g> (as c07_cov.UnitsP4.BASE)
# log2(scale of the code symbol / scale of q<g>) before / after the edit: all steps are powers of four (square roots
# stay exact), and no small integer combination of them vanishes (a wrong power must not cancel across groups)
K1 = (2, -6, 14)
K2 = (10, 4, -22)
EDITS = ("modify", "readd", "otherreg", "othersym")
_counter = itertools.count()


def new_registry():
    import unyt
    import unyt.dimensions as D

    # a SMALL registry: `unit_system_id` hashes the whole table again after every edit
    r = unyt.UnitRegistry(add_default_symbols=False)
    r.add("dimensionless", 1.0, D.dimensionless)
    r.add("radian", 1.0, D.angle)
    for g, d in enumerate(DIMS):
        r.add(f"q{g}", 2.0 ** LOGBASE[g], getattr(D, d))
    r.add("qout", 1.0, D.current_mks)
    return r


def add_symbols(reg, tag, ks):
    import unyt.dimensions as D

    for g, d in enumerate(DIMS):
        reg.add(f"h{tag}g{g}", 2.0 ** (LOGBASE[g] + ks[g]), getattr(D, d))


def edit_symbols(reg, tag, ks, how="modify"):
    import unyt.dimensions as D

    for g, d in enumerate(DIMS):
        if how == "modify":
            reg.modify(f"h{tag}g{g}", 2.0 ** (LOGBASE[g] + ks[g]))
        else:
            reg.remove(f"h{tag}g{g}")
            reg.add(f"h{tag}g{g}", 2.0 ** (LOGBASE[g] + ks[g]), getattr(D, d))


class HistUnits:
    """provider of units for c07_cov.run_side: base unit q<g>, re-expressed in the code symbol h<tag>g<g>
    of `reg` AS IT IS NOW (the Unit is built at the moment it is asked for)"""

    name = "hist"
    exact = True

    def __init__(self, reg, tag):
        self.reg, self.tag = reg, tag

    def unit(self, name):
        import unyt

        return unyt.Unit(name, registry=self.reg)

    def base(self, g):
        return self.unit(f"q{g % 3}")

    def alt(self, g):
        return self.unit(f"h{self.tag}g{g % 3}")

    def dimless(self):
        return self.unit("dimensionless")

    def out(self):
        return self.unit("qout")


def fresh_tag():
    return f"{next(_counter)}x"


# -----------------------------------------------------------------------------------------------
# direct oracle


def history_compare(t, dk, sc, seed, edit="modify", out_mode="unyt", raws=None):
    """(status, detail): warm call on operands in the code symbols (must itself be covariant, otherwise the
    case is an ordinary covariance matter and is skipped here; likewise the call on never-seen symbols at the scales
    the edit will produce), then the registry is edited
    (`modify` | `readd`: the symbols are re-scaled in place; `otherreg`: another registry object gives the
    same names other scales; `othersym`: other symbols of the same registry), then the same call on the same
    physical operands expressed in the symbols as they are now: status `same` | `differ` (detail as
    c07_cov.compare) | `skip:<why>`"""
    # without any history: the call on never-seen symbols at the scales the edit will produce
    reg0, tag0 = new_registry(), fresh_tag()
    add_symbols(reg0, tag0, K2)
    st, d = V.compare_units(t, dk, sc, seed, HistUnits(reg0, tag0), "all", out_mode)
    if st != "same":
        return "skip:fresh-" + st.split(":")[0], None
    reg = new_registry()
    tag = fresh_tag()
    add_symbols(reg, tag, K1)
    st, d = V.compare_units(t, dk, sc, seed, HistUnits(reg, tag), "all", out_mode)
    if st != "same":
        return "skip:warm-" + st.split(":")[0], None
    if edit in ("modify", "readd"):
        edit_symbols(reg, tag, K2, edit)
    elif edit == "otherreg":
        reg = new_registry()
        add_symbols(reg, tag, K2)
    else:
        tag = fresh_tag()
        add_symbols(reg, tag, K2)
    raw = [] if raws is None else raws
    st, d = V.compare_units(t, dk, sc, seed, HistUnits(reg, tag), "all", out_mode, raw)
    if st == "same":
        return "same", None
    if st == "differ":
        return "differ", [(w, x) for w, x in d]
    if st == "raises-after-reexpression":
        return "differ", [("raises-after-reexpression", d)]
    return "skip:" + st.split(":")[0], None


def replay_snippet(t, dk, sc, seed, edit, out_mode, harness_dir):
    return (
        "import sys, warnings\n"
        "warnings.simplefilter('ignore')\n"
        f"sys.path.insert(0, {harness_dir!r})\n"
        "import numpy as np\n"
        "np.seterr(all='ignore')\n"
        "import npcatalog as C, c07_hist as H\n"
        f"t = [t for t in C.templates() if t.tid == {t.tid!r}][0]\n"
        f"call = t.instantiate({dk!r}, {sc!r}, {seed!r})\n"
        "print('call:', t.func, '(', call.describe(), ')')\n"
        f"print('history: the call on operands in code units of a custom registry; registry edit', {edit!r}, '(symbols re-scaled by powers of four); the same call on the same physical operands')\n"
        f"st, detail = H.history_compare(t, {dk!r}, {sc!r}, {seed!r}, {edit!r}, {out_mode!r})\n"
        "print('status:', st, detail or '')\n"
        "assert st != 'differ', (st, detail)\n"
    )


# -----------------------------------------------------------------------------------------------
# label scales


def label_logscales(r):
    """log2(base_value) of the unit of every unit-carrying leaf of a result (an int for a dyadic scale, else a float:
    cube roots)"""
    import unyt

    out = []

    def walk(x, depth=0):
        if isinstance(x, unyt.unyt_array):
            bv = float(x.units.base_value)
            m, e = math.frexp(bv) if bv > 0 else (0.0, 0)
            out.append(e - 1 if m == 0.5 else (math.log2(bv) if bv > 0 else None))
        elif isinstance(x, (tuple, list)) and depth < 6:
            for v in x:
                walk(v, depth + 1)

    walk(r)
    return out


def _call_labels(t, call, U, out_mode="unyt"):
    raw = []
    s = V.run_side(t, call, U, "all", True, out_mode, raw)
    if s["outcome"] != "ok" or not raw:
        return None
    return label_logscales(raw[0])


def probe_memo(t, dk, sc, seed, regs=None):
    """{'scale': bool, 'reg': bool, 'expr': bool} — True when a previous call that differs from the current
    one only in that component (and the scale) leaks into the label of the current result; None when the
    case does not return unit-carrying leaves.  The reference label is the one the same call gets on symbols
    that no call has ever seen."""
    try:
        call = t.instantiate(dk, sc, seed)
    except Exception:  # noqa: BLE001
        return None
    ra, rb = regs or (new_registry(), new_registry())
    tref = fresh_tag()
    add_symbols(ra, tref, K2)
    ref = _call_labels(t, call, HistUnits(ra, tref))
    if not ref or any(x is None for x in ref):
        return None
    out = {}
    # scale: same registry object, same symbols, re-scaled in place
    tg = fresh_tag()
    add_symbols(ra, tg, K1)
    _call_labels(t, call, HistUnits(ra, tg))
    edit_symbols(ra, tg, K2, "modify")
    out["scale"] = _call_labels(t, call, HistUnits(ra, tg)) != ref
    # registry object: the same names mean other scales in another registry
    tg = fresh_tag()
    add_symbols(ra, tg, K1)
    add_symbols(rb, tg, K2)
    _call_labels(t, call, HistUnits(ra, tg))
    out["reg"] = _call_labels(t, call, HistUnits(rb, tg)) != ref
    # expression: other symbols of the same registry
    tg, tg2 = fresh_tag(), fresh_tag()
    add_symbols(ra, tg, K1)
    add_symbols(ra, tg2, K2)
    _call_labels(t, call, HistUnits(ra, tg))
    out["expr"] = _call_labels(t, call, HistUnits(ra, tg2)) != ref
    return out


# -----------------------------------------------------------------------------------------------
# correspondence: a random history on the real function


def random_history(rng, n=6):
    """events over 2 registries x 2 symbol sets: ('call', reg, sym) | ('modify', reg, sym, (k0, k1, k2))"""
    ev = []
    for _ in range(n):
        if rng.random() < 0.4:
            ev.append(("modify", rng.randrange(2), rng.randrange(2), tuple(rng.choice((-4, -2, 2, 4, 6)) for _ in range(3))))
        else:
            ev.append(("call", rng.randrange(2), rng.randrange(2)))
    ev.append(("call", ev[0][1], ev[0][2]))
    return ev


INITIAL = {(0, 0): (2, -2, 4), (0, 1): (4, 2, -2), (1, 0): (-2, 4, 2), (1, 1): (6, -4, 4)}


def real_history(t, dk, sc, seed, events):
    """the label scales (log2 base_value per unit-carrying leaf) of every call event on the real function"""
    call = t.instantiate(dk, sc, seed)
    regs = (new_registry(), new_registry())
    tags = (fresh_tag(), fresh_tag())
    for (r, s), ks in INITIAL.items():
        add_symbols(regs[r], tags[s], ks)
    out = []
    for e in events:
        if e[0] == "modify":
            edit_symbols(regs[e[1]], tags[e[2]], e[3], "modify")
        else:
            out.append(_call_labels(t, call, HistUnits(regs[e[1]], tags[e[2]])))
    return out


# -----------------------------------------------------------------------------------------------
# the memoised unit rules of unyt/array.py (the ufunc path): the ufunc each serves, the operand groups it is called
# on here (distinct dimensions: nothing cancels) and the exponents of its label

def _rule_table():
    from fractions import Fraction as Fr

    return {
        "_sqrt_unit": (lambda x, y: np.sqrt(x), (0,), (Fr(1, 2),)),
        "_cbrt_unit": (lambda x, y: np.cbrt(x), (0,), (Fr(1, 3),)),
        "_square_unit": (lambda x, y: np.square(x), (0,), (Fr(2),)),
        "_reciprocal_unit": (lambda x, y: np.reciprocal(x), (0,), (Fr(-1),)),
        "_power_unit": (lambda x, y: np.power(x, 3), (0,), (Fr(3),)),
        "_multiply_units": (lambda x, y: np.multiply(x, y), (0, 1), (Fr(1), Fr(1))),
        "_divide_units": (lambda x, y: np.divide(x, y), (0, 1), (Fr(1), Fr(-1))),
        "_preserve_units": (lambda x, y: np.add(x, x), (0,), (Fr(1),)),
        "_difference_units": (lambda x, y: np.subtract(x, x), (0,), (Fr(1),)),
    }


def real_rule_history(rule_name, events):
    """(label scales per call, number of misses of the rule's lru_cache) of a history on the real ufunc"""
    import unyt
    import unyt.array as UA

    f, _groups, _expos = _rule_table()[rule_name]
    rule = getattr(UA, rule_name)
    regs = (new_registry(), new_registry())
    tags = (fresh_tag(), fresh_tag())
    for (r, s), ks in INITIAL.items():
        add_symbols(regs[r], tags[s], ks)
    data = np.array([1.0, 2.0, 4.0])
    rule.cache_clear()
    before = rule.cache_info().misses
    out = []
    for e in events:
        if e[0] == "modify":
            edit_symbols(regs[e[1]], tags[e[2]], e[3], "modify")
        else:
            U = HistUnits(regs[e[1]], tags[e[2]])
            res = f(unyt.unyt_array(data.copy(), U.alt(0)), unyt.unyt_array(data.copy(), U.alt(1)))
            out.append(label_logscales(res))
    misses = rule.cache_info().misses - before
    rule.cache_clear()
    return out, misses
