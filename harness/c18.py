"""C18 — non-mutating calls do not mutate; failed calls leave their operands intact.

Proof: UnytProofs.C18 (+ C18Reuse) over UnytModel/Effects.lean and the shared dispatcher; the ORDER of
the in-place routines is regenerated from the source by tools/extract.d/c18_order.py.
Correspondence + direct oracle:
  A  tables read back (regenerated orders / method facts vs the translator's JSON, reference lists)
  B  conversion entry points (copying + in-place) × dtypes × shapes × fault kinds: snapshots on
     guard-buffer views (direct oracle c18_conv.judge) and the step model's prediction (c18.ctu/ctb/cte/setitem)
  C  ufuncs with out= / augmented assignment × operand kinds × fault kinds (oracle + c18.iufunc)
  D  every npcatalog template: operands as guard-buffer views, valid and with faults injected at
     every value-operand position (direct oracle only)
  E  the witnesses of the `_counterexample` theorems, replayed on the real code
"""
import json
import os
import sys

import numpy as np

import core
import gen

PROOF_MODULES = ["UnytProofs.C18", "UnytProofs.C18Equiv", "UnytProofs.C18Order", "UnytProofs.C18Reuse", "UnytProofs.C18Alias"]
HARNESS = os.path.dirname(os.path.abspath(__file__))
PLUGINS = ("c18",)
# tables of other properties this model reads: refreshed best-effort (their own checks own them; a
# plugin of another property that no longer recognises the source must not fail THIS check)
FOREIGN_PLUGINS = ("c17_dtype", "c09_equiv", "c01_ufuncs", "c04_ufuncs", "c10_systems")

RULE = ("distinct = (section, route/function, variant, dtype class, shape class, fault kind) tuples "
        "executed on the real library with full before/after snapshots")


# ----------------------------------------------------------------------------------------------
# A. tables


def check_tables(chk, M, X):
    names = ["convertToUnits", "convertToBase", "convertToCgs", "convertToMks", "convertToEquivalent", "toEquivalent",
             "inUnits", "inBase", "setitem", "arrayUfunc", "unitSimplify"]
    rep = M.ask([f"c18.dump.order\t{n}" for n in names])
    for n, r in zip(names, rep):
        chk.case(("table", "order", n))
        want = X["orders"][n]
        got = r[1].split("|") if len(r) > 1 and r[1] else []
        if r[0] != "ok" or got != want:
            chk.disagree("c18.dump.order", f"{n}: Lean file has {got[:6]}…, translator saw {want[:6]}…")
    # transitive writes: recompute the closure independently from the JSON facts
    facts = {m: (ws, cs) for m, ws, cs in X["methodFacts"]}

    def resolve(cls, name):
        if f"{cls}.{name}" in facts:
            return f"{cls}.{name}"
        if cls == "unyt_quantity" and f"unyt_array.{name}" in facts:
            return f"unyt_array.{name}"
        return None

    def closure(m, fuel=6):
        if fuel == 0 or m not in facts:
            return []
        ws, cs = facts[m]
        out = [f"{m}:{w}" for w in ws]
        for c in cs:
            m2 = resolve(m.split(".")[0], c)
            if m2 and m2 != m:
                out += closure(m2, fuel - 1)
        return out

    ms = sorted(facts)
    rep = M.ask([f"c18.dump.writes\t{m}" for m in ms])
    for m, r in zip(ms, rep):
        chk.case(("table", "writes", m))
        got = r[1].split("|") if len(r) > 1 and r[1] else []
        if r[0] != "ok" or got != closure(m):
            chk.disagree("c18.dump.writes", f"{m}: model {got[:4]} vs independent closure {closure(m)[:4]}")
    lists = M.ask(["c18.dump.lists"])[0]
    copying, inplace, excl = (lists[1].split(","), lists[2].split(","), [x for x in lists[3].split(",") if x])
    # every reference method must exist on the live classes
    import unyt

    for m in copying + inplace:
        cls, name = m.split(".")
        obj = {"unyt_array": unyt.unyt_array, "unyt_quantity": unyt.unyt_quantity, "Unit": unyt.Unit}[cls]
        chk.case(("table", "ref-method", m))
        if not hasattr(obj, name):
            chk.disagree("c18.ref", f"reference list names {m}, which the live class does not have")
    # exclusion list <-> known findings
    known = {k["key"] for k in core.load_known() if k["property"] == "C18" and k.get("status") == "known"}
    want = {f"documented-copying|{m}|mutates-self" for m in excl}
    have = {k for k in known if k.startswith("documented-copying|")}
    if want != have:
        chk.disagree("c18.exclusions", f"Ref.C18.knownMutatingCopies {sorted(want)} vs known findings {sorted(have)}")
    return copying, inplace


# ----------------------------------------------------------------------------------------------
# B. conversions

import c18_conv as V  # noqa: E402
import c18_lib as L  # noqa: E402

DTYPES_Q = ["float64", "float32", "int64", "int32", "int8", "uint8", "bool", "complex128"]
DTYPES_T = ["float64", "float32", "float16", "int64", "int32", "int16", "int8", "uint8", "uint64", "bool", "complex128"]
SHAPES = ["1d", "0d", "2ds"]

# (from unit, target unit, fault kind)
PLAIN = [("km", "m", "valid"), ("m", "km", "valid"), ("degC", "K", "valid"), ("degF", "degC", "valid"), ("K", "degF", "valid"),
         ("erg", "J", "valid"), ("mile/hr", "m/s", "valid"), ("C", "statC", "valid"), ("G", "T", "valid"), ("km", "km", "valid"),
         ("g*cm**2/s**2", "J", "valid"), ("km", "s", "incommensurable"), ("J", "K", "incommensurable"), ("km", "qqq", "unknown-unit"),
         ("km", "m**", "unparsable-unit"), ("degC", "m", "incommensurable")]
BASE = [("km", None, "valid"), ("km", "cgs", "valid"), ("erg/s", "mks", "valid"), ("degF", "mks", "valid"), ("mile", "imperial", "valid"),
        ("A", "cgs", "valid"), ("statC", "mks", "valid"), ("C*m", "cgs", "irreducible"), ("V/m", "cgs", "irreducible"),
        ("km", "nope", "unknown-system"), ("Msun/pc**3", "galactic", "valid"),
        # conversion factor exactly 1, with and without an offset (a result that IS the input's buffer would be
        # written by the offset step: seeded change C18-c)
        ("degC", None, "valid"), ("degC", "mks", "valid"), ("degC", "cgs", "valid"), ("m", "mks", "valid"), ("K", None, "valid"),
        ("g", "cgs", "valid")]
EQUIV = [("K", "J", "thermal", {}, "valid"), ("J", "K", "thermal", {}, "valid"), ("g", "erg", "mass_energy", {}, "valid"),
         ("g/cm**3", "cm**-3", "number_density", {"mu": 1.4}, "valid"), ("Hz", "angstrom", "spectral", {}, "valid"),
         ("km/s", "dimensionless", "lorentz", {}, "valid"), ("K", "km/s", "sound_speed", {"gamma": 1.4}, "valid"),
         ("K", "W/m**2", "effective_temperature", {}, "valid"), ("Msun", "km", "schwarzschild", {}, "valid"),
         ("g", "cm", "compton", {}, "valid"), ("K", "keV", "thermal", {}, "valid"), ("K", "R", "thermal", {}, "valid"),
         ("K", "m", "thermal", {}, "invalid-equivalence"), ("m", "J", "thermal", {}, "invalid-equivalence"),
         ("K", "J", "nope", {}, "unknown-equivalence"), ("K", "J", "thermal", {"mu": 3.0}, "bad-kwarg"),
         ("K", "qqq", "thermal", {}, "unknown-unit"), ("degC", "J", "thermal", {}, "offset-input"),
         ("degC", "W/m**2", "effective_temperature", {}, "offset-input"), ("K*cm/angstrom", "J", "thermal", {}, "reducible-unit"),
         ("g*m/cm", "erg", "mass_energy", {}, "reducible-unit")]


def equivalence_branch_specs():
    """EVERY ordered (equivalence, from-dimension -> to-dimension) branch of the live
    `equivalence_registry` (32 on this tree; cross-checked against C09's regenerated table) × every
    copying spelling and the in-place ones × operands that are views of a guard buffer (contiguous,
    strided 2-d, 0-d).  Always executed in full, in both tiers: it is the only place where a copy-mode
    chain that writes into its input (`out=x`, or `out=` a temporary that IS the input) shows."""
    from unyt.equivalencies import equivalence_registry
    from unyt.unit_systems import cgs_unit_system, mks_unit_system

    specs = []
    for name, cls in equivalence_registry.items():
        dims = list(cls._dims)
        for a in dims:
            for b in dims:
                if a == b:
                    continue
                # two spellings of the operand's unit (SI and CGS base), the target in SI
                for usys in (mks_unit_system, cgs_unit_system):
                    u, t = str(usys[a]), str(mks_unit_system[b])
                    for sh in SHAPES:
                        for dt in ("float64", "int64"):
                            if dt == "int64" and (sh != "1d" or usys is cgs_unit_system):
                                continue
                            for route in ("to_equivalent", "to", "in_units", "to_value", "convert_to_equivalent",
                                          "convert_to_units"):
                                specs.append(dict(route=route, unit=u, target=t, equivalence=name, kwargs={}, dtype=dt,
                                                  shape=sh, ro=False, fault="valid", branch=f"{name}:{a}->{b}", keep=True))
    return specs


def conversion_specs(tier, rng):
    dts = DTYPES_T if tier == "thorough" else DTYPES_Q
    specs = []

    def add(**kw):
        specs.append(kw)

    for dt in dts:
        for sh in SHAPES:
            for ro in (False, True):
                if ro and (sh != "1d" or dt not in ("float64", "int64", "bool")) and tier != "thorough":
                    continue
                ff = "readonly" if ro else None
                for u, t, f in PLAIN:
                    if dt == "bool" and f == "valid" and u not in ("km", "degC"):
                        continue
                    for route in ("to", "in_units", "to_value", "convert_to_units"):
                        if route in ("in_units", "to_value") and (sh != "1d" or ro) and tier != "thorough":
                            continue
                        add(route=route, unit=u, target=t, dtype=dt, shape=sh, ro=ro, fault=ff or f,
                            target_obj=(f == "valid" and sh == "1d" and not ro))
                for u, s, f in BASE:
                    for route in ("in_base", "convert_to_base"):
                        sp = dict(route=route, unit=u, dtype=dt, shape=sh, ro=ro, fault=ff or f)
                        if s is not None:
                            sp["system"] = s
                        add(**sp)
                    if s in ("cgs", "mks"):
                        add(route="in_" + s, unit=u, dtype=dt, shape=sh, ro=ro, fault=ff or f)
                        add(route="convert_to_" + s, unit=u, dtype=dt, shape=sh, ro=ro, fault=ff or f)
                for u, t, e, kw, f in EQUIV:
                    if sh == "2ds" and tier != "thorough" and f == "valid" and e not in ("thermal", "lorentz"):
                        continue
                    for route in ("to_equivalent", "convert_to_equivalent", "to", "convert_to_units"):
                        if route in ("to", "convert_to_units") and (sh != "1d") and tier != "thorough":
                            continue
                        add(route=route, unit=u, target=t, equivalence=e, kwargs=kw, dtype=dt, shape=sh, ro=ro, fault=ff or f)
    # unsupported keyword on the plain routes
    for route in ("to", "convert_to_units", "in_base", "convert_to_base", "in_cgs", "convert_to_cgs"):
        for dt in ("float64", "int64"):
            sp = dict(route=route, unit="km", dtype=dt, shape="1d", ro=False, fault="bad-kwarg", kwargs={"bogus": 1})
            if route in ("to", "convert_to_units"):
                sp["target"] = "m"
            add(**sp)
    # the other copying accessors / Unit methods
    for dt in ("float64", "int64", "complex128"):
        for sh in SHAPES:
            for u in ("km", "degC", "cm/m", "K*cm/angstrom"):
                for route in V.COPYING:
                    if route in ("to", "in_units", "to_value", "in_base", "in_cgs", "in_mks", "to_equivalent"):
                        continue
                    if route == "units.div" and u == "degC":
                        continue
                    add(route=route, unit=u, target="m", dtype=dt, shape=sh, ro=False, fault="valid")
    # item assignment
    vals = [({"data": [7.0], "scalar": True, "unit": None}, "valid-bare"), ({"data": [7.0], "scalar": True, "unit": "same"}, "valid"),
            ({"data": [7.0], "scalar": True, "unit": "other"}, "valid"), ({"data": [7.0], "scalar": True, "unit": "s"}, "incommensurable"),
            ({"data": [7.0, 8.0, 9.0, 10.0, 11.0], "unit": "same"}, "bad-shape"), ({"data": [7.0, 8.0, 9.0, 10.0, 11.0], "unit": "other"}, "bad-shape"),
            ({"data": [7.0, 8.0, 9.0, 10.0, 11.0], "unit": None}, "bad-shape"), ({"data": [7.5 + 1j], "scalar": True, "unit": "same", "dtype": "complex128"}, "uncastable"),
            ({"data": [7.0], "scalar": True, "unit": "dimensionless"}, "valid-dimensionless")]
    for dt in ("float64", "int64", "float32"):
        for sh in SHAPES:
            for ro in (False, True):
                for u, other in (("km", "m"), ("degC", "K"), ("J", "erg")):
                    for idx in ("first", "slice", "all", "mask"):
                        if idx == "mask" and sh != "1d":
                            continue
                        for v, f in vals:
                            vv = dict(v)
                            if vv["unit"] == "same":
                                vv["unit"] = u
                            elif vv["unit"] == "other":
                                vv["unit"] = other
                            add(route="setitem", unit=u, dtype=dt, shape=sh, ro=ro, index=idx, value=vv,
                                fault="readonly" if ro else f)
    if tier != "thorough":
        # quick: keep every (route, fault, dtype class) combination, thin the rest deterministically per seed
        keep, seen = [], {}
        for sp in specs:
            k = (sp["route"], sp["fault"], L.dtype_class(sp["dtype"]), sp["shape"] == "0d")
            seen[k] = seen.get(k, 0) + 1
            if seen[k] <= 2 or rng.random() < 0.22:
                keep.append(sp)
        specs = keep
    return specs + equivalence_branch_specs()


class _Sub(np.ndarray):
    """a unit-less ndarray subclass: how NumPy treats a quantity it is asked to store"""


def _uw(u):
    return gen.unit_wire_fields(u)


def conversion_wire(spec):
    """the model line for an in-place conversion spec (None when outside the model's vocabulary)"""
    import unyt

    r = spec["route"]
    try:
        u = unyt.Unit(spec["unit"])
        dt = np.dtype(spec["dtype"])
        if dt.kind not in "iufcb":
            return None
        x = np.asarray(V.make_data(spec["dtype"], spec["shape"])).reshape(-1)[0]
        xv = float(np.real(x))
        head = [str(core.f2b(xv))] + _uw(u) + [dt.kind, str(dt.itemsize), "0" if spec.get("ro") else "1"]

        def tgt():
            try:
                t = unyt.Unit(spec["target"])
            except Exception as e:  # noqa: BLE001
                n = L.exc_class(e)
                return ["E", n if n in ("UnitParseError", "TypeError", "ValueError", "KeyError") else "Other"]
            return ["U"] + _uw(t)

        if r == "setitem":
            v = spec["value"]
            # NumPy's own verdict on the store (a parameter of the model): the same assignment on bare data
            np_refuses = "-"
            H = V.build(dict(spec, unit="dimensionless"))
            bare = H.obj.view(np.ndarray)
            if spec.get("ro"):
                bare.flags.writeable = False
            bv = np.array(v["data"], dtype=v.get("dtype", "float64"))
            if v.get("scalar"):
                bv = bv.reshape(-1)[0]
                if v.get("unit") is not None:
                    bv = np.array(bv).view(_Sub)       # a quantity reaches ndarray.__setitem__ as a 0-d subclass instance
            idx = {"first": 0, "slice": slice(0, 2), "all": Ellipsis, "mask": np.array([True, False, True])}[spec["index"]]
            if bare.ndim == 0:
                idx = Ellipsis
            _r, e = L.call_quiet(lambda: bare.__setitem__(idx, bv))
            if e is not None:
                n = L.exc_class(e)
                np_refuses = n if n in ("TypeError", "ValueError") else "Other"
            val = ["B"] if v.get("unit") is None else ["U"] + _uw(unyt.Unit(v["unit"]))
            return "\t".join(["c18.setitem"] + _uw(u) + val + [np_refuses])
        if spec.get("kwargs") and "bogus" in spec["kwargs"]:
            return None
        if r == "convert_to_units" and spec.get("equivalence") is None:
            return "\t".join(["c18.ctu"] + head + tgt())
        if r in ("convert_to_equivalent", "convert_to_units"):
            sc = float((u * unyt.Unit()).simplify().as_coeff_unit()[0])
            return "\t".join(["c18.cte"] + head + tgt() + [spec["equivalence"], ",".join(sorted(spec.get("kwargs") or {})),
                                                            str(core.f2b(sc)), "40"])
        if r in ("convert_to_base", "convert_to_cgs", "convert_to_mks"):
            kind = {"convert_to_base": "base", "convert_to_cgs": "cgs", "convert_to_mks": "mks"}[r]
            sys_ = spec.get("system", "mks") if r == "convert_to_base" else kind
            if sys_ == "nope":
                return None
            return "\t".join(["c18.ctb", kind, sys_] + head)
    except ValueError:
        return None
    return None


COPY_METHOD = {"to": "unyt_array.to", "in_units": "unyt_array.in_units", "to_value": "unyt_array.to_value",
               "in_base": "unyt_array.in_base", "in_cgs": "unyt_array.in_cgs", "in_mks": "unyt_array.in_mks",
               "to_equivalent": "unyt_array.to_equivalent", "copy": "unyt_array.copy", "value": "unyt_array.value",
               "v": "unyt_array.v", "to_ndarray": "unyt_array.to_ndarray", "pos": "unyt_array.__pos__",
               "getitem": "unyt_array.__getitem__", "unit_quantity": "unyt_array.unit_quantity",
               "unit_array": "unyt_array.unit_array", "str": "unyt_array.__str__", "repr": "unyt_array.__repr__",
               "units.get_base_equivalent": "Unit.get_base_equivalent", "units.get_cgs_equivalent": "Unit.get_cgs_equivalent",
               "units.get_mks_equivalent": "Unit.get_mks_equivalent", "units.as_coeff_unit": "Unit.as_coeff_unit",
               "units.mul": "Unit.__mul__", "units.div": "Unit.__truediv__", "units.pow": "Unit.__pow__",
               "units.copy": "Unit.copy", "units.eq": "Unit.__eq__", "units.get_conversion_factor": "Unit.get_conversion_factor",
               "units.same_dimensions_as": "Unit.same_dimensions_as"}


def copy_wire(spec):
    """the model line for a COPYING spec: the route's fallible steps plus the self-writes the regenerated
    source facts attribute to the method (`copyingRoute`); (line, compare outcome?)"""
    import unyt

    r = spec["route"]
    try:
        u = unyt.Unit(spec["unit"])
        dt = np.dtype(spec["dtype"])
        if r == "units.simplify":
            return "\t".join(["c18.simplify"] + _uw(u)), True
        meth = COPY_METHOD.get(r)
        if meth is None or dt.kind not in "iufcb":
            return None, False
        if spec.get("kwargs") and "bogus" in spec["kwargs"]:
            return "\t".join(["c18.copy.method", meth]), False

        def tgt():
            try:
                t = unyt.Unit(spec["target"])
            except Exception as e:  # noqa: BLE001
                n = L.exc_class(e)
                return ["E", n if n in ("UnitParseError", "TypeError", "ValueError", "KeyError") else "Other"]
            return ["U"] + _uw(t)

        head = _uw(u) + [dt.kind, str(dt.itemsize)]
        if r in ("to", "in_units", "to_value", "to_equivalent") and spec.get("equivalence") is not None:
            return "\t".join(["c18.copy.to_equivalent", meth] + head + tgt() + [spec["equivalence"],
                                                                                 ",".join(sorted(spec.get("kwargs") or {}))]), True
        if r in ("to", "in_units", "to_value"):
            return "\t".join(["c18.copy.in_units", meth] + head + tgt()), True
        if r in ("in_base", "in_cgs", "in_mks"):
            sys_ = spec.get("system", "mks") if r == "in_base" else r[3:]
            if sys_ == "nope":
                return "\t".join(["c18.copy.method", meth]), False
            return "\t".join(["c18.copy.in_base", meth, sys_] + _uw(u)), True
        return "\t".join(["c18.copy.method", meth]), False
    except ValueError:
        return None, False


ALIAS_M_OBS = {}   # "Class.method" -> [copying calls observed, calls that changed the input]


def compare_method_alias(chk, M):
    """the may-alias table of unyt/array.py read back against the live classes (every `unyt_array.<m>` / `unyt_quantity.<m>`
    routine of the table has the parameter list `inspect.signature` reports), and its verdict on `self` against the
    copying calls of the conversion sweep: an input that changed needs the verdict 'may be written'"""
    import inspect

    import unyt

    try:
        A = json.load(open(os.path.join(core.BUILD, "extract_c18_alias.json"), encoding="utf-8"))["array_routines"]
    except Exception as e:  # noqa: BLE001
        chk.disagree("translator", f"no array_routines in extract_c18_alias.json: {e}")
        return
    names = sorted(A)
    reps = M.ask([f"c18.am.params\t{n}" for n in names] + [f"c18.am.written\t{n}" for n in names])
    written = {}
    for n, rp, rw in zip(names, reps[:len(names)], reps[len(names):]):
        got = [x for x in (rp[1].split(",") if len(rp) > 1 else []) if x]
        written[n] = [x for x in (rw[1].split(",") if len(rw) > 1 else []) if x] if rw and rw[0] == "ok" else None
        if rp[0] != "ok" or got != A[n]:
            chk.disagree("c18.am.params", f"{n}: driver {rp} vs translator {A[n]}")
        if "." in n:
            cls, m = n.split(".", 1)
            f = inspect.getattr_static(getattr(unyt, cls), m, None)
            f = f.fget if isinstance(f, property) else f
            if f is not None and hasattr(f, "__code__"):
                chk.case(("alias-method", n))
                live = [p for p in inspect.signature(f).parameters]
                if live != A[n]:
                    chk.disagree("c18.am.params", f"{n}: live parameters {live}, table {A[n]}")
    for meth, (n_obs, n_chg) in sorted(ALIAS_M_OBS.items()):
        chk.case(("alias-method-obs", meth))
        if meth not in written or written[meth] is None:
            chk.count("alias:method-not-in-array-table")
            continue
        if n_chg and "self" not in written[meth]:
            chk.disagree("c18.am.written", f"{meth}: the input changed in {n_chg} of {n_obs} copying calls, the model's verdict on self is 'cannot be written'")
        else:
            chk.count("alias:method-self-intact:confirmed" if not n_chg else "alias:method-self-written:predicted", n_obs)
    chk.count("alias:array-routines-read-back", len(names))


def compare_copy(chk, spec, obs, rep, outcome):
    """copying routes: the model's effect list on the input is the regenerated self-write closure of the
    method; it must be empty exactly when the input is observed unchanged, and (for the modelled
    conversion routes) the exception class must agree"""
    if not rep or rep[0] == "bad-op" or len(rep) < 2:
        chk.disagree("c18.copy", f"model rejected {spec}: {rep}")
        return
    tag = f"{spec['route']}|{spec.get('fault')}|{spec['dtype']}|{spec['shape']}|{spec['unit']}->{spec.get('target', spec.get('system'))}"
    if spec["route"] == "units.simplify":
        m_exc = None if rep[0] == "ok" else rep[0].split(":", 1)[1]
        m_eff = int(rep[1])
        m_self = rep[2] == "1" if m_exc is None else False
        changed = bool(obs["unit_obj_delta"])
        if (m_exc is None) != (obs["exc"] is None):
            chk.disagree("c18.simplify.outcome", f"{tag}: model {m_exc} vs unyt {obs['exc']}", spec)
        elif m_exc is None:
            if m_self != bool(obs["returned_self"]):
                chk.disagree("c18.simplify.self", f"{tag}: model returns self={m_self}, unyt {obs['returned_self']}", spec)
            if changed and m_eff == 0:
                chk.disagree("c18.simplify.effects", f"{tag}: the unit object changed, the model lists no write", spec)
        return
    m_exc = None if rep[0] == "ok" else rep[0].split(":", 1)[1]
    m_eff = int(rep[1])
    o_n = {"RecursionError": "RuntimeError", "IndexError": "Other", "AttributeError": "Other"}.get(obs["exc"], obs["exc"])
    if outcome and ((m_exc is None) != (o_n is None) or (m_exc is not None and m_exc != o_n
                                                         and not (m_exc == "Other" and o_n not in core_model_errs()))):
        chk.disagree("c18.copy.outcome", f"{tag}: model {m_exc} vs unyt {obs['exc']} ({obs['msg'][:60]})", spec)
        return
    changed = bool(obs["delta"]) or bool(obs["unit_obj_delta"])
    meth = COPY_METHOD.get(spec["route"])
    if meth and meth.startswith("unyt_"):
        e = ALIAS_M_OBS.setdefault(meth, [0, 0])
        e[0] += 1
        e[1] += 1 if obs["delta"] else 0
    if changed and m_eff == 0:
        chk.disagree("c18.copy.effects", f"{tag}: the input changed ({obs['delta']}), the regenerated source facts list no write to self", spec)
    if m_eff > 0 and not changed and m_exc is None and obs["exc"] is None:
        chk.disagree("c18.copy.effects", f"{tag}: the source facts list {m_eff} write(s) to self, the input is unchanged", spec)


def compare_conversion(chk, spec, obs, rep):
    """model prediction (run line) vs observation"""
    op = rep and rep[0]
    if not rep or rep[0] == "bad-op" or len(rep) < 9:
        chk.disagree("c18.conv", f"model rejected {spec}: {rep}")
        return
    head, effs = rep[0], [e for e in rep[1].split(",") if e]
    m_exc = None if head == "ok" else head.split(":", 1)[1]
    o_exc = obs["exc"]
    norm = {"RecursionError": "RuntimeError", "IndexError": "Other", "AttributeError": "Other", "KeyError": "KeyError"}
    o_n = norm.get(o_exc, o_exc)
    tag = f"{spec['route']}|{spec.get('fault')}|{spec['dtype']}|{spec['shape']}|{spec['unit']}->{spec.get('target', spec.get('system'))}"
    if (m_exc is None) != (o_n is None) or (m_exc is not None and m_exc != o_n and not (m_exc == "Other" and o_n not in core_model_errs())):
        chk.disagree("c18.conv.outcome", f"{tag}: model {m_exc} vs unyt {o_exc} ({obs['msg'][:60]})", spec)
        return
    d = set(obs["delta"])
    m_unit = "S" in effs
    m_numbers = any(e in ("M", "O", "K", "T") for e in effs) or rep[7] == "0"
    m_dtype = rep[6] != np.dtype(spec["dtype"]).kind + str(np.dtype(spec["dtype"]).itemsize)
    m_name = rep[8] == "0"
    # a unit assignment is observable only when the new unit differs; a scaling only when the factor is not 1
    o_unit = "unit" in d
    o_numbers = "numbers" in d
    if o_unit and not m_unit:
        chk.disagree("c18.conv.unit", f"{tag}: unit changed but the model lists no unit assignment ({effs})", spec)
    if m_unit and not o_unit and spec["route"] != "setitem":
        before_u, after_u = obs["before"].get("unit"), obs["after"].get("unit")
        # assigned an equal unit (km -> km, or the same base unit): fine
        try:
            import unyt

            same = (m_exc is None and before_u[:3] == after_u[:3]) or (unyt.Unit(spec["unit"]) == unyt.Unit(spec.get("target") or spec["unit"]))
        except Exception:  # noqa: BLE001
            same = False
        if not same and m_exc is not None:
            # the model says the unit was (re)assigned before the failure; the observable label must differ
            # unless the assigned unit prints the same
            if not (before_u == after_u and _same_target(spec)):
                chk.disagree("c18.conv.unit", f"{tag}: model assigns the unit before failing ({effs}), unyt left {after_u}", spec)
    if o_numbers and not m_numbers:
        chk.disagree("c18.conv.numbers", f"{tag}: numbers changed, model effects {effs}", spec)
    if m_exc is not None and m_numbers and not o_numbers and "K" not in effs:
        chk.disagree("c18.conv.numbers", f"{tag}: model predicts changed numbers on failure ({effs}), unyt left them", spec)
    if spec["route"] != "setitem" and ("dtype" in d) != m_dtype:
        chk.disagree("c18.conv.dtype", f"{tag}: dtype after {obs['after'].get('dtype')} vs model {rep[6]}", spec)
    if ("name" in d) != m_name:
        chk.disagree("c18.conv.name", f"{tag}: name cleared={'name' in d} vs model {m_name}", spec)
    if m_exc is None and "K" not in effs and "T" not in effs and spec["route"] != "setitem":
        # the numbers: first element
        got = L.numbers(obs["after"])
        if got is not None and got.size:
            g = float(np.real(got.reshape(-1)[0]))
            want = core.b2f(rep[2])
            dt = np.dtype(obs["after"]["dtype"])
            tol = {2: 2.0 ** -9, 4: 2.0 ** -21}.get(dt.itemsize if dt.kind != "c" else dt.itemsize // 2, core.RTOL * 64)
            narrow = dt.kind in "fc" and (dt.itemsize if dt.kind != "c" else dt.itemsize // 2) < 8
            if narrow:
                fi = np.finfo(np.float16 if (dt.itemsize if dt.kind != "c" else dt.itemsize // 2) == 2 else np.float32)
                if not (float(fi.tiny) * 4096 < abs(want) < float(fi.max) / 4096):
                    chk.count("conv:narrow-dtype-value-out-of-range-skipped")
                    return
            if not core.close(g, want, rtol=tol, atol=1e-300):
                chk.disagree("c18.conv.value", f"{tag}: first element {g!r} vs model {want!r}", spec)


def _same_target(spec):
    try:
        import unyt

        return str(unyt.Unit(spec["unit"])) == str(unyt.Unit(spec["target"]))
    except Exception:  # noqa: BLE001
        return False


def core_model_errs():
    return {"UnitOperationError", "UnitConversionError", "UnitParseError", "InvalidUnitOperation", "UnitInconsistencyError",
            "IterableUnitCoercionError", "UnitsNotReducible", "InvalidUnitEquivalence", "SymbolNotFoundError",
            "IllDefinedUnitSystem", "MissingMKSCurrent", "MKSCGSConversionError", "TypeError", "ValueError", "RuntimeError",
            "KeyError"}


def run_conversions(chk, M, tier):
    specs = conversion_specs(tier, chk.rng)
    branches = sorted({sp["branch"] for sp in specs if sp.get("branch")})
    chk.extra["equivalence_branches_swept"] = len(branches)
    try:
        J9 = json.load(open(os.path.join(core.BUILD, "extract_c09_equiv_formulas.json"), encoding="utf-8"))
        n9 = sum(len(e["branches"]) for e in J9["equivalences"])
        if n9 != len(branches):
            chk.disagree("c18.equiv-branches", f"the sweep visits {len(branches)} branches, C09's regenerated table has {n9}")
    except (OSError, KeyError, ValueError):
        chk.count("conv:c09-table-unavailable")
    lines, idx, results = [], [], []
    for sp in specs:
        obs = V.run_case(sp)
        results.append(obs)
        chk.case(("conv", sp["route"], sp.get("fault"), L.dtype_class(sp["dtype"]), sp["shape"], sp["unit"], sp.get("target"),
                  sp.get("system"), sp.get("equivalence"), sp.get("index")),
                 {"call": f"{sp['route']}", "unit": sp["unit"], "dtype": sp["dtype"], "raised": obs["exc"], "changed": obs["delta"]}
                 if chk.evaluations % 97 == 0 else None)
        chk.count(f"conv:{sp['route']}:{'raise' if obs['exc'] else 'ok'}")
        for key, what in V.judge(sp, obs):
            chk.fail(key, what, {"python": V.replay_snippet(sp, key, HARNESS), "spec": sp, "observed": {"raised": obs["exc"], "changed": obs["delta"]}})
        if sp["route"] in V.INPLACE or sp["route"] == "setitem":
            w = conversion_wire(sp)
            if w is not None:
                lines.append(w)
                idx.append((len(results) - 1, None))
        elif sp["route"] in V.COPYING:
            w, outcome = copy_wire(sp)
            if w is not None:
                lines.append(w)
                idx.append((len(results) - 1, outcome))
    reps = M.ask(lines)
    ncopy = 0
    for (i, outcome), rep in zip(idx, reps):
        if outcome is None:
            compare_conversion(chk, specs[i], results[i], rep)
        else:
            ncopy += 1
            compare_copy(chk, specs[i], results[i], rep, outcome)
    chk.count("conv:model-lines", len(lines) - ncopy)
    chk.count("conv:copy-model-lines", ncopy)


# ----------------------------------------------------------------------------------------------
# C. ufuncs: copying forms and out= / augmented assignment

import c18_ufunc as U  # noqa: E402

REPRESENTATIVE = {"add", "subtract", "multiply", "divide", "true_divide", "power", "less", "equal", "not_equal", "arctan2", "maximum",
                  "floor_divide", "remainder", "bitwise_and", "logaddexp", "copysign", "heaviside", "hypot", "sqrt", "negative",
                  "sin", "exp", "isfinite", "invert", "square", "reciprocal", "absolute", "sign", "floor", "modf", "divmod", "matmul"}


def _un(unit, dtype="float64", shape="1d", **kw):
    return dict(kind="unyt", unit=unit, dtype=dtype, shape=shape, **kw)


def binary_scenarios():
    S = []

    def add(a, b, fault, **kw):
        S.append(dict(a=a, b=b, fault=fault, **kw))

    add(_un("m"), _un("m"), "valid")
    add(_un("m"), _un("cm"), "valid")
    add(_un("m", strided=True), _un("km", strided=True), "valid")
    add(_un("m"), _un("s"), "incommensurable")
    add(_un("m"), dict(kind="pyscalar", dtype="float64"), "bare-operand")
    add(_un("m"), dict(kind="bare", dtype="float64"), "bare-operand")
    add(_un("m"), _un("dimensionless"), "dimensionless-operand")
    add(_un("dimensionless"), dict(kind="pyscalar", dtype="float64"), "valid")
    add(_un("m"), _un("cm", shape="bad"), "bad-shape")
    add(_un("m"), _un("s", shape="bad"), "bad-shape")
    add(_un("m"), _un("cm"), "bad-kwarg", kwargs={"bogus": 1})
    add(_un("m", ro=True), _un("cm"), "readonly")
    add(_un("m", "int64"), _un("m", "int64"), "int-out")
    add(_un("m", "int64"), _un("cm", "int64"), "int-out")
    add(_un("m", "int64"), _un("s", "int64"), "incommensurable")
    add(_un("m", "int64"), _un("cm", "int64", shape="bad"), "bad-shape")
    add(_un("m", "int8"), _un("m", "int8"), "narrow-int-out")
    add(_un("m", "bool"), _un("m", "bool"), "bool-out")
    add(_un("degC"), dict(kind="pyscalar", dtype="float64"), "offset-operand")
    add(_un("degC"), _un("degC"), "offset-operand")
    add(_un("degC"), _un("K"), "offset-operand")
    add(_un("K"), _un("degC"), "offset-operand")
    add(_un("degF", "int64"), dict(kind="pyscalar", dtype="int64"), "offset-operand")
    add(_un("cm/m"), dict(kind="pyscalar", dtype="float64"), "reducible-unit")
    add(_un("K*cm/angstrom"), _un("K*cm/angstrom"), "reducible-unit")
    add(_un("km"), _un("1/m", shape="0d"), "valid")
    add(_un("m"), _un("m", "complex128"), "uncastable-result")
    add(_un("m"), _un("cm", shape="0d"), "valid")
    add(_un("m", shape="2d"), _un("cm"), "valid")
    add(_un("m", shape="2d"), _un("cm", shape="2d"), "valid")
    add(_un("m", shape="2d", strided=True), _un("km", shape="2d", strided=True), "valid")
    add(_un("m", shape="0d"), _un("cm", shape="0d"), "valid")
    add(_un("m"), _un("m", "int64"), "nonconstant-exponent")
    return S


def unary_scenarios():
    S = []
    for a, f in [(_un("m"), "valid"), (_un("m", strided=True), "valid"), (_un("dimensionless"), "valid"), (_un("rad"), "valid"),
                 (_un("degree"), "valid"), (_un("m", "int64"), "int-out"), (_un("m", "int8"), "narrow-int-out"), (_un("m", "bool"), "bool-out"),
                 (_un("degC"), "offset-operand"), (_un("cm/m"), "reducible-unit"), (_un("m", ro=True), "readonly"),
                 (_un("m", shape="0d"), "valid"), (_un("m", "complex128"), "valid")]:
        S.append(dict(a=a, b=None, fault=f))
    S.append(dict(a=_un("m"), b=None, fault="bad-kwarg", kwargs={"bogus": 1}))
    return S


def ufunc_specs(tier, rng):
    import unyt

    reg = unyt.unyt_array._ufunc_registry
    rows = sorted(((uf.__name__, uf.nin, uf.nout, fn.__name__) for uf, fn in reg.items() if isinstance(uf, np.ufunc)), key=lambda r: r[0])
    specs = []
    for name, nin, nout, rule in rows:
        if getattr(np, name, None) is None:
            continue
        if nin == 2:
            forms = ["call", "outer", "reduce", "accumulate", "out-self", "out-other", "out-bare"]
            if name in U.OPS:
                forms.append("op")
            if name in U.IOPS:
                forms.append("iop")
            scen = binary_scenarios()
        elif nin == 1:
            forms = ["call", "out-self", "out-other", "out-bare"]
            if name in U.OPS:
                forms.append("op")
            scen = unary_scenarios()
        else:
            continue
        if getattr(np, name).signature is not None:
            # generalised ufuncs: no outer/reduce/accumulate, and an `out=` that overlaps an input is
            # undefined in NumPy itself
            forms = [f for f in forms if f not in ("outer", "reduce", "accumulate", "out-self", "iop")]
        for sc in scen:
            for form in forms:
                if form in ("reduce", "accumulate") and (sc["a"].get("shape", "1d") == "0d"):
                    continue
                if form in ("reduce", "accumulate") and sc["fault"] not in ("valid", "int-out", "offset-operand", "reducible-unit", "bad-kwarg"):
                    continue
                if nout > 1 and form in ("out-self", "out-other", "out-bare", "reduce", "accumulate", "outer"):
                    continue
                if sc["fault"] == "nonconstant-exponent" and name not in ("power", "float_power"):
                    continue
                if sc["fault"] == "readonly" and form not in ("iop", "out-self", "call"):
                    continue
                sp = dict(ufunc=name, form=form, a=sc["a"], b=sc["b"], fault=sc["fault"], rule=rule, nin=nin)
                if form in ("reduce", "accumulate", "op", "iop") and sc.get("kwargs"):
                    continue
                if sc.get("kwargs"):
                    sp["kwargs"] = sc["kwargs"]
                if form in ("reduce", "accumulate"):
                    sp["b"] = None
                specs.append(sp)
                if form in ("out-other", "out-bare") and sc["fault"] == "valid" and sc["a"].get("dtype", "float64") == "float64":
                    # integer out buffers that cannot hold the result, read-only out buffers
                    specs.append(dict(sp, out_dtype="int64", fault="int-out"))
                    specs.append(dict(sp, out_dtype="int8", fault="narrow-int-out"))
                    specs.append(dict(sp, out_ro=True, fault="readonly"))
    # the regions `ufuncGuard` excludes besides offset operands and failing unary rules: a tuple of
    # outputs (plain ndarrays / unyt arrays) and a call without any unyt_array among its inputs
    extra = []
    for name, nin, nout, rule in rows:
        if nout > 1 and getattr(np, name, None) is not None:
            a = _un("m") if name != "frexp" else _un("dimensionless")
            for form in ("out-tuple-bare", "out-tuple-unyt"):
                extra.append(dict(ufunc=name, form=form, a=a, b=(_un("m") if nin == 2 else None), fault="tuple-out", rule=rule, nin=nin, keep=True))
        if nin == 2 and name in ("add", "subtract", "multiply", "divide", "maximum", "less", "arctan2"):
            for form in ("out-other",):
                extra.append(dict(ufunc=name, form=form, a=dict(kind="bare", dtype="float64"), b=dict(kind="bare", dtype="float64"),
                                  fault="plain-inputs", rule=rule, nin=nin, keep=True))
    if tier != "thorough":
        keep, seen = [], {}
        for sp in specs:
            k = (sp["rule"], sp["form"], sp["fault"])
            seen[k] = seen.get(k, 0) + 1
            if sp["ufunc"] in REPRESENTATIVE and (seen[k] <= 3 or rng.random() < 0.5):
                keep.append(sp)
            elif seen[k] <= 1 or rng.random() < 0.12:
                keep.append(sp)
        specs = keep
    return specs + extra


# the unit rules the shared dispatcher model knows (`Ufunc.Rule.ofName`); a rule function added to unyt
# later (e.g. `_floor_divide_units`) is exercised by the direct oracle only until that model follows
MODELLED_RULES = {"_preserve_units", "_difference_units", "_multiply_units", "_divide_units", "_return_without_unit",
                  "_passthrough_unit", "_power_unit", "_sqrt_unit", "_cbrt_unit", "_square_unit", "_reciprocal_unit",
                  "_arctan2_unit", "_comparison_unit", "_invert_units", "_bitop_units", "_floor_divide_units"}


def ufunc_wire(E, sp):
    """model line for an in-place ufunc spec: operands described BEFORE the call"""
    import c01
    import unyt

    tgt = U.target_of(sp)
    if tgt is None or (sp.get("kwargs") and "bogus" in sp["kwargs"]) or sp["form"].startswith("out-tuple"):
        return None
    if sp["rule"] not in MODELLED_RULES:
        return "skip:rule-not-in-shared-dispatcher-model"
    if sp["fault"] == "bad-shape" and (sp.get("b") or {}).get("unit") == "s":
        return None         # double fault: the `==`/`!=` early return then fails in `out[:] = ret[:]` (not modelled)
    uf, a, b, o = U.build(sp)
    out = a if tgt == "a" else o
    outobj = out.obj
    try:
        ins = c01.operand_wire(E, a.obj) + (c01.operand_wire(E, b.obj) if b is not None else [])
        ow = c01.out_wire(E, outobj)
    except ValueError:
        return None
    # NumPy's own verdict on the stripped call
    with np.errstate(all="ignore"):
        try:
            so = np.array(np.asarray(outobj))
            if so.dtype.kind in "ui" and uf.nout == 1:
                so = so.astype(f"f{so.dtype.itemsize}")
            if not outobj.flags.writeable:
                so.flags.writeable = False
            args = [np.array(np.asarray(a.obj))] + ([np.array(np.asarray(b.obj))] if b is not None else [])
            r = uf(*args, out=so)
            ke, ksh = "-", ",".join(str(d) for d in np.shape(r))
        except Exception as e:  # noqa: BLE001
            n = L.exc_class(e)
            ke, ksh = (n if n in ("TypeError", "ValueError") else "Other"), ""
    ou = ["U"] + E.unit_wire(outobj.units) if isinstance(outobj, unyt.unyt_array) else ["N"]
    od = f"{','.join(str(d) for d in outobj.shape)};{outobj.dtype.kind if outobj.dtype.kind in 'fiucb' else 'o'};{outobj.dtype.itemsize}"
    return "\t".join(["c18.iufunc", "40"] + ou + ["f", str(max(outobj.dtype.itemsize, 1))] + [sp["ufunc"], "__call__", str(sp["nin"])]
                     + ins + ow + ["-", ke, ksh, od, "1" if outobj.flags.writeable else "0"])


def compare_ufunc(chk, sp, obs, rep):
    if not rep or rep[0] == "bad-op" or len(rep) < 9:
        chk.disagree("c18.iufunc", f"model rejected {sp}: {rep}")
        return
    tgt = U.target_of(sp)
    head, effs = rep[0], [e for e in rep[1].split(",") if e]
    m_exc = None if head == "ok" else head.split(":", 1)[1]
    o_exc = obs["exc"]
    o_n = {"RecursionError": "RuntimeError", "IndexError": "Other", "AttributeError": "Other"}.get(o_exc, o_exc)
    tag = f"{sp['ufunc']}|{sp['form']}|{sp['fault']}|a={sp['a'].get('unit')}:{sp['a'].get('dtype')} b={(sp.get('b') or {}).get('unit')}:{(sp.get('b') or {}).get('dtype')} out={sp.get('out_dtype')}"
    if (m_exc is None) != (o_n is None) or (m_exc is not None and m_exc != o_n and not (m_exc == "Other" and o_n not in core_model_errs())):
        chk.disagree("c18.iufunc.outcome", f"{tag}: model {m_exc} vs unyt {o_exc} ({obs['msg'][:70]})", sp)
        return
    d = set(obs["delta"][tgt])
    m_written = any(e in ("K", "M") for e in effs) or rep[7] == "0"
    m_retyped = any(e.startswith("R") for e in effs)
    if "numbers" in d and not (m_written or m_retyped):
        chk.disagree("c18.iufunc.numbers", f"{tag}: out numbers changed, model effects {effs}", sp)
    if ("dtype" in d) != m_retyped:
        chk.disagree("c18.iufunc.dtype", f"{tag}: dtype changed={'dtype' in d}, model effects {effs}", sp)
    # the unit label after the call
    au = obs["after"][tgt].get("unit")
    if au is not None:
        m_scale, m_off, m_dim = core.b2f(rep[3]), core.b2f(rep[4]), rep[5]
        import unyt

        try:
            want_dim = gen.dim_vec(unyt.Unit(au[0]).dimensions)
        except Exception:  # noqa: BLE001
            want_dim = None
        if want_dim is not None and (want_dim != m_dim or not core.close(au[1], m_scale, rtol=1e-9) or not core.close(au[2], m_off, rtol=1e-9, atol=1e-12)):
            chk.disagree("c18.iufunc.unit", f"{tag}: out labelled {au[0]} (scale {au[1]}), model scale {m_scale} dim {m_dim} effects {effs}", sp)
    if m_exc is not None and m_written and "numbers" not in d and "K" in effs and sp["fault"] in ("offset-operand", "reducible-unit"):
        chk.disagree("c18.iufunc.numbers", f"{tag}: model says the kernel wrote before the failure, unyt left the numbers", sp)


def run_ufuncs(chk, M, tier):
    import c01

    E = c01.Env()
    specs = ufunc_specs(tier, chk.rng)
    lines, idx, results = [], [], []
    for sp in specs:
        w = None
        try:
            w = ufunc_wire(E, sp)
        except Exception as e:  # noqa: BLE001
            chk.disagree("c18.iufunc.wire", f"{sp}: {type(e).__name__}: {e}")
        obs = U.run_case(sp)
        results.append(obs)
        chk.case(("ufunc", sp["ufunc"], sp["form"], sp["fault"], sp["a"].get("unit"), sp["a"].get("dtype"), sp["a"].get("shape"),
                  (sp.get("b") or {}).get("unit"), (sp.get("b") or {}).get("kind"), sp.get("out_dtype")),
                 {"call": f"np.{sp['ufunc']}[{sp['form']}]", "fault": sp["fault"], "raised": obs["exc"], "changed": obs["delta"]}
                 if chk.evaluations % 211 == 0 else None)
        chk.count(f"ufunc:{sp['form']}:{'raise' if obs['exc'] else 'ok'}")
        for key, what in U.judge(sp, obs, sp["rule"]):
            chk.fail(key, what, {"python": U.replay_snippet(sp, key, sp["rule"], HARNESS), "spec": sp,
                                 "observed": {"raised": obs["exc"], "changed": obs["delta"]}})
        if isinstance(w, str) and w.startswith("skip:"):
            chk.count("ufunc:" + w[5:])
        elif w is not None:
            lines.append(w)
            idx.append(len(results) - 1)
    reps = M.ask(lines)
    for i, rep in zip(idx, reps):
        compare_ufunc(chk, specs[i], results[i], rep)
    chk.count("ufunc:model-lines", len(lines))


# ----------------------------------------------------------------------------------------------
# D. the npcatalog sweep (direct oracle only)


def check_alias_table(chk, M):
    """the may-alias table read back: every live `__array_function__` handler is a routine of the table with the
    parameter list `inspect.signature` reports (ties the ast abstraction to the live objects)"""
    import inspect

    try:
        A = json.load(open(os.path.join(core.BUILD, "extract_c18_alias.json"), encoding="utf-8"))
    except Exception as e:  # noqa: BLE001
        chk.disagree("translator", f"no extract_c18_alias.json: {e}")
        return
    import unyt._array_functions as AF

    hs = sorted({h.__name__: h for h in AF._HANDLED_FUNCTIONS.values()}.items())
    reps = M.ask([f"c18.af.params\t{n}" for n, _ in hs] + ["c18.af.nroutines"])
    for (n, h), rep in zip(hs, reps):
        chk.case(("alias-table", n))
        live = list(inspect.signature(h).parameters)
        got = list(rep)
        if got[0] != "ok" or [x for x in (got[1].split(",") if len(got) > 1 else []) if x] != live:
            chk.disagree("c18.af.params", f"handler {n}: live parameters {live}, table {rep!r}")
    if list(reps[-1]) != ["ok", str(len(A['routines']))]:
        chk.disagree("c18.af.nroutines", f"driver table {reps[-1]!r} vs translator {len(A['routines'])}")
    chk.count("alias:handlers-read-back", len(hs))


def compare_alias_observations(chk, M, obs):
    """catalogue observations vs the may-alias verdict: an operand bound to parameter p of handler h that CHANGED must
    be a parameter the model says may be written (a change with verdict `false` contradicts array_functions_leave_inputs_intact:
    the abstraction missed a write path)"""
    hs = sorted({k.split("\t")[0] for k in obs})
    reps = M.ask([f"c18.af.written\t{h}" for h in hs] + [f"c18.af.params\t{h}" for h in hs])
    def names(r):
        return [x for x in (r[1].split(",") if len(r) > 1 else []) if x]

    written = {h: (names(r) if r and r[0] == "ok" else None) for h, r in zip(hs, reps[:len(hs)])}
    params = {h: (names(r) if r and r[0] == "ok" else []) for h, r in zip(hs, reps[len(hs):])}
    for k, (n, changed) in sorted(obs.items()):
        h, par = k.split("\t")
        chk.case(("alias-obs", h, par))
        chk.count("alias:operand-observations", n)
        if written[h] is None or par not in params[h]:
            chk.disagree("c18.af.written", f"handler {h} parameter {par}: not in the regenerated table")
            continue
        if changed and par not in written[h]:
            chk.disagree("c18.af.written", f"handler {h}: operand bound to parameter {par} changed in {changed} of {n} calls, the model's verdict is 'cannot be written' (written: {written[h]})")
        elif par in written[h]:
            chk.count("alias:verdict-may-write:" + ("observed" if changed else "not-observed"))
        else:
            chk.count("alias:verdict-intact:confirmed")


def run_catalogue(chk, tier, seed, M=None):
    import multiprocessing

    import c18_cat as K
    import npcatalog as C

    n = len(C.templates())
    step = 40
    faults = list(K.FAULTS)
    if tier == "quick":
        # every template with valid inputs in both unit assignments (same units / differently scaled
        # commensurable units); the injected faults on a seeded sample
        jobs = [(lo, min(lo + step, n), 5000 + seed * 17, faults, seed, 0.12, False) for lo in range(0, n, step)]
        jobs += [(lo, min(lo + step, n), 5000 + seed * 17, ["valid"], seed, 1.0, True) for lo in range(0, n, step)]
    else:
        jobs = [(lo, min(lo + step, n), 7000 + seed * 29 + r, faults, seed * 3 + r, 1.0 if r == 0 else 0.3, r == 1)
                for r in range(2) for lo in range(0, n, step)]
    with multiprocessing.get_context("fork").Pool(4) as pool:
        results = pool.map(K.sweep, jobs, chunksize=1)
    obs = {}
    for res in results:
        for k, (n_obs, n_chg) in res.get("obs", {}).items():
            e = obs.setdefault(k, [0, 0])
            e[0] += n_obs
            e[1] += n_chg
    if M is not None:
        compare_alias_observations(chk, M, obs)
    for res in results:
        for k, v in res["stats"].items():
            chk.count("cat:" + k, v)
        for c in res["cases"]:
            chk.case(("cat",) + tuple(c))
        for key, f in res["fails"].items():
            chk.fail(key, f["what"], {"python": K.replay_snippet(f["tid"], f["dk"], f["sc"], f["seed"], f["fault"], f["pos"], f["om"], f["alt"], key, HARNESS, f.get("fuse")),
                                      "case": {k: f.get(k) for k in ("tid", "dk", "sc", "seed", "fault", "pos", "om", "alt", "fuse")}})
    chk.extra["catalogue_templates"] = n


# ----------------------------------------------------------------------------------------------
# E. the witnesses of the `_counterexample` theorems, replayed on the real code on every run

WITNESSES = [
    # (theorem, section, spec, the oracle key the witness must produce — None: the call must produce NO finding —,
    #  must the call return?)
    # fixed by C18-01 / C18-03: the calls still raise, and must leave the array untouched
    ("failed_convert_to_units_has_no_effects / convert_to_units_unpatched_violates", "conv",
     dict(route="convert_to_units", unit="km", target="m", dtype="int8", shape="1d", ro=False, fault="valid"), None, False),
    ("failed_convert_to_units_has_no_effects / convert_to_units_unpatched_late_faults", "conv",
     dict(route="convert_to_units", unit="km", target="m", dtype="bool", shape="1d", ro=False, fault="valid"), None, False),
    ("failed_convert_to_units_has_no_effects / convert_to_units_unpatched_late_faults", "conv",
     dict(route="convert_to_units", unit="km", target="m", dtype="float64", shape="1d", ro=True, fault="readonly"), None, False),
    ("failed_convert_to_units_has_no_effects / convert_to_units_unpatched_late_faults", "conv",
     dict(route="convert_to_units", unit="km", target="m", dtype="int64", shape="1d", ro=True, fault="readonly"), None, False),
    # fixed by C18-02
    ("simplify_copy_has_no_effects / simplify_unpatched_mutates", "conv",
     dict(route="units.simplify", unit="cm/m", target="m", dtype="float64", shape="1d", ro=False, fault="valid"), None, True),
    # fixed by db741b8 (post-multiplication on the raw buffer)
    ("convert_to_equivalent_raw_returns", "conv",
     dict(route="convert_to_equivalent", unit="K*cm/angstrom", target="J", equivalence="thermal", kwargs={}, dtype="float64",
          shape="1d", ro=False, fault="reducible-unit"), None, True),
    ("raw_rescale_returns", "ufunc",
     dict(ufunc="multiply", form="iop", a=_un("cm/m"), b=dict(kind="pyscalar", dtype="float64"), fault="reducible-unit",
          rule="_multiply_units", nin=2), None, True),
    # still open
    ("offset_multiply_counterexample", "ufunc",
     dict(ufunc="multiply", form="iop", a=_un("degC"), b=dict(kind="pyscalar", dtype="float64"), fault="offset-operand",
          rule="_multiply_units", nin=2),
     "ufunc|_multiply_units|out=|offset-operand|raised-InvalidUnitOperation|numbers", False),
    ("int_out_retyped_counterexample", "ufunc",
     dict(ufunc="add", form="out-self", a=_un("m", "int64"), b=_un("cm", "int64", shape="bad"), fault="bad-shape",
          rule="_preserve_units", nin=2),
     "ufunc|out=|int-retyped-on-failure", False),
    ("plain_inputs_counterexample", "ufunc",
     dict(ufunc="add", form="out-other", a=dict(kind="bare", dtype="float64"), b=dict(kind="bare", dtype="float64"),
          fault="plain-inputs", rule="_preserve_units", nin=2),
     "ufunc|any-rule|out=|plain-inputs|raised-TypeError|numbers", False),
    ("tuple_out_counterexample", "ufunc",
     dict(ufunc="modf", form="out-tuple-bare", a=_un("m"), b=None, fault="tuple-out", rule="_passthrough_unit", nin=1),
     "ufunc|any-rule|out=|tuple-out|raised-AttributeError|numbers", False),
    ("unary_rule_failure_counterexample", "ufunc",
     dict(ufunc="sqrt", form="out-self", a=_un("degC"), b=None, fault="offset-operand", rule="_sqrt_unit", nin=1),
     "ufunc|_sqrt_unit|out=|offset-operand|raised-InvalidUnitOperation|numbers", False),
    # fixed by 5bfd46b (C01-04): a refusal by the unit checks leaves an integer out= alone
    ("unit_refusal_leaves_integer_out_alone", "ufunc",
     dict(ufunc="add", form="out-self", a=_un("m", "int64"), b=_un("s", "int64"), fault="incommensurable", rule="_preserve_units", nin=2),
     None, False),
]


def run_witnesses(chk):
    for thm, sec, sp, key, must_return in WITNESSES:
        chk.case(("witness", thm, key))
        if sec == "conv":
            obs = V.run_case(sp)
            found = V.judge(sp, obs)
        else:
            obs = U.run_case(sp)
            found = U.judge(sp, obs, sp["rule"])
        keys = [k for k, _ in found]
        for k, what in found:
            sn = (V.replay_snippet(sp, k, HARNESS) if sec == "conv" else U.replay_snippet(sp, k, sp["rule"], HARNESS))
            chk.fail(k, what, {"python": sn, "spec": sp, "theorem": thm})
        if must_return and obs["exc"] is not None:
            chk.disagree("witness", f"theorem {thm} says the call returns; on the real code it raises {obs['exc']}")
        if key is None:
            pass        # any finding was reported by chk.fail above
        elif key not in keys:
            chk.disagree("witness", f"the witness of theorem {thm} no longer fails on the real code (expected {key}, got {keys}; raised {obs['exc']})")


# ----------------------------------------------------------------------------------------------


def run(tier, seed):
    chk = core.Check("C18", tier, seed)
    for fp in FOREIGN_PLUGINS:
        _status, xerr = core.run_extract((fp,))
        chk.count("foreign-table-refresh:" + fp + (":failed" if xerr else ":ok"))
    chk.proof = core.prove("C18", PROOF_MODULES, extra_targets=("drv_c18",), plugins=PLUGINS, tier=tier)
    try:
        X = json.load(open(os.path.join(core.BUILD, "extract_c18_order.json"), encoding="utf-8"))
    except Exception as e:  # noqa: BLE001
        chk.disagree("translator", f"no extract_c18_order.json: {e}")
        return chk.finish(RULE)
    gen._EXTRACT = None
    M = core.Model("drv_c18")
    check_tables(chk, M, X)
    check_alias_table(chk, M)
    run_conversions(chk, M, tier)
    compare_method_alias(chk, M)
    run_ufuncs(chk, M, tier)
    run_witnesses(chk)
    run_catalogue(chk, tier, seed, M)
    return chk.finish(RULE, "effect-ordering theorems + ast-regenerated statement order; snapshots validate the effect lists")
