"""Seeded generators and wire encoders shared by the property harnesses."""
import json
import os
from fractions import Fraction

import numpy as np
import sympy

import core

_EXTRACT = None


def extract():
    global _EXTRACT
    if _EXTRACT is None:
        _EXTRACT = json.load(open(os.path.join(core.BUILD, "extract.json"), encoding="utf-8"))
    return _EXTRACT


def rat_str(q):
    q = Fraction(int(sympy.Rational(q).p), int(sympy.Rational(q).q)) if not isinstance(q, Fraction) else q
    return str(q.numerator) if q.denominator == 1 else f"{q.numerator}/{q.denominator}"


def expr_wire(expr):
    """sympy unit expression -> (coeff_bits, 'sym:p/q;…'); raises ValueError when the
    expression is outside the modelled vocabulary."""
    expr = sympy.sympify(expr)
    coeff, rest = expr.as_coeff_Mul()
    if not coeff.is_number:
        raise ValueError("non-numeric coefficient")
    pd = rest.as_powers_dict()
    items = []
    c = float(coeff)
    for base, p in pd.items():
        if base == 1:
            continue
        if base.is_Number or (base.is_number and not base.free_symbols):
            # numeric factor such as sqrt(2): fold into the coefficient
            c *= float(base ** p)
            continue
        if not isinstance(base, sympy.Symbol):
            raise ValueError(f"non-symbol base {base!r}")
        p = sympy.Rational(p) if p.is_Rational else None
        if p is None:
            raise ValueError("non-rational exponent")
        items.append((str(base), Fraction(int(p.p), int(p.q))))
    items.sort()
    fac = ";".join(f"{s}:{rat_str(q)}" for s, q in items if q != 0)
    return core.f2b(c), fac


def parse_factors(s):
    out = {}
    if s:
        for item in s.split(";"):
            n, q = item.rsplit(":", 1)
            out[n] = out.get(n, Fraction(0)) + Fraction(q)
    return {k: v for k, v in out.items() if v != 0}


def unit_factors(u):
    """exponent map of a real Unit's expression"""
    _c, fac = expr_wire(u.expr)
    return parse_factors(fac)


def dim_vec(d):
    """sympy dimension -> list of 8 strings, as the translator prints them"""
    import unyt.dimensions as ud

    base = [ud.mass, ud.length, ud.time, ud.temperature, ud.angle, ud.current_mks, ud.luminous_intensity, ud.logarithmic]
    pd = sympy.sympify(d).as_powers_dict()
    vec = [Fraction(0)] * 8
    for sym, p in pd.items():
        if sym == 1:
            continue
        for i, b in enumerate(base):
            if sym == b:
                vec[i] += Fraction(int(sympy.Rational(p).p), int(sympy.Rational(p).q))
                break
        else:
            raise ValueError(f"non-base dimension atom {sym}")
    return ",".join(rat_str(v) for v in vec)


def unit_wire_fields(u):
    """the 5 fields describing a real Unit to the model: scale, offset, dim, coeff, factors"""
    c, fac = expr_wire(u.expr)
    return [str(core.f2b(u.base_value)), str(core.f2b(u.base_offset)), dim_vec(u.dimensions), str(c), fac]


# ---------------------------------------------------------------------------------------
# unit pools

EXPONENTS = [Fraction(1), Fraction(-1), Fraction(2), Fraction(-2), Fraction(3), Fraction(-3),
             Fraction(1, 2), Fraction(-1, 2), Fraction(1, 3), Fraction(-1, 3), Fraction(2, 3),
             Fraction(-2, 3), Fraction(3, 2), Fraction(-3, 2)]


def atomic_symbols():
    return list(extract()["lut"].keys())


def prefix_keys():
    return list(extract()["prefixes"].keys())


def prefixable_symbols():
    return [k for k, v in extract()["lut"].items() if v[3]]


def names_by_dim():
    """dimension string -> [canonical symbols incl. a sample of prefixed forms]"""
    ex = extract()
    out = {}
    for k, v in ex["lut"].items():
        out.setdefault(",".join(v[2]), []).append(k)
    return out


def random_compound(rng, max_factors=4, zero_offset_only=True, pool=None):
    """a random compound unit string over atomic (optionally prefixed) symbols"""
    ex = extract()
    syms = pool or [k for k, v in ex["lut"].items() if (v[1] == 0 or not zero_offset_only)]
    pre = [p for p in ex["prefixes"] if p not in ("µ",)]
    n = rng.randint(1, max_factors)
    parts = []
    for _ in range(n):
        s = rng.choice(syms)
        if ex["lut"][s][3] and rng.random() < 0.4:
            s = rng.choice(pre) + s
        e = rng.choice(EXPONENTS)
        if e == 1:
            parts.append(s)
        elif e.denominator == 1:
            parts.append(f"{s}**{e.numerator}" if e > 0 else f"{s}**({e.numerator})")
        else:
            parts.append(f"{s}**({e.numerator}/{e.denominator})")
    return "*".join(parts)


def data(rng, shape, dtype="float64", lo=-3, hi=3):
    """seeded data with magnitudes over several decades"""
    n = int(np.prod(shape)) if shape else 1
    vals = []
    for _ in range(n):
        m = rng.uniform(1.0, 10.0) * 10 ** rng.randint(lo, hi)
        if rng.random() < 0.3:
            m = -m
        vals.append(m)
    arr = np.array(vals, dtype="float64").reshape(shape)
    dt = np.dtype(dtype)
    if dt.kind in "iu":
        arr = np.round(np.abs(arr) % 1000 + 1)
        if dt.kind == "i" and rng.random() < 0.3:
            arr = -arr
    if dt.kind == "c":
        arr = arr + 1j * arr[::-1] if arr.ndim else arr + 1j * (arr / 3)
    return arr.astype(dt)
