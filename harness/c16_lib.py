"""C16 helpers: wire encoders for the shape/class model, canonical inputs, index-form and
operation catalogues.  Everything here is deterministic; randomness comes from the rng passed in."""
import numpy as np

# ------------------------------------------------------------------------------------------
# wire encoding


def shape_w(s):
    s = tuple(int(d) for d in s)
    return "()" if not s else "x".join(str(d) for d in s)


def ints_w(t):
    t = list(t)
    return "()" if not t else ",".join(str(int(v)) for v in t)


def parse_shape_w(s):
    return () if s == "()" else tuple(int(d) for d in s.split("x"))


def ix_item_w(it):
    """one index item -> wire; raises ValueError for forms outside the model's vocabulary"""
    if it is Ellipsis:
        return "e"
    if it is None:
        return "n"
    if isinstance(it, (bool, np.bool_)):
        return f"m:():{1 if it else 0}"
    if isinstance(it, (int, np.integer)):
        return f"i:{int(it)}"
    if isinstance(it, slice):
        def o(v):
            return "_" if v is None else str(int(v))
        return f"s:{o(it.start)}:{o(it.stop)}:{1 if it.step is None else int(it.step)}"
    if isinstance(it, (list, np.ndarray)):
        arr = np.asarray(it)
        if arr.dtype == bool:
            return f"m:{shape_w(arr.shape)}:{int(arr.sum())}"
        if arr.size == 0:
            return f"f:{shape_w(arr.shape)}:0:0"
        if arr.dtype.kind not in "iu":
            raise ValueError("non-integer index array")
        return f"f:{shape_w(arr.shape)}:{int(arr.min())}:{int(arr.max())}"
    raise ValueError(f"index item {it!r}")


def index_w(ix):
    items = ix if isinstance(ix, tuple) else (ix,)
    if not items:
        return "()"
    return ";".join(ix_item_w(i) for i in items)


def index_src(ix):
    """python source of an index object (for replay snippets)"""
    def one(it):
        if it is Ellipsis:
            return "Ellipsis"
        if it is None:
            return "None"
        if isinstance(it, slice):
            return f"slice({it.start!r}, {it.stop!r}, {it.step!r})"
        if isinstance(it, np.ndarray):
            return f"np.array({it.tolist()!r}, dtype={'bool' if it.dtype == bool else 'int'}).reshape({it.shape!r})"
        if isinstance(it, (np.integer,)):
            return str(int(it))
        if isinstance(it, np.bool_):
            return str(bool(it))
        return repr(it)
    if isinstance(ix, tuple):
        return "(" + ", ".join(one(i) for i in ix) + ("," if len(ix) == 1 else "") + ")"
    return one(ix)


def index_kind(ix):
    items = ix if isinstance(ix, tuple) else (ix,)
    adv = any(isinstance(i, (list, np.ndarray, bool, np.bool_)) for i in items)
    return "advanced" if adv else "basic"


# ------------------------------------------------------------------------------------------
# canonical inputs

SHAPES_QUICK = [(), (1,), (3,), (0,), (1, 1), (2, 3), (1, 3), (3, 1), (0, 3), (2, 3, 2), (1, 1, 1), (2, 1, 3)]
SHAPES_MORE = [(2,), (5,), (2, 0), (1, 0), (3, 2, 1), (1, 2, 1), (2, 2, 2), (0, 2, 3), (4, 1, 1), (1, 4), (2, 0, 1)]


def base_array(shape):
    n = int(np.prod(shape)) if shape else 1
    return (np.arange(n, dtype=float) + 1.0).reshape(shape)


SETUP = (
    "import warnings; warnings.simplefilter('ignore')\n"
    "import numpy as np, unyt\n"
    "from unyt import unyt_array, unyt_quantity, Unit\n"
    "m = Unit('m'); cm = Unit('cm'); s = Unit('s')\n"
    "class subA(unyt_array): pass\n"
    "class subQ(unyt_quantity): pass\n"
)


def setup_src(shape, kind="A"):
    """source defining a (bare), x (parent), q (a scalar quantity) for a shape.
    kind: 'A' unyt_array of that shape; 'Q' unyt_quantity (shape must be ()); 'Q1' a size-1
    non-scalar quantity (shape (1,), built with the constructor from a one-element ndarray);
    'S' user subclass of unyt_array"""
    src = SETUP + f"a = (np.arange({int(np.prod(shape)) if shape else 1}, dtype=float) + 1.0).reshape({tuple(shape)!r})\n"
    src += "q = unyt_quantity(3.0, 'm', name='p')\n"
    if kind == "A":
        src += "x = unyt_array(a.copy(), 'm', name='p')\n"
    elif kind == "Q":
        src += "x = unyt_quantity(float(a), 'm', name='p')\n"
    elif kind == "Q1":
        src += "x = unyt_quantity(np.array([float(a.flat[0])]), 'm', name='p')\n"
    elif kind == "S":
        src += "x = subA(a.copy(), 'm', name='p')\n"
    else:
        raise ValueError(kind)
    return src


def make_env(shape, kind="A"):
    env = {}
    exec(setup_src(shape, kind), env)
    return env


ORACLE_SRC = (
    "def _bad(t):\n"
    "    if not isinstance(t, unyt_array):\n"
    "        return None\n"
    "    if t.shape == () and not isinstance(t, unyt_quantity):\n"
    "        return 'zero-d-array'\n"
    "    if t.size > 1 and isinstance(t, unyt_quantity):\n"
    "        return 'multi-quantity'\n"
    "    return None\n"
    "def _flat(r):\n"
    "    if isinstance(r, (tuple, list)):\n"
    "        out = []\n"
    "        for t in r:\n"
    "            out += _flat(t)\n"
    "        return out\n"
    "    return [r]\n"
)

_ns = {}
exec("from unyt import unyt_array, unyt_quantity\n" + ORACLE_SRC, _ns)
bad = _ns["_bad"]
flat = _ns["_flat"]


def cls_name(r, env=None):
    import unyt

    t = type(r)
    if t is unyt.unyt_quantity:
        return "unyt_quantity"
    if t is unyt.unyt_array:
        return "unyt_array"
    if isinstance(r, unyt.unyt_quantity):
        return "subQ"
    if isinstance(r, unyt.unyt_array):
        return "subA"
    if isinstance(r, np.ndarray):
        return "ndarray"
    if isinstance(r, np.generic):
        return "npscalar"
    return t.__name__


# ------------------------------------------------------------------------------------------
# index forms


def index_forms(shape, rng, n_random):
    """deterministic catalogue of index objects for an array of this shape, plus seeded ones"""
    r = len(shape)
    d0 = shape[0] if r else 0
    out = [(), Ellipsis, None, (None, Ellipsis), (Ellipsis, None), (Ellipsis, Ellipsis), True, False,
           np.array(True), (None, None), (True, None)]
    # integers
    out += [0, -1, d0, -d0 - 1, 1]
    for k in range(1, r + 2):
        out.append((0,) * k)
        out.append((-1,) * k)
    # slices
    sl = [slice(None), slice(1, None), slice(None, -1), slice(None, None, 2), slice(None, None, -1), slice(5, 2),
          slice(-100, 100), slice(1, 1), slice(None, None, -2), slice(2, None, -1), slice(0, 1), slice(-1, None),
          slice(100, None), slice(None, -100, -1), slice(0, None, 3)]
    out += sl
    for s1 in sl[:6]:
        out += [(s1, 0), (0, s1), (Ellipsis, s1), (s1, Ellipsis), (s1, None), (None, s1), (s1, s1), (Ellipsis, 0),
                (0, Ellipsis), (s1, None, s1), (0, None), (None, 0), (s1, s1, s1), (0, s1, 0), (Ellipsis, 0, s1)]
    # masks
    if r >= 1:
        full = np.ones(shape, dtype=bool)
        some = full.copy()
        if some.size:
            some.flat[0] = False
        none_ = np.zeros(shape, dtype=bool)
        m1 = np.ones((d0,), dtype=bool)
        m1b = m1.copy()
        if d0:
            m1b[-1] = False
        out += [full, some, none_, m1, m1b, (m1, Ellipsis), (m1b, slice(None)), (slice(None), m1), (m1b, 0), (0, m1),
                (m1b, None), (None, m1b), np.ones((d0 + 1,), dtype=bool), (full, None), (Ellipsis, full)]
        if r >= 2:
            m2 = np.ones((shape[1],), dtype=bool)
            if shape[1]:
                m2[0] = False
            out += [(slice(None), m2), (m1b, m2), (0, m2), (Ellipsis, m2), (m1, slice(None), None), (np.ones(shape[:2], dtype=bool),),
                    (np.ones(shape[:2], dtype=bool), Ellipsis), (slice(None), m2, None)]
    # integer arrays
    z = [0] if d0 else []
    zz = [0, 0] if d0 else []
    last = [d0 - 1, 0] if d0 else []
    out += [z, zz, last, np.array(0), np.array([], dtype=int), [[0], [0]] if d0 else np.zeros((2, 0), dtype=int),
            [d0], [-d0 - 1], np.array([[0, 0, 0]]) if d0 else np.zeros((1, 0), dtype=int), (zz, Ellipsis), (Ellipsis, zz),
            (zz, None), (None, zz), (np.array(0), Ellipsis), (0, zz), (zz, 0), (zz, slice(None)), (slice(None), zz),
            (zz, zz), (zz, z), (zz, [0, 0, 0]), (True, zz), (zz, True), (np.array(0), 0), (np.array(0), np.array(0))]
    if r >= 2:
        d1 = shape[1]
        w = [0, 0] if d1 else []
        out += [(zz, w), (zz, slice(None), None), (slice(None), w), (zz, None, w), (0, w), (w, 0) if False else (zz, 0),
                ([[0], [0]] if d0 else zz, w), (zz, Ellipsis, w), (Ellipsis, zz, w), (zz, w, Ellipsis), (0, slice(None), None, w) if r >= 3 else (0, None, w),
                (slice(None), np.array(0)), (np.array(0), slice(None))]
    if r >= 3:
        d2 = shape[2]
        v = [0, 0] if d2 else []
        out += [(zz, slice(None), v), (slice(None), w, v), (zz, w, v), (0, slice(None), v), (zz, slice(None), 0), (slice(None), 0, v),
                (zz, Ellipsis, v), (slice(None), zz if False else w, slice(None)), (zz, slice(None), slice(None)), (slice(None), slice(None), v),
                (0, w, slice(None)), (slice(None), w, 0), (zz, None, slice(None), v), (None, zz, w, v), (zz, slice(1, None), [[0], [0]] if d2 else v)]
    # seeded combinations
    for _ in range(n_random):
        k = rng.randint(1, r + 1)
        items = []
        for j in range(k):
            d = shape[j] if j < r else 1
            c = rng.choice("iisssenfmb")
            if c == "i":
                items.append(rng.randint(-d, d - 1) if d else 0)
            elif c == "s":
                lo = rng.choice([None, rng.randint(-d - 1, d + 1)])
                hi = rng.choice([None, rng.randint(-d - 1, d + 1)])
                st = rng.choice([None, 1, 2, -1, -2, 3])
                items.append(slice(lo, hi, st))
            elif c == "e":
                items.append(Ellipsis if not any(i is Ellipsis for i in items) else slice(None))
            elif c == "n":
                items.append(None)
            elif c == "f":
                shp = rng.choice([(2,), (1,), (), (2, 1), (1, 2), (0,)])
                n = int(np.prod(shp)) if shp else 1
                vals = [rng.randint(-d, d - 1) if d else 0 for _ in range(n)]
                items.append(np.array(vals, dtype=int).reshape(shp))
            elif c == "m":
                mm = np.array([rng.random() < 0.6 for _ in range(d)], dtype=bool).reshape((d,))
                items.append(mm)
            else:
                items.append(rng.random() < 0.5)
        out.append(tuple(items))
    return out
