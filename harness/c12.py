"""C12 — registry edits take effect everywhere, immediately, regardless of history.

Correspondence: histories over a small alphabet on two symbols (exhaustive up to a length bound,
random beyond) are executed on a real custom `UnitRegistry` and on the compiled Lean machine
`RegC12.step` (drv_c12, configuration regenerated from the live source); every op's outcome,
the identity classes of the returned `Unit` objects (cache hits), the `unit_system_id` classes,
and the table / string-cache contents are compared.

Direct oracle (never consults the model): the harness keeps its own record of the registry's
*contents* (symbol -> entry, updated by the documented meaning of add / modify / remove /
define_unit), builds a genuinely fresh registry from it and compares the resolution of a probe
set (symbol, prefixed forms, compounds, `in`, `[]`, `unit_system_id`, conversions, arithmetic);
it also checks that edits succeed / fail as the contents say and that `Unit` objects created
earlier keep their value.
"""
import hashlib
import itertools
import multiprocessing
import os
import random

import core
import gen

PROOF_MODULES = ["UnytProofs.C12", "UnytProofs.C12Alias", "UnytProofs.C12Macro", "UnytProofs.C12AliasMacro"]

SYM, SYM2 = "foo", "zot"

# ----------------------------------------------------------------------------------------
# the alphabet: (name, kind, python source acting on `r`, model line builder, spec effect)
# dims are given as python source over `D` (unyt.dimensions)

DIMS = {"length": "D.length", "time": "D.time", "length/time": "D.length/D.time"}


def _ops():
    f = core.f2b
    L, T = "0,1,0,0,0,0,0,0", "0,0,1,0,0,0,0,0"
    return {
        "add_foo1": dict(kind="add", py=f"r.add('{SYM}', 2.0, D.length, prefixable=True)",
                         model=f"c12.add\t{SYM}\t{f(2.0)}\t{L}\t{f(0.0)}\t1", spec=("add", SYM, (2.0, "length", 0.0, True))),
        "add_foo2": dict(kind="add", py=f"r.add('{SYM}', 5.0, D.time)",
                         model=f"c12.add\t{SYM}\t{f(5.0)}\t{T}\t{f(0.0)}\t0", spec=("add", SYM, (5.0, "time", 0.0, False))),
        "addbad_foo": dict(kind="add", py=f"r.add('{SYM}', 2, D.length)", model=f"c12.addbad\t{SYM}", spec=("noop",)),
        "modf_foo": dict(kind="modify", py=f"r.modify('{SYM}', 3.0)", model=f"c12.modf\t{SYM}\t{f(3.0)}", spec=("modf", SYM, 3.0)),
        "modq_foo": dict(kind="modify", py=f"r.modify('{SYM}', unyt_quantity(7.0, 'km/s', registry=r))",
                         model=f"c12.modqu\t{SYM}\t{f(7.0)}\tkm/s", spec=("modq", SYM, 7.0, "km/s")),
        "modq2_foo": dict(kind="modify", py=f"r.modify('{SYM}', unyt_quantity(4.0, 'km', registry=r))",
                          model=f"c12.modqu\t{SYM}\t{f(4.0)}\tkm", spec=("modq", SYM, 4.0, "km")),
        "modi_foo": dict(kind="modify", py=f"r.modify('{SYM}', 6)", model=f"c12.modf\t{SYM}\t{f(6.0)}", spec=("modf", SYM, 6.0)),
        "rm_foo": dict(kind="remove", py=f"r.remove('{SYM}')", model=f"c12.rm\t{SYM}", spec=("rm", SYM)),
        "def_zot": dict(kind="add", py=f"define_unit('{SYM2}', (3.0, 'k{SYM}'), prefixable=True, registry=r)",
                        model=f"c12.defunit\t{SYM2}\t{f(3.0)}\tk{SYM}\t1", spec=("def", SYM2, 3.0, "k" + SYM, True)),
        # a user symbol under the spelling of a prefixed one (after a look-up of `kfoo` the key is a written-back
        # entry: the explicit row must replace it for good — seeded change C12-c)
        "add_kfoo": dict(kind="add", py=f"r.add('k{SYM}', 5.0, D.time)",
                         model=f"c12.add\tk{SYM}\t{f(5.0)}\t{T}\t{f(0.0)}\t0", spec=("add", "k" + SYM, (5.0, "time", 0.0, False))),
        "modf_kfoo": dict(kind="modify", py=f"r.modify('k{SYM}', 7.0)", model=f"c12.modf\tk{SYM}\t{f(7.0)}", spec=("modf", "k" + SYM, 7.0)),
        "rm_kfoo": dict(kind="remove", py=f"r.remove('k{SYM}')", model=f"c12.rm\tk{SYM}", spec=("rm", "k" + SYM)),
        "u_foo": dict(kind="look", py=f"Unit('{SYM}', registry=r)", model=f"c12.unit\t{SYM}", spec=("noop",)),
        "u_kfoo": dict(kind="look", py=f"Unit('k{SYM}', registry=r)", model=f"c12.unit\tk{SYM}", spec=("noop",)),
        "u_foo_s": dict(kind="look", py=f"Unit('{SYM}*s', registry=r)", model=f"c12.unit\t{SYM}*s", spec=("noop",)),
        "has_Mfoo": dict(kind="look", py=f"('M{SYM}' in r)", model=f"c12.has\tM{SYM}", spec=("noop",)),
        "sysid": dict(kind="look", py="r.unit_system_id", model="c12.sysid", spec=("noop",)),
    }


OPS = _ops()
ALPHABET = list(OPS)
# the probe set evaluated after every history, in this order, on the registry and on the fresh one
PROBES = [
    ("sysid", ""),
    ("unit", SYM), ("unit", "k" + SYM), ("unit", "M" + SYM), ("unit", SYM + "*s"), ("unit", "k" + SYM + "/s"),
    ("unit", SYM + "**2"), ("unit", SYM2), ("unit", "k" + SYM2), ("unit", SYM2 + "*" + SYM),
    ("has", SYM), ("has", "k" + SYM), ("get", "k" + SYM), ("get", SYM2),
]

FAMILY = {"add": "add", "addbad": "add", "modf": "modify", "modi": "modify", "modq": "modify-quantity", "modq2": "modify-quantity", "rm": "remove", "def": "define_unit",
          "u": "look", "has": "look", "sysid": "look"}


def family(name):
    return FAMILY[name.split("_")[0]]

STRINGS = sorted({q for k, q in PROBES if k == "unit"} | {"km/s", "km", SYM, "k" + SYM, SYM + "*s"})


def spelling(q):
    if any(c in q for c in "*/ "):
        return "compound"
    if q in (SYM, SYM2):
        return "atomic"
    return "prefixed"


# ----------------------------------------------------------------------------------------
# the oracle's own record of the contents (the documented meaning of the edits)


class Contents:
    """symbol -> (base_value, dims key, offset, prefixable) for user-level symbols; resolution of a
    unit string against the contents is obtained from a genuinely fresh registry"""

    def __init__(self):
        self.user = {}
        self._fresh = None

    def copy(self):
        c = Contents()
        c.user = dict(self.user)
        return c

    def fresh(self):
        if self._fresh is None:
            self._fresh = build_fresh(self.user)
        return self._fresh

    def fresh_new(self):
        return build_fresh(self.user)

    def apply(self, spec):
        """returns the outcome the contents imply for the edit ('ok' or an exception name)"""
        from unyt.unit_registry import default_unit_symbol_lut as dl

        kind = spec[0]
        out = "ok"
        if kind == "noop":
            return None
        if kind == "add":
            self.user[spec[1]] = spec[2]
        elif kind in ("modf", "modq", "rm"):
            sym = spec[1]
            if sym not in self.user and sym not in dl:
                # for `modq` the quantity is built first: an unknown unit string raises there
                if kind == "modq" and describe_unit(self.fresh_new(), spec[3])[0] != "ok":
                    out = "UnitParseError"
                else:
                    out = "SymbolNotFoundError"
            elif kind == "modf":
                v = self.user[sym]
                self.user[sym] = (float(spec[2]), v[1], v[2], v[3])
            elif kind == "modq":
                d = describe_unit(self.fresh_new(), spec[3])
                if d[0] != "ok":
                    out = "UnitParseError"
                else:
                    v = self.user[sym]
                    self.user[sym] = (spec[2] * d[1], d[2], v[2], v[3])
            else:
                del self.user[sym]
        elif kind == "def":
            sym, val, q, pf = spec[1:]
            F = self.fresh_new()
            if sym in F:
                out = "RuntimeError"
            else:
                d = describe_unit(F, q)
                if d[0] != "ok":
                    out = "UnitParseError"
                else:
                    self.user[sym] = (val * d[1], d[2], 0.0, pf)
        self._fresh = None
        return out


def dims_of_key(k):
    import unyt.dimensions as D

    return eval(DIMS[k] if k in DIMS else k, {"D": D})


def dims_key(d):
    """dims source string for a sympy dimension (used in replay snippets and the contents)"""
    import sympy

    s = str(sympy.sympify(d))
    for n in ("mass", "length", "time", "temperature", "angle", "current_mks", "luminous_intensity", "logarithmic"):
        s = s.replace(f"({n})", f"D.{n}")
    return s


def build_fresh(user):
    from unyt.unit_registry import UnitRegistry

    F = UnitRegistry()
    for sym in sorted(user):
        v, dk, off, pf = user[sym]
        F.add(sym, float(v), dims_of_key(dk), offset=off if off else None, prefixable=pf)
    return F


def fresh_src(user):
    lines = ["F = UnitRegistry()"]
    for sym in sorted(user):
        v, dk, off, pf = user[sym]
        lines.append(f"F.add({sym!r}, {float(v)!r}, {DIMS.get(dk, dk)}, offset={off if off else None!r}, prefixable={pf!r})")
    return "\n".join(lines) + "\n"


_ID_CACHE = {}


def table_id(lut):
    """`unit_system_id` of a registry whose table is `lut` (the library's own property on a new
    registry object; memoised on the entries that differ from the default table — the md5 walks
    ~1000 reprs)"""
    from unyt.unit_registry import UnitRegistry, default_unit_symbol_lut as dl

    key = tuple(sorted((k, repr(v)) for k, v in lut.items() if dl.get(k) is not v)) + tuple(k for k in dl if k not in lut)
    if key not in _ID_CACHE:
        _ID_CACHE[key] = UnitRegistry(add_default_symbols=False, lut=dict(lut)).unit_system_id
    return _ID_CACHE[key]


def describe_unit(reg, q):
    from unyt import Unit

    try:
        u = Unit(q, registry=reg)
    except Exception as e:  # noqa: BLE001
        return ("err", core.exc_name(e))
    return ("ok", float(u.base_value), dims_key(u.dimensions), float(u.base_offset))


def do_probe(reg, kind, q):
    """-> (canonical outcome, unit object or None)"""
    from unyt import Unit

    try:
        if kind == "unit":
            u = Unit(q, registry=reg)
            return ("ok", float(u.base_value), dims_key(u.dimensions), float(u.base_offset)), u
        if kind == "has":
            return ("ok", q in reg), None
        if kind == "get":
            e = reg[q]
            return ("ok", float(e[0]), dims_key(e[1]), float(e[2]), bool(e[4])), None
        if kind == "sysid":
            return ("ok", reg.unit_system_id), None
    except Exception as e:  # noqa: BLE001
        return ("err", core.exc_name(e)), None
    raise ValueError(kind)


def same_outcome(a, b):
    if a[0] != b[0] or len(a) != len(b):
        return False
    for x, y in zip(a[1:], b[1:]):
        if isinstance(x, float) and isinstance(y, float):
            if not core.close(x, y, 1e-12):
                return False
        elif x != y:
            return False
    return True


HEADER = ("import warnings; warnings.simplefilter('ignore')\nimport unyt\nfrom unyt import Unit, unyt_quantity, define_unit\n"
          "from unyt.unit_registry import UnitRegistry\nimport unyt.dimensions as D\n"
          "def t(f):\n    try: return f()\n    except Exception as e: return type(e).__name__\n"
          "def du(reg, q):\n    try: u = Unit(q, registry=reg)\n    except Exception as e: return type(e).__name__\n"
          "    return (float(u.base_value), str(u.dimensions), float(u.base_offset))\n"
          "def close(a, b):\n    if isinstance(a, tuple) and isinstance(b, tuple):\n"
          "        return abs(a[0]-b[0]) <= 1e-12*max(abs(a[0]), abs(b[0])) and a[1:] == b[1:]\n    return a == b\n")


def history_src(hist):
    lines = ["r = UnitRegistry()"]
    for name in hist:
        lines.append(f"t(lambda: {OPS[name]['py']})")
    return "\n".join(lines) + "\n"


def probe_src(kind, q, reg):
    if kind == "unit":
        return f"du({reg}, {q!r})"
    if kind == "has":
        return f"({q!r} in {reg})"
    if kind == "get":
        return f"t(lambda: (lambda e: (float(e[0]), str(e[1]), float(e[2]), bool(e[4])))({reg}[{q!r}]))"
    return f"{reg}.unit_system_id"


# ----------------------------------------------------------------------------------------
# one history on the real library (+ the oracle)


def run_history(hist, want_state=True):
    """Execute `hist` on a new real registry.  Returns dict(outs, probes, failures, state...)."""
    import unyt  # noqa: F401
    from unyt import Unit, define_unit, unyt_quantity
    from unyt.unit_registry import UnitRegistry, default_unit_symbol_lut
    import unyt.dimensions as D

    r = UnitRegistry()
    env = {"r": r, "Unit": Unit, "unyt_quantity": unyt_quantity, "define_unit": define_unit, "D": D}
    cont = Contents()
    outs = []
    failures = []
    objects = []  # (object, snapshot at first sight)
    seen_obj = {}
    trail = [cont.copy()]
    diverged = False
    memo_culprit = None
    memo_culprit_idx = 0
    unit_seq = []  # one entry per Unit(q, registry=r) call of the history / probe set: (q, object or None)

    def note(u):
        if id(u) not in seen_obj:
            seen_obj[id(u)] = len(objects)
            objects.append((u, (float(u.base_value), dims_key(u.dimensions), float(u.base_offset), str(u.expr))))
        return seen_obj[id(u)]

    for idx, name in enumerate(hist):
        op = OPS[name]
        try:
            res = eval(op["py"], env)
            if hasattr(res, "is_Unit"):
                out = ("unit", note(res), float(res.base_value), dims_key(res.dimensions), float(res.base_offset))
            elif isinstance(res, bool):
                out = ("bool", res)
            elif isinstance(res, str):
                out = ("sysid", res)
            else:
                out = ("done",)
        except Exception as e:  # noqa: BLE001
            out = ("err", core.exc_name(e))
            res = None
        outs.append(out)
        if name in UNIT_OPS:
            unit_seq.append((UNIT_OPS[name], res if hasattr(res, "is_Unit") else None))
        # (classification only) did the id memo survive an edit that ran a registry method?
        fam = family(name)
        if fam in ("add", "modify", "modify-quantity", "remove") or (fam == "define_unit" and out[0] == "done"):
            memo_culprit = None
            m = getattr(r, "_unit_system_id", None)
            if m is not None and m != table_id(r.lut):
                memo_culprit, memo_culprit_idx = fam, idx
        want = cont.apply(op["spec"])
        trail.append(cont.copy())
        if want is not None:
            got = "ok" if out[0] == "done" else out[1]
            if got != want:
                derived = "derived-key" if spelling(op["spec"][1]) == "prefixed" else "plain-key"
                failures.append(dict(
                    key=f"C12|edit-outcome|{family(name)}|{derived}",
                    what=f"{op['py']} gave {got}; the registry's contents imply {want}",
                    py=HEADER + history_src(hist[:idx]) + f"got = t(lambda: {op['py']})\ngot = 'ok' if got is None else got\n"
                       f"assert got == {want!r}, got\n"))
                diverged = True
                break
            # an edit that reads the registry (define_unit, modify by quantity) may have consumed a stale
            # unit: the table then no longer holds what the contents say.  (The peek at r.lut only decides
            # where to stop; the reported failure is the black-box comparison below.)
            sym = op["spec"][1]
            if sym in cont.user:
                e = r.lut.get(sym)
                w = cont.user[sym]
                if e is None or not core.close(e[0], w[0], 1e-12) or dims_key(e[1]) != dims_key(dims_of_key(w[1])):
                    failures.append(dict(
                        key=f"C12|edit-consumed-stale-unit|{family(name)}",
                        what=f"after {hist[:idx + 1]} the table entry of {sym!r} is {None if e is None else (e[0], str(e[1]))}, the contents imply {w[:2]}",
                        py=HEADER + history_src(hist[:idx + 1]) + fresh_src(cont.user)
                           + f"a = du(r, {sym!r}); b = du(F, {sym!r})\nassert close(a, b), (a, b)\n"))
                    diverged = True
                    break
    if diverged:
        # the real table has left the recorded contents: everything later would be a cascade of this one
        return dict(outs=outs, probes=None, failures=failures, state=None, user=dict(cont.user))
    # white-box state for the correspondence (before the probes disturb it)
    state = None
    if want_state:
        lut_diff = {}
        for k, v in r.lut.items():
            dv = default_unit_symbol_lut.get(k)
            if dv is v:
                continue
            if dv is None or dv[0] != v[0] or dv[1] != v[1] or dv[2] != v[2] or dv[4] != v[4]:
                lut_diff[k] = (core.f2b(v[0]), core.f2b(v[2]), gen.dim_vec(v[1]), bool(v[4]))
        for k in default_unit_symbol_lut:
            if k not in r.lut:
                lut_diff[k] = None
        state = dict(cache=sorted(r._unit_object_cache), lut=lut_diff)
    # ---- probes on the registry and on a genuinely fresh registry holding the recorded contents
    F = cont.fresh_new()
    # (speed) what F.unit_system_id would compute on first use: the library's own property evaluated on an
    # identical table, memoised across histories
    F._unit_system_id = table_id(F.lut)
    probes = []
    all_units_agree = True
    for kind, q in PROBES:
        in_cache = kind == "unit" and q in r._unit_object_cache
        got, obj = do_probe(r, kind, q)
        want, _ = do_probe(F, kind, q) if kind != "sysid" else (("ok", table_id(F.lut)), None)
        oid = note(obj) if obj is not None else None
        probes.append((kind, q, got, oid))
        if kind == "unit":
            unit_seq.append((q, obj))
        if kind == "sysid":
            if got != want:
                user_part = table_id({k: v for k, v in r.lut.items() if k in F.lut})
                if memo_culprit is not None:
                    reason = "memo-survives-edit|" + memo_culprit
                elif user_part == want[1] and set(r.lut) - set(F.lut):
                    reason = "covers-written-back-entries"
                else:
                    reason = "table-differs"
                if memo_culprit is not None:
                    # the id reported right after the edit must be the id of the table as it is then
                    py = (HEADER + history_src(hist[:memo_culprit_idx + 1])
                          + "assert r.unit_system_id == UnitRegistry(add_default_symbols=False, lut=dict(r.lut)).unit_system_id\n")
                else:
                    py = HEADER + history_src(hist) + fresh_src(cont.user) + "assert r.unit_system_id == F.unit_system_id\n"
                failures.append(dict(
                    key=f"C12|unit_system_id|{reason}",
                    what=f"r.unit_system_id after {hist} differs from the id of a fresh registry with the same contents ({reason})",
                    py=py))
            continue
        if not same_outcome(got, want):
            if kind == "unit":
                all_units_agree = False
            cause, csym = last_cause(hist, trail, kind, q)
            if in_cache:
                what_key = "string-cache|" + ("own-key" if q == csym else "other-key")
            else:
                what_key = "table|" + ("symbol-entry" if spelling(q) == "atomic" else "written-back-entry")
            failures.append(dict(
                key=f"C12|{'lost' if got[0] == 'err' and want[0] == 'ok' else 'stale'}|{what_key}|after-{cause}",
                what=f"after {hist}: {kind} {q!r} gives {got}, a fresh registry with the same contents gives {want}",
                py=HEADER + history_src(hist) + fresh_src(cont.user) + probe_prefix(PROBES, kind, q)
                   + f"a = {probe_src(kind, q, 'r')}; b = {probe_src(kind, q, 'F')}\nassert close(a, b), (a, b)\n"))
    # ---- conversions and arithmetic (the process-wide lru caches sit behind these)
    if all_units_agree:
        for label, src in ARRAY_PROBES:
            a = array_probe(src, r)
            b = array_probe(src, F)
            if not same_outcome(a, b):
                failures.append(dict(
                    key=f"C12|array-op|{label}|differs-although-units-agree",
                    what=f"after {hist}: {src} gives {a}, on a fresh registry {b}",
                    py=HEADER + history_src(hist) + fresh_src(cont.user) + probes_all_src()
                       + f"def ap(r):\n    try:\n        x = {src}\n        return (float(x.value), str(x.units.dimensions), float(x.units.base_value))\n"
                         "    except Exception as e: return type(e).__name__\n"
                         "a = ap(r); b = ap(F)\nassert close(a, b), (a, b)\n"))
    # ---- objects that outlived an edit, used together with later objects of the same spelling
    pairs = []
    by_q = {}
    for ordinal, (q, obj) in enumerate(unit_seq):
        if obj is None:
            continue
        lst = by_q.setdefault(q, [])
        if all(obj is not o for _i, o in lst):
            lst.append((ordinal, obj))
    for q in sorted(by_q):
        lst = by_q[q]
        for (ia, old), (ib, new) in zip(lst, lst[1:]):
            if len(pairs) < 4 and old.base_offset == 0 and new.base_offset == 0:
                pairs.append(mixed_use(old, new, q, r, hist, ia, ib, failures))
    # ---- old units keep their value
    for u, snap in objects:
        now = (float(u.base_value), dims_key(u.dimensions), float(u.base_offset), str(u.expr))
        if now != snap:
            attr = [n for n, x, y in zip(("base_value", "dimensions", "base_offset", "expr"), now, snap) if x != y][0]
            failures.append(dict(
                key=f"C12|old-unit-changed|{attr}",
                what=f"a Unit created during {hist} changed from {snap} to {now}",
                py=HEADER + "r = UnitRegistry()\nheld = []\n" + "".join(
                    f"x = t(lambda: {OPS[n]['py']})\nif hasattr(x, 'is_Unit') and all(x is not h[0] for h in held): held.append((x, (x.base_value, x.dimensions, x.base_offset)))\n"
                    for n in hist) + probes_all_src() + "for u, s in held:\n    assert (u.base_value, u.dimensions, u.base_offset) == s, (u, s)\n"))
    return dict(outs=outs, probes=probes, failures=failures, state=state, user=dict(cont.user), pairs=pairs)


UNIT_OPS = {"u_foo": SYM, "u_kfoo": "k" + SYM, "u_foo_s": SYM + "*s"}
MIX_X, MIX_Y = 4.0, 6.0


def _try(f):
    try:
        return ("ok", f())
    except Exception as e:  # noqa: BLE001
        return ("err", core.exc_name(e))


def mixed_src(hist, ia, ib):
    """source that re-executes the history and the probe set, keeping the result of every Unit(q, registry=r)
    call in H, and binds old = H[ia], new = H[ib]"""
    lines = ["r = UnitRegistry(); H = []",
             "def U(q):\n    try: u = Unit(q, registry=r)\n    except Exception: u = None\n    H.append(u); return u"]
    for n in hist:
        lines.append(f"U({UNIT_OPS[n]!r})" if n in UNIT_OPS else f"t(lambda: {OPS[n]['py']})")
    for k, q in PROBES:
        lines.append(f"U({q!r})" if k == "unit" else f"t(lambda: {probe_src(k, q, 'r')})")
    lines.append(f"old, new = H[{ia}], H[{ib}]\nassert old is not new and old.expr == new.expr")
    lines.append(f"a = unyt_quantity({MIX_X!r}, old); b = unyt_quantity({MIX_Y!r}, new)")
    return "\n".join(lines) + "\n"


def mixed_use(old, new, q, r, hist, ia, ib, failures):
    """Direct oracle: what two Unit objects of the same spelling — one from before an edit, one from after — do
    to each other is decided by the values the two objects carry.  Returns the observed outcomes for the
    correspondence with the model's heap."""
    from unyt import unyt_quantity

    same_dim = old.dimensions == new.dimensions
    so, sn = float(old.base_value), float(new.base_value)
    a, b = unyt_quantity(MIX_X, old), unyt_quantity(MIX_Y, new)
    src = HEADER + mixed_src(hist, ia, ib)

    def bad(op, what, assertion):
        failures.append(dict(key=f"C12|old-unit-reinterpreted|{op}|{'same' if same_dim else 'changed'}-dimensions",
                             what=f"after {hist}: pre-edit {q!r} (scale {so}, {old.dimensions}) with post-edit {q!r} (scale {sn}, "
                                  f"{new.dimensions}): {what}",
                             py=src + assertion))

    conv_ab = _try(lambda: old.get_conversion_factor(new))
    conv_ba = _try(lambda: new.get_conversion_factor(old))
    to_ab = _try(lambda: float(a.to(new).value))
    add_ab = _try(lambda: float((a + b).value))
    lt_ab = _try(lambda: bool(a < b))
    eq_ab = _try(lambda: bool(a == b))
    comp = _try(lambda: (a / unyt_quantity(2.0, "s", registry=r)))
    if same_dim:
        f = so / sn
        if not (conv_ab[0] == "ok" and core.close(conv_ab[1][0], f, 1e-12) and conv_ab[1][1] is None):
            bad("conversion-factor", f"old.get_conversion_factor(new) is {conv_ab}, the stored scales give {f}",
                "f = old.get_conversion_factor(new)\nassert abs(f[0] - old.base_value/new.base_value) <= 1e-12*abs(f[0]) and f[1] is None, f\n")
        if not (to_ab[0] == "ok" and core.close(to_ab[1], MIX_X * f, 1e-12)):
            bad("to", f"({MIX_X} old).to(new) is {to_ab}, required {MIX_X * f}",
                f"v = float(a.to(new).value)\nassert abs(v - {MIX_X!r}*old.base_value/new.base_value) <= 1e-12*abs(v), v\n")
        want_add = MIX_X + MIX_Y * sn / so
        if not (add_ab[0] == "ok" and core.close(add_ab[1], want_add, 1e-12)):
            bad("add", f"({MIX_X} old) + ({MIX_Y} new) is {add_ab} old, required {want_add}",
                f"v = float((a + b).value)\nassert abs(v - ({MIX_X!r} + {MIX_Y!r}*new.base_value/old.base_value)) <= 1e-12*abs(v), v\n")
        si_a, si_b = MIX_X * so, MIX_Y * sn
        if not core.close(si_a, si_b, 1e-6):
            if lt_ab != ("ok", si_a < si_b) or eq_ab != ("ok", False):
                bad("compare", f"({MIX_X} old) < ({MIX_Y} new) is {lt_ab}, == is {eq_ab}; in SI {si_a} vs {si_b}",
                    f"assert bool(a < b) == ({MIX_X!r}*old.base_value < {MIX_Y!r}*new.base_value) and not bool(a == b), (a < b, a == b)\n")
    else:
        for op, got in (("conversion-factor", conv_ab), ("to", to_ab), ("add", add_ab), ("compare", lt_ab)):
            if got[0] != "err":
                bad(op, f"the stored dimensions differ but {op} returned {got[1]!r} instead of raising",
                    {"conversion-factor": "x = t(lambda: old.get_conversion_factor(new))", "to": "x = t(lambda: a.to(new))",
                     "add": "x = t(lambda: a + b)", "compare": "x = t(lambda: a < b)"}[op]
                    + "\nassert x in ('UnitConversionError', 'UnitOperationError'), x\n")
        if eq_ab == ("ok", True):
            bad("compare", "the stored dimensions differ but == is True", "assert not bool(a == b)\n")
    # a pre-edit compound built by arithmetic, converted to the compound string of today
    if comp[0] == "ok":
        c = comp[1]
        tgt = _try(lambda: __import__("unyt").Unit(q + "/s", registry=r))
        if tgt[0] == "ok":
            T = tgt[1]
            got = _try(lambda: float(c.to(T).value))
            if c.units.dimensions == T.dimensions:
                want = float(c.value) * float(c.units.base_value) / float(T.base_value)
                if not (got[0] == "ok" and core.close(got[1], want, 1e-12)):
                    bad("compound-to", f"(old/s built by arithmetic).to({q + '/s'!r}) is {got}, the stored scales give {want}",
                        f"c = a / unyt_quantity(2.0, 's', registry=r); T = Unit({q + '/s'!r}, registry=r)\nv = float(c.to(T).value)\n"
                        "assert abs(v - float(c.value)*c.units.base_value/T.base_value) <= 1e-12*abs(v), v\n")
            elif got[0] != "err":
                bad("compound-to", f"(old/s).to({q + '/s'!r}) returned {got[1]} although the dimensions differ",
                    f"c = a / unyt_quantity(2.0, 's', registry=r)\nx = t(lambda: c.to(Unit({q + '/s'!r}, registry=r)))\n"
                    "assert x in ('UnitConversionError', 'UnitOperationError'), x\n")
    canon = lambda g: ("ok", float(g[1][0]), g[1][1]) if g[0] == "ok" else g  # noqa: E731
    return dict(ia=ia, ib=ib, conv_ab=canon(conv_ab), conv_ba=canon(conv_ba), to_ab=to_ab, add_ab=add_ab)


ARRAY_PROBES = [
    ("to", f"unyt_quantity(1.0, 'k{SYM}', registry=r).to('{SYM}')"),
    ("mul-in_base", f"(unyt_quantity(2.0, '{SYM}', registry=r) * unyt_quantity(3.0, 's', registry=r)).in_base('mks')"),
    ("add", f"unyt_quantity(1.0, 'k{SYM}', registry=r) + unyt_quantity(1.0, '{SYM}', registry=r)"),
]


def array_probe(src, r):
    from unyt import unyt_quantity

    try:
        x = eval(src, {"r": r, "unyt_quantity": unyt_quantity})
        return ("ok", float(x.value), dims_key(x.units.dimensions), float(x.units.base_value))
    except Exception as e:  # noqa: BLE001
        return ("err", core.exc_name(e))


def probe_prefix(probes, kind, q):
    """the probes that precede (kind, q) in the fixed order (they fill caches), as source on r and F"""
    out = []
    for k, p in probes:
        if (k, p) == (kind, q):
            break
        out.append(f"t(lambda: {probe_src(k, p, 'r')}); t(lambda: {probe_src(k, p, 'F')})")
    return "\n".join(out) + ("\n" if out else "")


def probes_all_src():
    return "".join(f"t(lambda: {probe_src(k, p, 'r')}); t(lambda: {probe_src(k, p, 'F')})\n" for k, p in PROBES if k != "sysid")


_RES_CACHE = {}


def last_cause(hist, trail, kind, q):
    """the kind of the last edit of the history that changed what (kind, q) should resolve to"""
    prev = None
    cause, csym = "none", None
    for i, c in enumerate(trail):
        ck = (tuple(sorted(c.user.items())), kind, q)
        if ck not in _RES_CACHE:
            _RES_CACHE[ck] = do_probe(c.fresh_new(), kind, q)[0]
        cur = _RES_CACHE[ck]
        if i > 0 and not same_outcome(cur, prev):
            cause = OPS[hist[i - 1]]["kind"]
            csym = OPS[hist[i - 1]]["spec"][1]
        prev = cur
    return cause, csym


# ----------------------------------------------------------------------------------------
# the same history on the model


def parse_table_lines():
    """the graph of the real parser on the strings the histories and probes use"""
    import sympy
    from unyt._parsing import parse_unyt_expr

    lines = []
    for q in STRINGS:
        try:
            e = parse_unyt_expr(q)
        except Exception:  # noqa: BLE001
            lines.append(f"c12.parse\t{q}\terr")
            continue
        if isinstance(e, sympy.Symbol):
            lines.append(f"c12.parse\t{q}\tatom\t{e.name}")
            continue
        args = e.args if isinstance(e, sympy.Mul) else (e,)
        coeff = 1.0
        fac = []
        for a in args:
            if a.is_Number:
                coeff *= float(a)
            elif isinstance(a, sympy.Symbol):
                fac.append(f"{a.name}:1")
            elif isinstance(a, sympy.Pow) and isinstance(a.args[0], sympy.Symbol) and a.args[1].is_Rational:
                fac.append(f"{a.args[0].name}:{gen.rat_str(a.args[1])}")
            else:
                raise ValueError(f"probe string {q!r} parses outside the modelled shapes: {e!r}")
        lines.append(f"c12.parse\t{q}\tprod\t{core.f2b(coeff)}\t{';'.join(fac)}")
    return lines


def pair_lines(pairs):
    out = []
    for p in pairs:
        out += [f"c12.conv\t{p['ia']}\t{p['ib']}", f"c12.conv\t{p['ib']}\t{p['ia']}",
                f"c12.to\t{p['ia']}\t{p['ib']}\t{core.f2b(MIX_X)}", f"c12.addq\t{p['ia']}\t{p['ib']}\t{core.f2b(MIX_X)}\t{core.f2b(MIX_Y)}"]
    return out


def model_lines(hist):
    lines = ["c12.reset"]
    lines += [OPS[n]["model"] for n in hist]
    lines += ["c12.state", "c12.lut"]
    for kind, q in PROBES:
        lines.append({"unit": "c12.unit\t", "has": "c12.has\t", "get": "c12.get\t", "sysid": "c12.sysid"}[kind] + q)
    return lines


DIMKEY_CACHE = {}


def dimvec_of_key(k):
    if k not in DIMKEY_CACHE:
        DIMKEY_CACHE[k] = gen.dim_vec(dims_of_key(k))
    return DIMKEY_CACHE[k]


def compare_out(real, rep):
    """real: canonical outcome of the implementation; rep: the model's reply fields (after the guard flag)"""
    tag = rep[0]
    if real[0] == "err":
        return tag == "err" and rep[1] == real[1]
    if real[0] == "done":
        return tag == "done"
    if real[0] == "bool":
        return tag == "bool" and rep[1] == ("1" if real[1] else "0")
    if real[0] == "unit":
        return (tag == "unit" and core.close(core.b2f(rep[2]), real[2], 1e-12) and core.close(core.b2f(rep[3]), real[4])
                and rep[4] == dimvec_of_key(real[3]))
    if real[0] == "entry":
        return (tag == "entry" and core.close(core.b2f(rep[1]), real[1], 1e-12) and core.close(core.b2f(rep[2]), real[3])
                and rep[3] == dimvec_of_key(real[2]) and rep[4] == ("1" if real[4] else "0"))
    if real[0] == "sysid":
        return tag == "sysid"
    return False


def correspond(hist, res, replies):
    """-> (disagreement strings, every history op passes the model's guard, the sysid probe passes it)"""
    dis = []
    it = iter(replies)
    next(it)  # reset
    safe = True
    idmap = {}
    idmap_rev = {}
    sysids = []

    def check_unit_identity(real_id, model_id, where):
        if idmap.setdefault(real_id, model_id) != model_id or idmap_rev.setdefault(model_id, real_id) != real_id:
            dis.append(f"{where}: object identity differs (impl object #{real_id}, model object #{model_id}; map {idmap})")

    for name, out in zip(hist, res["outs"]):
        rep = next(it)
        safe = safe and rep[0] == "1"
        if not compare_out(out, rep[1:]):
            dis.append(f"op {name}: impl {out} model {rep}")
        elif out[0] == "unit":
            check_unit_identity(out[1], rep[2], f"op {name}")
        elif out[0] == "sysid":
            sysids.append((out[1], rep[2]))
    if res["probes"] is None:
        # the oracle stopped at a divergence of the table from the contents: the ops up to there were compared
        return dis, safe, False
    st = next(it)
    lut = next(it)
    if res["state"] is not None:
        mcache = sorted(x for x in st[1].split(",") if x)
        if mcache != res["state"]["cache"]:
            dis.append(f"string cache keys: impl {res['state']['cache']} model {mcache}")
        mlut = {}
        for item in (lut[1].split(";") if len(lut) > 1 and lut[1] else []):
            k, v = item.split("=", 1)
            mlut[k] = v
        rlut = {}
        for k, v in res["state"]["lut"].items():
            rlut[k] = "-" if v is None else f"{v[0]},{v[1]},{v[2]},{1 if v[3] else 0}"
        if set(mlut) != set(rlut):
            dis.append(f"table keys differing from the default: impl {sorted(rlut)} model {sorted(mlut)}")
        else:
            for k in rlut:
                a, b = rlut[k], mlut[k]
                if a == b:
                    continue
                fa, fb = a.split(",", 2), b.split(",", 2)
                if a == "-" or b == "-" or fa[2] != fb[2] or not core.close(core.b2f(fa[0]), core.b2f(fb[0]), 1e-12) or fa[1] != fb[1]:
                    dis.append(f"table entry {k}: impl {a} model {b}")
    safe_sysid = True
    for kind, q, got, oid in res["probes"]:
        rep = next(it)
        if kind == "sysid":
            safe_sysid = rep[0] == "1"
        if kind == "unit":
            real = ("unit", oid, got[1], got[2], got[3]) if got[0] == "ok" else got
        elif kind == "has":
            real = ("bool", got[1]) if got[0] == "ok" else got
        elif kind == "get":
            real = ("entry",) + got[1:] if got[0] == "ok" else got
        else:
            real = ("sysid", got[1]) if got[0] == "ok" else got
        if not compare_out(real, rep[1:]):
            dis.append(f"probe {kind} {q!r}: impl {got} model {rep}")
        elif real[0] == "unit":
            check_unit_identity(oid, rep[2], f"probe {q!r}")
        elif real[0] == "sysid":
            sysids.append((real[1], rep[2]))
    # objects that outlived an edit: the model's heap cells convert / add like the real objects
    for p in res.get("pairs") or []:
        for field in ("conv_ab", "conv_ba", "to_ab", "add_ab"):
            rep = next(it)
            real = p[field]
            if real[0] == "err":
                ok = rep[0] == "err" and rep[1] == real[1]
            elif field.startswith("conv"):
                ok = rep[0] == "ok" and core.close(core.b2f(rep[1]), real[1], 1e-12) and (rep[2] == "none") == (real[2] is None)
            else:
                ok = rep[0] == "ok" and core.close(core.b2f(rep[1]), real[1], 1e-12)
            if not ok:
                dis.append(f"old/new objects #{p['ia']},#{p['ib']} {field}: impl {real} model {rep}")
    # unit_system_id: equal ids <-> equal snapshots
    for (a1, b1), (a2, b2) in itertools.combinations(sysids, 2):
        if (a1 == a2) != (b1 == b2):
            dis.append(f"unit_system_id classes differ: impl {a1[:8]} vs {a2[:8]}, model snapshots {b1!r} vs {b2!r}")
            break
    return dis, safe, safe_sysid


# ----------------------------------------------------------------------------------------
# workers


def _work(args):
    hists, ptab, want_state = args
    core.quiet_numpy()
    results = []
    lines = list(ptab)
    spans = []
    ress = []
    for h in hists:
        res = run_history(h, want_state)
        ress.append(res)
        ml = model_lines(h) + pair_lines(res.get("pairs") or [])
        spans.append((len(lines), len(lines) + len(ml)))
        lines += ml
    try:
        replies = core.Model("drv_c12").ask(lines)
        merr = None
    except Exception as e:  # noqa: BLE001
        replies, merr = None, repr(e)
    out = []
    for h, res, (a, b) in zip(hists, ress, spans):
        if replies is None:
            dis, safe, safe_id = [f"driver: {merr}"], False, False
        else:
            try:
                dis, safe, safe_id = correspond(h, res, replies[a:b])
            except Exception as e:  # noqa: BLE001
                dis, safe, safe_id = [f"correspondence crashed: {e!r}"], False, False
        out.append((h, res["failures"], dis, safe, safe_id, len(res.get("pairs") or [])))
    return out


def chunks(xs, n):
    for i in range(0, len(xs), n):
        yield xs[i:i + n]


def minimise(hist, key):
    """greedy delta-debugging: drop ops while a failure with the same key persists"""
    cur = list(hist)
    changed = True
    while changed:
        changed = False
        for i in range(len(cur)):
            cand = cur[:i] + cur[i + 1:]
            r = run_history(cand, want_state=False)
            if any(f["key"] == key for f in r["failures"]):
                cur = cand
                changed = True
                break
    r = run_history(cur, want_state=False)
    return cur, [f for f in r["failures"] if f["key"] == key][0]


# ----------------------------------------------------------------------------------------


def alias_check(chk):
    """a user-added symbol whose name equals a built-in name alternative must still be reachable by
    string (the parser rewrites aliases before the registry is consulted)"""
    from unyt import Unit
    from unyt.unit_registry import UnitRegistry
    import unyt.dimensions as D

    ex = gen.extract()
    names = [k for k, v in sorted(ex["inv_names"].items()) if k != v and k not in ex["lut"] and k.isidentifier()]
    for name in [n for n in ("d", "meter", "hr") if n in names] + names[:2]:
        chk.case(("alias", name))
        chk.count("alias-named-symbol")
        r = UnitRegistry()
        r.add(name, 7.0, D.length / D.time ** 3)
        try:
            u = Unit(name, registry=r)
            ok = u.base_value == 7.0 and u.dimensions == D.length / D.time ** 3
        except Exception:  # noqa: BLE001
            ok = False
        if not ok:
            chk.fail("C12|add|symbol-equals-builtin-alias",
                     f"r.add({name!r}, 7.0, length/time**3); Unit({name!r}, registry=r) is not the added unit",
                     {"python": HEADER + f"r = UnitRegistry(); r.add({name!r}, 7.0, D.length/D.time**3)\nu = Unit({name!r}, registry=r)\n"
                                         "assert u.base_value == 7.0 and u.dimensions == D.length/D.time**3, (u.base_value, u.dimensions)\n"})


def witness_replays(chk, cfg):
    """the witnesses of the `C12_counterexample_*` theorems (statements about the machine configured as the code
    was before the fix: commits), replayed on the real library: a witness must fail exactly when the regenerated
    configuration still has the layer it exposes (else the model and the code disagree about that layer)"""
    both = cfg["clearCache"] and cfg["purgeDerived"]
    W = [("modify_prefixed", ["add_foo1", "u_kfoo", "modf_foo"], "unit", not both),
         ("remove_prefixed", ["add_foo1", "u_kfoo", "rm_foo"], "unit", not both),
         ("modify_compound", ["add_foo1", "u_foo_s", "modf_foo"], "unit", not cfg["clearCache"]),
         ("readd_atomic", ["add_foo1", "u_foo", "add_foo2"], "unit", not cfg["clearCache"]),
         ("edit_of_derived_key", ["add_foo1", "u_kfoo", "modf_kfoo"], "edit", not cfg["purgeDerived"]),
         ("id_lookup_history", ["add_foo1", "u_kfoo"], "sysid", not cfg["idSkipsDerived"]),
         ("id_stale_after_modify_quantity", ["add_foo1", "modq_foo"], "memo", not cfg["memoResetLast"])]
    for name, hist, kind, expect_fail in W:
        chk.case(("witness", name))
        chk.count("counterexample-witness")
        res = run_history(hist, want_state=False)
        if kind == "unit":
            hit = [f for f in res["failures"] if "|stale|" in f["key"] or "|lost|" in f["key"]]
        elif kind == "edit":
            hit = [f for f in res["failures"] if "edit-outcome" in f["key"]]
        elif kind == "memo":
            hit = [f for f in res["failures"] if "memo-survives-edit" in f["key"]]
        else:
            hit = [f for f in res["failures"] if "unit_system_id" in f["key"]]
        if expect_fail and not hit:
            chk.disagree("witness", f"C12_counterexample_{name}: the regenerated configuration {cfg} has this defect, the real library does not show it")
        if hit and not expect_fail:
            chk.disagree("witness", f"C12_counterexample_{name}: the regenerated configuration {cfg} says the layer is invalidated, but the witness fails: {hit[0]['what']}")


def run(tier, seed):
    chk = core.Check("C12", tier, seed)
    chk.proof = core.prove("C12", PROOF_MODULES, extra_targets=("drv_c12",), tier=tier)
    rng = chk.rng
    try:
        xj = __import__("json").load(open(os.path.join(core.BUILD, "extract_c12_registry_cfg.json"), encoding="utf-8"))
        cfg = xj["cfg"]
    except Exception as e:  # noqa: BLE001
        chk.disagree("translator", f"no configuration extracted: {e!r}")
        cfg = {"clearCache": False, "purgeDerived": False, "idSkipsDerived": False, "memoResetLast": False}
    chk.extra["registry_cfg"] = cfg
    chk.extra["active_theorem"] = ("C12_resolution_full (every call but unit_system_id, all histories)"
                                   + ("; C12_full via refines_fresh_repaired" if all(cfg.values()) else
                                      "; unit_system_id: refines_fresh_partial under the guard"))
    # the vocabulary must be free of built-in names
    ex = gen.extract()
    for s in (SYM, SYM2, "k" + SYM, "M" + SYM, "k" + SYM2):
        assert s not in ex["lut"] and s not in ex["inv_names"], s
    try:
        ptab = parse_table_lines()
    except Exception as e:  # noqa: BLE001
        chk.disagree("parse-table", repr(e))
        ptab = []
    # the model must have been built with the configuration the translator extracted
    try:
        rep = core.Model("drv_c12").ask(["c12.cfg"])[0]
        want = ["ok"] + ["1" if cfg[k] else "0" for k in ("clearCache", "purgeDerived", "idSkipsDerived", "memoResetLast")]
        if rep != want:
            chk.disagree("c12.cfg", f"driver configuration {rep} != extracted {want}")
    except Exception as e:  # noqa: BLE001
        chk.disagree("driver", repr(e))
    # ---------------------------------------------------------------- histories
    exh_len = 3 if tier == "quick" else 4
    hists = [list(h) for n in range(1, exh_len + 1) for h in itertools.product(ALPHABET, repeat=n)]
    n_exh = len(hists)
    n_rand = 2500 if tier == "quick" else 20000
    for _ in range(n_rand):
        n = rng.randint(exh_len + 1, 12)
        # bias towards histories that begin by defining the symbol
        h = [rng.choice(ALPHABET) for _ in range(n)]
        if rng.random() < 0.6:
            h[0] = "add_foo1"
        hists.append(h)
    chk.extra["histories"] = {"exhaustive_up_to_length": exh_len, "exhaustive": n_exh, "random": n_rand, "alphabet": ALPHABET}
    jobs = [(c, ptab, True) for c in chunks(hists, 400)]
    n_exh_jobs = (n_exh + 399) // 400
    nproc = 4
    # the exhaustive part always runs; the random part (a seeded sequence) is cut at a wall-clock budget on a
    # slow machine — a prefix of the same sequence, so no new failure keys can appear
    budget = 80 if tier == "quick" else 600
    import time as _time

    parts = []
    with multiprocessing.get_context("fork").Pool(nproc) as pool:
        for i, part in enumerate(pool.imap(_work, jobs, chunksize=1)):
            parts.append(part)
            if i + 1 >= n_exh_jobs and _time.time() - chk.t0 > budget:
                pool.terminate()
                break
    chk.extra["histories"]["executed"] = sum(len(p) for p in parts)
    seen_keys = {}
    n_safe = n_safe_bad = 0
    for part in parts:
        for h, failures, dis, safe, safe_id, npairs in part:
            if npairs:
                chk.count("old-object-with-new-object-pairs", npairs)
            chk.case(tuple(h), {"history": h, "safe_per_model_guard": safe} if len(chk.samples) < 6 and len(h) >= 3 else None)
            chk.count(f"history-length-{min(len(h), 5)}{'+' if len(h) >= 5 else ''}")
            chk.count("guard-safe" if safe else "guard-unsafe")
            for d in dis[:3]:
                chk.disagree("c12.history", f"{h}: {d}")
            if safe:
                n_safe += 1
                covered = [f for f in failures if "unit_system_id" not in f["key"] or safe_id]
                if covered:
                    n_safe_bad += 1
                    chk.disagree("c12.guard", f"{h}: every step passes the model's guard (refines_fresh_partial applies) but the oracle saw {covered[0]['key']}")
            for f in failures:
                if f["key"] not in seen_keys or len(h) < len(seen_keys[f["key"]][0]):
                    seen_keys[f["key"]] = (h, f)
                chk.count("oracle-failure:" + f["key"].split("|")[1])
    known = {k["key"] for k in core.load_known() if k["property"] == "C12" and k.get("status") == "known"}
    for key in sorted(seen_keys):
        h, f = seen_keys[key]
        if key not in known:
            try:
                h, f = minimise(h, key)
            except Exception:  # noqa: BLE001
                pass
        chk.fail(key, f["what"], {"python": f["py"], "history": h})
    chk.extra["guard"] = {"histories_within_guard": n_safe, "of_which_oracle_failed": n_safe_bad}
    alias_check(chk)
    witness_replays(chk, cfg)
    # registry OBJECTS over shared containers (Unit.copy() / in_base() hand out shallow copies of the registry)
    import c12_alias

    c12_alias.run_alias(chk, tier, ptab, known)
    if os.environ.get("C12_DEBUG"):
        for d in chk.disagreements[:40]:
            print("DISAGREE", d[0], d[1][:600])
    rule = ("every history over the 16-op alphabet on two symbols up to the stated length, plus random longer ones; distinct = distinct "
            "operation sequence; each is executed on a real custom UnitRegistry, on the Lean machine, and its probe set on a fresh registry "
            "built from the recorded contents")
    return chk.finish(rule)
