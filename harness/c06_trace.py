"""C06 forwarding tracer: which NumPy computation does a unyt `__array_function__` handler invoke?

`unyt._array_functions.np` (and the import-time alias `_trapezoid_func`) are replaced by a recording
namespace proxy; every `np.<f>._implementation(...)` (and every public `np.<f>(...)` call on
non-unit arguments) made while a handler runs is logged *before* it executes: target, and for
every parameter of the target (bound through `inspect.signature`) how the received value relates to
what the caller passed.  Used by the translator plugin (tools/extract.d/c06_handlers.py), by the
forwarding oracle and by the correspondence of harness/c06.py.
"""
import ast
import contextlib
import inspect
import textwrap
import types
import warnings

import numpy as np

import npcatalog as C


# --------------------------------------------------------------------------------------
# recording proxy


class Recorder:
    def __init__(self):
        self.calls = []  # dict(via, target, args, kwargs, result_canon)
        self.entered = []  # handlers entered (function ids)
        self.on_call = None  # callback(callrec) run before the kernel executes
        self.depth = 0  # nesting depth of unyt handlers


def _has_unit(x, depth=0):
    import unyt

    if isinstance(x, unyt.Unit):
        return True
    if isinstance(x, (list, tuple)) and depth < 4:
        return any(_has_unit(y, depth + 1) for y in x)
    return False


class FuncProxy:
    """stands for a dispatcher function `np.f` inside unyt._array_functions"""

    def __init__(self, real, rec):
        object.__setattr__(self, "_real", real)
        object.__setattr__(self, "_rec", rec)

    def _record(self, via, args, kwargs):
        real = object.__getattribute__(self, "_real")
        rec = object.__getattribute__(self, "_rec")
        cr = {"via": via, "target": C.name_of(real) or getattr(real, "__name__", "?"), "args": args, "kwargs": kwargs,
              "depth": rec.depth}
        if rec.on_call is not None:
            rec.on_call(cr)
        rec.calls.append(cr)
        return cr

    def __call__(self, *args, **kwargs):
        real = object.__getattribute__(self, "_real")
        if _has_unit(args) or _has_unit(list(kwargs.values())):
            return real(*args, **kwargs)  # unit arithmetic (np.prod over units), not a kernel call
        cr = self._record("public", args, kwargs)
        r = real(*args, **kwargs)
        cr["result"] = r
        return r

    def __getattr__(self, name):
        real = object.__getattribute__(self, "_real")
        if name == "_implementation":
            impl = real._implementation

            def recording_impl(*args, **kwargs):
                cr = self._record("impl", args, kwargs)
                r = impl(*args, **kwargs)
                cr["result"] = r
                return r

            return recording_impl
        return getattr(real, name)


class NamespaceProxy:
    def __init__(self, real, rec):
        object.__setattr__(self, "_real", real)
        object.__setattr__(self, "_rec", rec)

    def __getattr__(self, name):
        real = object.__getattribute__(self, "_real")
        rec = object.__getattribute__(self, "_rec")
        v = getattr(real, name)
        if isinstance(v, types.ModuleType):
            return NamespaceProxy(v, rec)
        if callable(v) and hasattr(v, "_implementation"):
            return FuncProxy(v, rec)
        return v


@contextlib.contextmanager
def recording():
    """patch unyt._array_functions for the duration of the block; yields the Recorder"""
    import unyt._array_functions as AF

    rec = Recorder()
    saved_np = AF.np
    saved_trap = getattr(AF, "_trapezoid_func", None)
    saved_handlers = dict(AF._HANDLED_FUNCTIONS)
    AF.np = NamespaceProxy(np, rec)
    if saved_trap is not None:
        AF._trapezoid_func = FuncProxy(saved_trap, rec)

    def wrap(fn, fid):
        def entered(*a, **k):
            rec.entered.append(fid)
            rec.depth += 1
            try:
                return fn(*a, **k)
            finally:
                rec.depth -= 1

        return entered

    for f, h in saved_handlers.items():
        AF._HANDLED_FUNCTIONS[f] = wrap(h, C.name_of(f) or getattr(f, "__name__", "?"))
    try:
        yield rec
    finally:
        AF.np = saved_np
        if saved_trap is not None:
            AF._trapezoid_func = saved_trap
        AF._HANDLED_FUNCTIONS.clear()
        AF._HANDLED_FUNCTIONS.update(saved_handlers)


# --------------------------------------------------------------------------------------
# relation of a received value to what the caller passed


def _is_q(x):
    import unyt

    return isinstance(x, unyt.unyt_array)


def has_quantity(x, depth=0):
    if _is_q(x):
        return True
    if isinstance(x, (list, tuple)) and depth < 6:
        return any(has_quantity(y, depth + 1) for y in x)
    if isinstance(x, dict):
        return any(has_quantity(y, depth + 1) for y in x.values())
    return False


def eq_stripped(r, c, depth=0):
    """received value `r` equals the caller's value `c` once units are stripped"""
    if isinstance(r, np.ndarray) or isinstance(c, np.ndarray):
        try:
            ra, ca = np.asarray(r), np.asarray(c)
        except Exception:  # noqa: BLE001
            return False
        if isinstance(r, (list, tuple)) != isinstance(c, (list, tuple)):
            # the caller's (nested) sequence of numbers turned into an array of the same numbers
            if not isinstance(c, (list, tuple)):
                return False
            try:
                cs = np.asarray(_strip(c) if isinstance(c, (list, tuple)) else c)
                rs = np.asarray(_strip(r) if isinstance(r, (list, tuple)) else r)
                return cs.shape == rs.shape and cs.dtype.kind in "biufc" and rs.dtype.kind in "biufc" and bool(np.array_equal(cs, rs))
            except Exception:  # noqa: BLE001
                return False
        if ra.shape != ca.shape or ra.dtype != ca.dtype:
            # a python scalar turned into a 0-d array of the default dtype is the same number
            if ra.shape == ca.shape == () and not isinstance(c, np.ndarray):
                try:
                    return bool(ra == ca) or (ra != ra and ca != ca)
                except Exception:  # noqa: BLE001
                    return False
            return False
        if ra.dtype.kind == "O":
            return all(eq_stripped(x, y, depth + 1) for x, y in zip(ra.ravel().tolist(), ca.ravel().tolist()))
        return np.ascontiguousarray(ra.view(np.ndarray)).tobytes() == np.ascontiguousarray(ca.view(np.ndarray)).tobytes()
    if isinstance(r, (list, tuple)) and isinstance(c, (list, tuple)) and depth < 6:
        return len(r) == len(c) and all(eq_stripped(x, y, depth + 1) for x, y in zip(r, c))
    if isinstance(r, dict) and isinstance(c, dict):
        return r.keys() == c.keys() and all(eq_stripped(r[k], c[k], depth + 1) for k in r)
    if r is c:
        return True
    if isinstance(r, (list, tuple, dict)) or isinstance(c, (list, tuple, dict)):
        return False
    try:
        if type(r) in (bool, type(None), str) or type(c) in (bool, type(None), str):
            return type(r) is type(c) and r == c
        return bool(r == c)
    except Exception:  # noqa: BLE001
        return False


def aliases(r, c):
    """received array shares the caller's buffer (required for out= targets)"""
    if isinstance(r, np.ndarray) and isinstance(c, np.ndarray):
        return r.shape == c.shape and r.__array_interface__["data"][0] == c.__array_interface__["data"][0]
    return r is c


def bind(func, args, kwargs):
    """{flat parameter name: value} through the target's signature; None if it does not bind"""
    try:
        sig = inspect.signature(func)
        ba = sig.bind(*args, **kwargs)
    except Exception:  # noqa: BLE001
        return None, None
    flat = {}
    for name, v in ba.arguments.items():
        p = sig.parameters[name]
        if p.kind is p.VAR_POSITIONAL:
            for i, x in enumerate(v):
                flat[f"*{name}[{i}]"] = x
        elif p.kind is p.VAR_KEYWORD:
            for k, x in v.items():
                flat[f"**{k}"] = x
        else:
            flat[name] = v
    return flat, sig


_MISSING = object()


def default_of(sig, name):
    p = sig.parameters.get(name)
    if p is None or p.default is p.empty:
        return _MISSING
    return p.default


# --- provenance: the caller's aux values are replaced by distinguishable sentinel objects ---------


class TagInt(int):
    pass


class TagFloat(float):
    pass


class TagComplex(complex):
    pass


class TagStr(str):
    pass


class TagTuple(tuple):
    pass


def tag_value(v):
    """a sentinel that behaves like `v` but has its own identity (None and bool cannot be tagged;
    lists, dicts, ndarrays, callables, file objects already have identity)"""
    if isinstance(v, (bool, type(None))) or _is_q(v):
        return v
    if type(v) is int:
        return TagInt(v)
    if type(v) is float:
        return TagFloat(v)
    if type(v) is complex:
        return TagComplex(v)
    if type(v) is str:
        return TagStr(v)
    if type(v) is tuple and not has_quantity(v) and not any(isinstance(x, np.ndarray) for x in v):
        return TagTuple(v)
    return v


def tag_call(args, kwargs):
    return [tag_value(a) for a in args], {k: tag_value(v) for k, v in kwargs.items()}


def provenance(r, c, depth=0):
    """the received value IS the caller's argument: the same object, or (arrays) a view of the
    caller's buffer with the same shape and strides, element-wise through lists/tuples"""
    if r is c:
        return True
    if isinstance(r, np.ndarray) and isinstance(c, np.ndarray):
        return (r.shape == c.shape and r.strides == c.strides and r.dtype == c.dtype
                and r.__array_interface__["data"][0] == c.__array_interface__["data"][0])
    if isinstance(r, (list, tuple)) and isinstance(c, (list, tuple)) and depth < 6:
        return len(r) == len(c) and all(provenance(x, y, depth + 1) for x, y in zip(r, c))
    return False


def relate(target_func, caller_flat, caller_sig, cr):
    """per-parameter verdicts of one recorded kernel call against the caller's bound arguments.
    verdict ∈ same | sameRaw | dropped | changed | injected | copied.
    `same` means PROVENANCE (`provenance`: the object / buffer the caller passed) — or, for the
    parameters also listed in cr["by_value"], only equality of value after stripping (None, bool,
    values the handler converts, e.g. np.asarray(list), and defaults the handler elides)."""
    recv, _ = bind(target_func, cr["args"], cr["kwargs"])
    if recv is None:
        return None
    out = []
    by_value = []
    names = list(caller_flat)
    for n in recv:
        if n not in caller_flat:
            names.append(n)
    for n in names:
        if n in caller_flat and n in recv:
            c, r = caller_flat[n], recv[n]
            if provenance(r, c):
                v = "sameRaw" if has_quantity(r) else "same"
                if c is None or isinstance(c, bool):
                    by_value.append(n)  # no identity to speak of: rests on the static column
            elif eq_stripped(r, c):
                if n == "out" and isinstance(c, np.ndarray):
                    v = "copied"
                else:
                    v = "sameRaw" if has_quantity(r) else "same"
                    by_value.append(n)
            else:
                v = "changed"
        elif n in caller_flat:
            d = default_of(caller_sig, n)
            c = caller_flat[n]
            if d is not _MISSING and (d is c or (d is not np._NoValue and eq_stripped(d, c))):
                v = "same"  # the caller spelled out NumPy's default and the handler elides it
                by_value.append(n)
            else:
                v = "dropped"
        else:
            d = default_of(caller_sig, n)
            r = recv[n]
            v = "same" if (d is not _MISSING and (d is r or (d is not np._NoValue and eq_stripped(r, d)))) else "injected"
            if v == "same":
                continue  # a default spelled out: not a parameter of this call
        out.append((n, v))
    cr["by_value"] = by_value
    return out


def render_actual(target_func, caller_flat, caller_sig, cr):
    """the kernel call as it really happened, in the notation of the model's `renderCall`:
    {param: token}; token `~m` = the caller's value of parameter m without units, `m` = still
    carrying units, `?p` = a value the caller did not pass.  Found by *search* over the caller's
    parameters (independent of `relate`)."""
    recv, _ = bind(target_func, cr["args"], cr["kwargs"])
    if recv is None:
        return None
    out = {}
    for n, r in recv.items():
        src = None
        if n in caller_flat and eq_stripped(r, caller_flat[n]):
            src = n
        else:
            for m, c in caller_flat.items():
                if isinstance(r, (np.ndarray, list, tuple)) and isinstance(c, (np.ndarray, list, tuple)) and eq_stripped(r, c):
                    src = m
                    break
        if src is None:
            d = default_of(caller_sig, n)
            if n not in caller_flat and d is not _MISSING and (d is r or (d is not np._NoValue and eq_stripped(r, d))):
                continue  # a default spelled out
            out[n] = "?" + n
        else:
            if src == "out" and isinstance(caller_flat[src], np.ndarray) and not aliases(r, caller_flat[src]):
                out[n] = "?" + n
            else:
                out[n] = ("" if has_quantity(r) else "~") + src
    for n, c in caller_flat.items():
        if n not in recv:
            d = default_of(caller_sig, n)
            if d is not _MISSING and (d is c or (d is not np._NoValue and eq_stripped(d, c))):
                out[n] = "~" + n  # the default, elided: the kernel uses the same value
    return out


# --------------------------------------------------------------------------------------
# tracing one catalogue case


def trace_case(t, dk, sc, seed, out_mode="unyt", units=("m", "s", "kg")):
    """run template `t` on quantities under the recorder.  Returns None when the case cannot be
    built, else dict(func, variant, outcome, entered, calls=[(via, target)], params=[(name, verdict)],
    post, sig)"""
    import c06_diff as D

    try:
        call = t.instantiate(dk, sc, seed)
    except Exception:  # noqa: BLE001
        return None
    func = C.resolve(t.func)
    fid = C.canonical_func(t)
    args, kwargs, _objs = call.materialize(C.unyt_wrap(units, out=out_mode))
    args, kwargs = tag_call(args, kwargs)
    caller_flat, caller_sig = bind(func, args, kwargs)
    if caller_flat is None:
        return None
    analysed = []

    with recording() as rec:
        def on_call(cr):
            tf = C.resolve(cr["target"]) if cr["target"].startswith("numpy") else None
            cr["verdicts"] = relate(tf, caller_flat, caller_sig, cr) if tf is not None else None
            cr["render"] = render_actual(tf, caller_flat, caller_sig, cr) if tf is not None else None
            analysed.append(cr)

        rec.on_call = on_call
        with warnings.catch_warnings():
            warnings.simplefilter("ignore")
            try:
                res = t.invoke(args, kwargs)
                outcome = "ok"
            except Exception as e:  # noqa: BLE001
                res = None
                outcome = "raise:" + type(e).__name__
    # only the calls made by the handler of this function itself (nested dispatches of NumPy's own
    # implementation re-enter other handlers): keep top-level calls = those recorded while exactly
    # the first handler entered... nested handlers are recognised by `entered`
    top = [c for c in analysed if c["depth"] == 1]
    rec_out = {
        "func": fid,
        "variant": t.variant,
        "outcome": outcome,
        "entered": list(rec.entered),
        "calls": [(c["via"], c["target"]) for c in top],
        "sig": ",".join(sorted(f"{k}:{'q' if has_quantity(v) else 'b'}" for k, v in caller_flat.items())),
    }
    post = "none"
    params = []
    rec_out["caller"] = [(k, "q" if has_quantity(v) else "b") for k, v in caller_flat.items()]
    rec_out["render"] = top[0].get("render") if top else None
    if top:
        # the handler's own kernel call is the first one recorded
        k0 = top[0]
        params = k0.get("verdicts") or []
        if outcome == "ok" and "result" in k0:
            if t.result == "string" or isinstance(res, str):
                post = "text"
            elif res is None and k0["result"] is None:
                post = "id"
            else:
                post = "id" if D.same(D.canon(_strip(res)), D.canon(_strip(k0["result"]))) else "changed"
    rec_out["params"] = params
    rec_out["by_value"] = sorted(top[0].get("by_value") or []) if top else []
    rec_out["by_value_vals"] = [(p, _value_digest(caller_flat.get(p))) for p in rec_out["by_value"]]
    rec_out["post"] = post
    return rec_out


def _value_digest(v):
    """a short stable description of a caller value (to count distinct observed values)"""
    import hashlib

    try:
        sv = _strip(v)
        if isinstance(sv, np.ndarray):
            return "nd:" + hashlib.sha1(np.ascontiguousarray(sv).tobytes() + str(sv.shape).encode()).hexdigest()[:12]
        return repr(sv)[:80]
    except Exception:  # noqa: BLE001
        return "?"


def _strip(x, depth=0):
    if _is_q(x):
        return np.asarray(x)
    if isinstance(x, (list, tuple)) and depth < 6:
        return tuple(_strip(y, depth + 1) for y in x)
    return x


# --------------------------------------------------------------------------------------
# ast pass over the handler sources


def handler_static(fn):
    """(params [(name, kind)], never_loaded [names], static_targets [np.<chain> ids whose
    `_implementation` is referenced, directly or through a helper that receives `np.<chain>`])"""
    import unyt._array_functions as AF

    sig = inspect.signature(fn)
    params = [(n, p.kind.name) for n, p in sig.parameters.items()]
    try:
        src = textwrap.dedent(inspect.getsource(fn))
        tree = ast.parse(src)
    except Exception:  # noqa: BLE001
        return params, [], [], False
    fdef = next((n for n in ast.walk(tree) if isinstance(n, (ast.FunctionDef,))), None)
    loaded = {n.id for n in ast.walk(fdef) if isinstance(n, ast.Name) and isinstance(n.ctx, ast.Load)}
    never = [n for n, _k in params if n not in loaded]
    raises_only = all(isinstance(st, (ast.Raise, ast.Expr)) for st in fdef.body) and any(isinstance(st, ast.Raise) for st in fdef.body)

    def chain(node):
        parts = []
        while isinstance(node, ast.Attribute):
            parts.append(node.attr)
            node = node.value
        if isinstance(node, ast.Name):
            parts.append(node.id)
            return list(reversed(parts))
        return None

    targets = []

    def scan(fnode, modsrc_fn, depth=0):
        for n in ast.walk(fnode):
            if isinstance(n, ast.Attribute) and n.attr == "_implementation":
                ch = chain(n.value)
                if ch and ch[0] == "np":
                    targets.append("numpy." + ".".join(ch[1:]))
                elif ch and len(ch) == 1 and ch[0] == "_trapezoid_func":
                    real = getattr(AF, "_trapezoid_func", None)
                    real = object.__getattribute__(real, "_real") if isinstance(real, FuncProxy) else real
                    targets.append(C.name_of(real) or "numpy.trapezoid")
            if isinstance(n, ast.Call) and isinstance(n.func, ast.Name) and depth < 2:
                helper = getattr(AF, n.func.id, None)
                if isinstance(helper, types.FunctionType) and helper.__module__ == AF.__name__ and helper is not modsrc_fn:
                    # np.<chain> handed to a helper that calls <param>._implementation
                    for a in list(n.args) + [k.value for k in n.keywords]:
                        ch = chain(a) if isinstance(a, ast.Attribute) else None
                        if ch and ch[0] == "np":
                            targets.append("numpy." + ".".join(ch[1:]))
                    try:
                        hs = ast.parse(textwrap.dedent(inspect.getsource(helper)))
                        hd = next((m for m in ast.walk(hs) if isinstance(m, ast.FunctionDef)), None)
                        if hd is not None:
                            scan(ast.Module(body=hd.body, type_ignores=[]), helper, depth + 1)
                    except Exception:  # noqa: BLE001
                        pass

    body_only = ast.Module(body=fdef.body, type_ignores=[])
    scan(body_only, fn)
    seen = []
    for x in targets:
        # resolve aliases to the canonical universe id
        o = C.resolve(x)
        cid = C.name_of(o) if o is not None else x
        cid = cid or x
        if cid not in seen:
            seen.append(cid)
    return params, never, seen, raises_only


def static_dropped(func, handler):
    """numpy parameters of `func` that `handler` accepts but can never forward: a named handler
    parameter that is never read, or a parameter only the handler's `*args/**kwargs` could carry
    while those are never read"""
    params, never, _targets, _ro = handler_static(handler)
    named = {p for p, k in params if k not in ("VAR_POSITIONAL", "VAR_KEYWORD")}
    star_dead = any(k in ("VAR_POSITIONAL", "VAR_KEYWORD") and p in never for p, k in params)
    has_star = any(k in ("VAR_POSITIONAL", "VAR_KEYWORD") for p, k in params)
    dropped = []
    try:
        nsig = inspect.signature(func)
    except Exception:  # noqa: BLE001
        return dropped
    for p, prm in nsig.parameters.items():
        if prm.kind in (prm.VAR_POSITIONAL, prm.VAR_KEYWORD):
            pn = ("*" if prm.kind is prm.VAR_POSITIONAL else "**") + p
            hk = "VAR_POSITIONAL" if prm.kind is prm.VAR_POSITIONAL else "VAR_KEYWORD"
            hp = [q for q, k in params if k == hk]
            if hp and hp[0] in never:
                dropped.append(pn)
            continue
        if p in named:
            if p in never:
                dropped.append(p)
        elif has_star and star_dead:
            dropped.append(p)
    return dropped


# --------------------------------------------------------------------------------------
# static provenance: which handler parameter feeds which numpy parameter of the kernel call


def static_forward(func, handler):
    """ast pass, independent of the dynamic trace.  For every `<np.f>._implementation(...)` call
    site of `handler` (and of the same-module helper it delegates to, parameters substituted), each
    argument expression is classified:
       direct  : NAME | np.asarray(NAME) | [np.asarray(_) for _ in NAME] |
                 np.asarray(NAME) if NAME is not None else None        (NAME a handler parameter)
       derived : any other expression / local variable whose definition mentions handler parameters
    and bound to the numpy parameter it feeds (position / keyword, through `inspect.signature(func)`).
    Returns dict(direct, derived (⊇ direct): numpy parameter names fed from the handler parameter in
    the same slot (same position or same name); star_pos / star_kw: a call site forwards the handler's
    *args / **kwargs (or feeds numpy parameters from them); named: numpy-space names of the handler's
    named parameters; crossed: numpy parameters fed from a handler parameter of ANOTHER slot)."""
    import unyt._array_functions as AF

    out = dict(direct=[], derived=[], star_pos=False, star_kw=False, named=[], crossed=[], const=[])
    try:
        hsig = inspect.signature(handler)
        nsig = inspect.signature(func)
        tree = ast.parse(textwrap.dedent(inspect.getsource(handler)))
    except Exception:  # noqa: BLE001
        return out
    fdef = next((n for n in ast.walk(tree) if isinstance(n, ast.FunctionDef)), None)
    nparams = [(n, q) for n, q in nsig.parameters.items()]
    npos = [n for n, q in nparams if q.kind in (q.POSITIONAL_ONLY, q.POSITIONAL_OR_KEYWORD)]
    nvarpos = next((n for n, q in nparams if q.kind is q.VAR_POSITIONAL), None)
    hnamed = [n for n, q in hsig.parameters.items() if q.kind not in (q.VAR_POSITIONAL, q.VAR_KEYWORD)]
    hpos = [n for n, q in hsig.parameters.items() if q.kind in (q.POSITIONAL_ONLY, q.POSITIONAL_OR_KEYWORD)]
    hvarpos = next((n for n, q in hsig.parameters.items() if q.kind is q.VAR_POSITIONAL), None)
    hvarkw = next((n for n, q in hsig.parameters.items() if q.kind is q.VAR_KEYWORD), None)
    # the numpy-space name of a handler parameter: the numpy parameter in the same positional slot,
    # else the same name
    def np_name(hp):
        if hp in hpos and hpos.index(hp) < len(npos):
            return npos[hpos.index(hp)]
        return hp
    out["named"] = [np_name(h) for h in hnamed]

    def names_in(node):
        return {n.id for n in ast.walk(node) if isinstance(n, ast.Name)}

    def is_asarray(node):
        return (isinstance(node, ast.Call) and isinstance(node.func, ast.Attribute) and node.func.attr == "asarray"
                and isinstance(node.func.value, ast.Name) and node.func.value.id == "np" and len(node.args) == 1 and not node.keywords)

    def classify(node, env, local_defs, depth=0):
        """(kind, {handler params}) of an argument expression; env: name -> (kind, params) for the
        names in scope (handler parameters map to ('direct', {p}))"""
        if isinstance(node, ast.Constant):
            return "const", set()
        if isinstance(node, ast.Name):
            if node.id in local_defs and depth < 4:
                kinds, ps = set(), set()
                for d in local_defs[node.id]:
                    k, q = classify(d, env, {k2: v for k2, v in local_defs.items() if k2 != node.id} if node.id not in env else local_defs, depth + 1) \
                        if not (isinstance(d, ast.Name) and d.id == node.id) else env.get(node.id, ("derived", set()))
                    kinds.add(k)
                    ps |= q
                if node.id in env:  # a parameter that is (maybe conditionally) re-assigned
                    ps |= env[node.id][1]
                    kinds.add("derived" if kinds - {"direct", "const"} else "direct")
                kind = "direct" if kinds <= {"direct", "const"} and len(ps) <= 1 else "derived"
                return kind, ps
            if node.id in env:
                return env[node.id]
            return "derived", set()
        if is_asarray(node):
            k, ps = classify(node.args[0], env, local_defs, depth + 1)
            return k, ps
        if isinstance(node, ast.ListComp) and len(node.generators) == 1 and is_asarray(node.elt):
            g = node.generators[0]
            if isinstance(node.elt.args[0], ast.Name) and isinstance(g.target, ast.Name) and node.elt.args[0].id == g.target.id and not g.ifs:
                return classify(g.iter, env, local_defs, depth + 1)
        if isinstance(node, ast.IfExp) and isinstance(node.orelse, ast.Constant) and node.orelse.value is None:
            k, ps = classify(node.body, env, local_defs, depth + 1)
            tn = names_in(node.test)
            if len(tn) == 1 and all(env.get(t, ("", set()))[1] == ps for t in tn):
                return k, ps
        ps = set()
        for nm in names_in(node):
            if nm in local_defs and depth < 4:
                for d in local_defs[nm]:
                    ps |= classify(d, env, {k2: v for k2, v in local_defs.items() if k2 != nm}, depth + 1)[1]
            if nm in env:
                ps |= env[nm][1]
        return "derived", ps

    def collect_locals(fnode):
        defs = {}
        for n in ast.walk(fnode):
            if isinstance(n, ast.Assign):
                for tg in n.targets:
                    if isinstance(tg, ast.Name):
                        defs.setdefault(tg.id, []).append(n.value)
                    elif isinstance(tg, (ast.Tuple, ast.List)):
                        for e in tg.elts:
                            e2 = e.value if isinstance(e, ast.Starred) else e
                            if isinstance(e2, ast.Name):
                                defs.setdefault(e2.id, []).append(n.value)
            elif isinstance(n, ast.AugAssign) and isinstance(n.target, ast.Name):
                defs.setdefault(n.target.id, []).append(n.value)
            elif isinstance(n, ast.NamedExpr) and isinstance(n.target, ast.Name):
                defs.setdefault(n.target.id, []).append(n.value)
        return defs

    fed = {}  # numpy parameter -> set of kinds over all call sites

    def record(numpy_param, kind, ps, node=None):
        """numpy_param fed by an expression over handler parameters ps"""
        same_slot = {h for h in ps if np_name(h) == numpy_param}
        stars = {h for h in ps if h in (hvarpos, hvarkw)}
        if kind == "const":
            if not (isinstance(node, ast.Constant) and node.value is None):
                fed.setdefault(numpy_param, set()).add("const")  # a literal other than None
            return
        if same_slot:
            fed.setdefault(numpy_param, set()).add("direct" if (kind == "direct" and ps == same_slot) else "derived")
        elif stars and numpy_param not in out["named"]:
            if hvarpos in stars:
                out["star_pos"] = True
            if hvarkw in stars:
                out["star_kw"] = True
        elif ps - stars:
            fed.setdefault(numpy_param, set()).add("crossed")
        else:
            fed.setdefault(numpy_param, set()).add("const")  # an expression over no parameter at all

    def site(call, env, local_defs):
        i = 0
        starred = False
        for a in call.args:
            if isinstance(a, ast.Starred):
                k, ps = classify(a.value, env, local_defs)
                if hvarpos in ps:
                    out["star_pos"] = True
                starred = True
                continue
            k, ps = classify(a, env, local_defs)
            if not starred:
                name = npos[i] if i < len(npos) else (f"*{nvarpos}[{i - len(npos)}]" if nvarpos else f"#{i}")
                # a numpy function whose first parameter is *operands (einsum): positional i is *operands[i]
                if not npos and nvarpos:
                    name = f"*{nvarpos}[{i}]"
                record(name, k, ps, a)
            i += 1
        for kw in call.keywords:
            if kw.arg is None:
                # **NAME where NAME is a local dict literal {"num": num, ...}: one keyword per key
                dicts = [d for d in local_defs.get(kw.value.id, [])] if isinstance(kw.value, ast.Name) else []
                if dicts and all(isinstance(d, ast.Dict) for d in dicts):
                    for d in dicts:
                        for kk, vv in zip(d.keys, d.values):
                            if isinstance(kk, ast.Constant) and isinstance(kk.value, str):
                                k, ps = classify(vv, env, {})
                                record(kk.value, k, ps, vv)
                    continue
                k, ps = classify(kw.value, env, local_defs)
                if hvarkw in ps:
                    out["star_kw"] = True
                continue
            k, ps = classify(kw.value, env, local_defs)
            record(kw.arg, k, ps, kw.value)

    def scan(fnode, env, depth=0):
        local_defs = collect_locals(fnode)
        for n in ast.walk(fnode):
            if not isinstance(n, ast.Call):
                continue
            f = n.func
            if isinstance(f, ast.Attribute) and f.attr == "_implementation":
                site(n, env, local_defs)
            elif isinstance(f, ast.Attribute) and isinstance(f.value, ast.Name) and f.value.id == "np" and f.attr == getattr(func, "__name__", ""):
                site(n, env, local_defs)  # the public function on stripped arguments (np.interp)
            elif isinstance(f, ast.Name) and depth < 2:
                helper = getattr(AF, f.id, None)
                if isinstance(helper, types.FunctionType) and helper.__module__ == AF.__name__ and helper is not handler:
                    try:
                        hs = ast.parse(textwrap.dedent(inspect.getsource(helper)))
                        hd = next((m for m in ast.walk(hs) if isinstance(m, ast.FunctionDef)), None)
                        hsg = inspect.signature(helper)
                    except Exception:  # noqa: BLE001
                        continue
                    if hd is None or not any(isinstance(m, ast.Attribute) and m.attr == "_implementation" for m in ast.walk(hd)):
                        continue
                    # substitute the helper's parameters by the caller's argument expressions
                    henv = {}
                    hp_pos = [q for q, v in hsg.parameters.items() if v.kind in (v.POSITIONAL_ONLY, v.POSITIONAL_OR_KEYWORD)]
                    hv_pos = next((q for q, v in hsg.parameters.items() if v.kind is v.VAR_POSITIONAL), None)
                    hv_kw = next((q for q, v in hsg.parameters.items() if v.kind is v.VAR_KEYWORD), None)
                    j = 0
                    for a in n.args:
                        if isinstance(a, ast.Starred):
                            if hv_pos:
                                henv[hv_pos] = classify(a.value, env, local_defs)
                            continue
                        if j < len(hp_pos):
                            henv[hp_pos[j]] = classify(a, env, local_defs)
                        j += 1
                    for kw in n.keywords:
                        if kw.arg is None:
                            if hv_kw:
                                henv[hv_kw] = classify(kw.value, env, local_defs)
                        else:
                            henv[kw.arg] = classify(kw.value, env, local_defs)
                    scan(ast.Module(body=hd.body, type_ignores=[]), henv, depth + 1)

    env0 = {n: ("direct", {n}) for n in hsig.parameters}
    scan(ast.Module(body=fdef.body, type_ignores=[]), env0)
    # a parameter counts as fed directly / derivedly only if EVERY call site that feeds it does so
    out["direct"] = sorted(p for p, ks in fed.items() if ks <= {"direct"})
    out["derived"] = sorted(p for p, ks in fed.items() if ks <= {"direct", "derived"})
    out["crossed"] = sorted(p for p, ks in fed.items() if "crossed" in ks)
    out["const"] = sorted(p for p, ks in fed.items() if "const" in ks)
    return out
