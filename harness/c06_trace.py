"""C06 forwarding tracer: which NumPy computation does a unyt `__array_function__` handler invoke?

`unyt._array_functions.np` (and the import-time alias `_trapezoid_func`) are replaced by a recording
namespace proxy; every `np.<f>._implementation(...)` (and every public `np.<f>(...)` call on
non-unit arguments) made while a handler runs is logged *before* it executes: target, and for
every parameter of the target (bound through `inspect.signature`) how the received value relates to
what the caller passed.  Used by the translator plugin (tools/extract.d/c06_handlers.py), by the
forwarding oracle and by the correspondence of harness/c06.py.
"""
import ast
import contextlib
import inspect
import textwrap
import types
import warnings

import numpy as np

import npcatalog as C


# --------------------------------------------------------------------------------------
# recording proxy


class Recorder:
    def __init__(self):
        self.calls = []  # dict(via, target, args, kwargs, result_canon)
        self.entered = []  # handlers entered (function ids)
        self.on_call = None  # callback(callrec) run before the kernel executes
        self.depth = 0  # nesting depth of unyt handlers


def _has_unit(x, depth=0):
    import unyt

    if isinstance(x, unyt.Unit):
        return True
    if isinstance(x, (list, tuple)) and depth < 4:
        return any(_has_unit(y, depth + 1) for y in x)
    return False


class FuncProxy:
    """stands for a dispatcher function `np.f` inside unyt._array_functions"""

    def __init__(self, real, rec):
        object.__setattr__(self, "_real", real)
        object.__setattr__(self, "_rec", rec)

    def _record(self, via, args, kwargs):
        real = object.__getattribute__(self, "_real")
        rec = object.__getattribute__(self, "_rec")
        cr = {"via": via, "target": C.name_of(real) or getattr(real, "__name__", "?"), "args": args, "kwargs": kwargs,
              "depth": rec.depth}
        if rec.on_call is not None:
            rec.on_call(cr)
        rec.calls.append(cr)
        return cr

    def __call__(self, *args, **kwargs):
        real = object.__getattribute__(self, "_real")
        if _has_unit(args) or _has_unit(list(kwargs.values())):
            return real(*args, **kwargs)  # unit arithmetic (np.prod over units), not a kernel call
        cr = self._record("public", args, kwargs)
        r = real(*args, **kwargs)
        cr["result"] = r
        return r

    def __getattr__(self, name):
        real = object.__getattribute__(self, "_real")
        if name == "_implementation":
            impl = real._implementation

            def recording_impl(*args, **kwargs):
                cr = self._record("impl", args, kwargs)
                r = impl(*args, **kwargs)
                cr["result"] = r
                return r

            return recording_impl
        return getattr(real, name)


class NamespaceProxy:
    def __init__(self, real, rec):
        object.__setattr__(self, "_real", real)
        object.__setattr__(self, "_rec", rec)

    def __getattr__(self, name):
        real = object.__getattribute__(self, "_real")
        rec = object.__getattribute__(self, "_rec")
        v = getattr(real, name)
        if isinstance(v, types.ModuleType):
            return NamespaceProxy(v, rec)
        if callable(v) and hasattr(v, "_implementation"):
            return FuncProxy(v, rec)
        return v


@contextlib.contextmanager
def recording():
    """patch unyt._array_functions for the duration of the block; yields the Recorder"""
    import unyt._array_functions as AF

    rec = Recorder()
    saved_np = AF.np
    saved_trap = getattr(AF, "_trapezoid_func", None)
    saved_handlers = dict(AF._HANDLED_FUNCTIONS)
    AF.np = NamespaceProxy(np, rec)
    if saved_trap is not None:
        AF._trapezoid_func = FuncProxy(saved_trap, rec)

    def wrap(fn, fid):
        def entered(*a, **k):
            rec.entered.append(fid)
            rec.depth += 1
            try:
                return fn(*a, **k)
            finally:
                rec.depth -= 1

        return entered

    for f, h in saved_handlers.items():
        AF._HANDLED_FUNCTIONS[f] = wrap(h, C.name_of(f) or getattr(f, "__name__", "?"))
    try:
        yield rec
    finally:
        AF.np = saved_np
        if saved_trap is not None:
            AF._trapezoid_func = saved_trap
        AF._HANDLED_FUNCTIONS.clear()
        AF._HANDLED_FUNCTIONS.update(saved_handlers)


# --------------------------------------------------------------------------------------
# relation of a received value to what the caller passed


def _is_q(x):
    import unyt

    return isinstance(x, unyt.unyt_array)


def has_quantity(x, depth=0):
    if _is_q(x):
        return True
    if isinstance(x, (list, tuple)) and depth < 6:
        return any(has_quantity(y, depth + 1) for y in x)
    if isinstance(x, dict):
        return any(has_quantity(y, depth + 1) for y in x.values())
    return False


def eq_stripped(r, c, depth=0):
    """received value `r` equals the caller's value `c` once units are stripped"""
    if isinstance(r, np.ndarray) or isinstance(c, np.ndarray):
        try:
            ra, ca = np.asarray(r), np.asarray(c)
        except Exception:  # noqa: BLE001
            return False
        if isinstance(r, (list, tuple)) != isinstance(c, (list, tuple)):
            # the caller's (nested) sequence of numbers turned into an array of the same numbers
            if not isinstance(c, (list, tuple)):
                return False
            try:
                cs = np.asarray(_strip(c) if isinstance(c, (list, tuple)) else c)
                rs = np.asarray(_strip(r) if isinstance(r, (list, tuple)) else r)
                return cs.shape == rs.shape and cs.dtype.kind in "biufc" and rs.dtype.kind in "biufc" and bool(np.array_equal(cs, rs))
            except Exception:  # noqa: BLE001
                return False
        if ra.shape != ca.shape or ra.dtype != ca.dtype:
            # a python scalar turned into a 0-d array of the default dtype is the same number
            if ra.shape == ca.shape == () and not isinstance(c, np.ndarray):
                try:
                    return bool(ra == ca) or (ra != ra and ca != ca)
                except Exception:  # noqa: BLE001
                    return False
            return False
        if ra.dtype.kind == "O":
            return all(eq_stripped(x, y, depth + 1) for x, y in zip(ra.ravel().tolist(), ca.ravel().tolist()))
        return np.ascontiguousarray(ra.view(np.ndarray)).tobytes() == np.ascontiguousarray(ca.view(np.ndarray)).tobytes()
    if isinstance(r, (list, tuple)) and isinstance(c, (list, tuple)) and depth < 6:
        return len(r) == len(c) and all(eq_stripped(x, y, depth + 1) for x, y in zip(r, c))
    if isinstance(r, dict) and isinstance(c, dict):
        return r.keys() == c.keys() and all(eq_stripped(r[k], c[k], depth + 1) for k in r)
    if r is c:
        return True
    if isinstance(r, (list, tuple, dict)) or isinstance(c, (list, tuple, dict)):
        return False
    try:
        if type(r) in (bool, type(None), str) or type(c) in (bool, type(None), str):
            return type(r) is type(c) and r == c
        return bool(r == c)
    except Exception:  # noqa: BLE001
        return False


def aliases(r, c):
    """received array shares the caller's buffer (required for out= targets)"""
    if isinstance(r, np.ndarray) and isinstance(c, np.ndarray):
        return r.shape == c.shape and r.__array_interface__["data"][0] == c.__array_interface__["data"][0]
    return r is c


def bind(func, args, kwargs):
    """{flat parameter name: value} through the target's signature; None if it does not bind"""
    try:
        sig = inspect.signature(func)
        ba = sig.bind(*args, **kwargs)
    except Exception:  # noqa: BLE001
        return None, None
    flat = {}
    for name, v in ba.arguments.items():
        p = sig.parameters[name]
        if p.kind is p.VAR_POSITIONAL:
            for i, x in enumerate(v):
                flat[f"*{name}[{i}]"] = x
        elif p.kind is p.VAR_KEYWORD:
            for k, x in v.items():
                flat[f"**{k}"] = x
        else:
            flat[name] = v
    return flat, sig


_MISSING = object()


def default_of(sig, name):
    p = sig.parameters.get(name)
    if p is None or p.default is p.empty:
        return _MISSING
    return p.default


def relate(target_func, caller_flat, caller_sig, cr):
    """per-parameter verdicts of one recorded kernel call against the caller's bound arguments.
    verdict ∈ same | sameRaw | dropped | changed | injected | copied"""
    recv, _ = bind(target_func, cr["args"], cr["kwargs"])
    if recv is None:
        return None
    out = []
    names = list(caller_flat)
    for n in recv:
        if n not in caller_flat:
            names.append(n)
    for n in names:
        if n in caller_flat and n in recv:
            c, r = caller_flat[n], recv[n]
            if eq_stripped(r, c):
                if n == "out" and isinstance(c, np.ndarray) and not aliases(r, c):
                    v = "copied"
                else:
                    v = "sameRaw" if has_quantity(r) else "same"
            else:
                v = "changed"
        elif n in caller_flat:
            d = default_of(caller_sig, n)
            c = caller_flat[n]
            v = "same" if (d is not _MISSING and (d is c or (d is not np._NoValue and eq_stripped(d, c)))) else "dropped"
        else:
            d = default_of(caller_sig, n)
            r = recv[n]
            v = "same" if (d is not _MISSING and (d is r or (d is not np._NoValue and eq_stripped(r, d)))) else "injected"
            if v == "same":
                continue  # a default spelled out: not a parameter of this call
        out.append((n, v))
    return out


def render_actual(target_func, caller_flat, caller_sig, cr):
    """the kernel call as it really happened, in the notation of the model's `renderCall`:
    {param: token}; token `~m` = the caller's value of parameter m without units, `m` = still
    carrying units, `?p` = a value the caller did not pass.  Found by *search* over the caller's
    parameters (independent of `relate`)."""
    recv, _ = bind(target_func, cr["args"], cr["kwargs"])
    if recv is None:
        return None
    out = {}
    for n, r in recv.items():
        src = None
        if n in caller_flat and eq_stripped(r, caller_flat[n]):
            src = n
        else:
            for m, c in caller_flat.items():
                if isinstance(r, (np.ndarray, list, tuple)) and isinstance(c, (np.ndarray, list, tuple)) and eq_stripped(r, c):
                    src = m
                    break
        if src is None:
            d = default_of(caller_sig, n)
            if n not in caller_flat and d is not _MISSING and (d is r or (d is not np._NoValue and eq_stripped(r, d))):
                continue  # a default spelled out
            out[n] = "?" + n
        else:
            if src == "out" and isinstance(caller_flat[src], np.ndarray) and not aliases(r, caller_flat[src]):
                out[n] = "?" + n
            else:
                out[n] = ("" if has_quantity(r) else "~") + src
    for n, c in caller_flat.items():
        if n not in recv:
            d = default_of(caller_sig, n)
            if d is not _MISSING and (d is c or (d is not np._NoValue and eq_stripped(d, c))):
                out[n] = "~" + n  # the default, elided: the kernel uses the same value
    return out


# --------------------------------------------------------------------------------------
# tracing one catalogue case


def trace_case(t, dk, sc, seed, out_mode="unyt", units=("m", "s", "kg")):
    """run template `t` on quantities under the recorder.  Returns None when the case cannot be
    built, else dict(func, variant, outcome, entered, calls=[(via, target)], params=[(name, verdict)],
    post, sig)"""
    import c06_diff as D

    try:
        call = t.instantiate(dk, sc, seed)
    except Exception:  # noqa: BLE001
        return None
    func = C.resolve(t.func)
    fid = C.canonical_func(t)
    args, kwargs, _objs = call.materialize(C.unyt_wrap(units, out=out_mode))
    caller_flat, caller_sig = bind(func, args, kwargs)
    if caller_flat is None:
        return None
    analysed = []

    with recording() as rec:
        def on_call(cr):
            tf = C.resolve(cr["target"]) if cr["target"].startswith("numpy") else None
            cr["verdicts"] = relate(tf, caller_flat, caller_sig, cr) if tf is not None else None
            cr["render"] = render_actual(tf, caller_flat, caller_sig, cr) if tf is not None else None
            analysed.append(cr)

        rec.on_call = on_call
        with warnings.catch_warnings():
            warnings.simplefilter("ignore")
            try:
                res = t.invoke(args, kwargs)
                outcome = "ok"
            except Exception as e:  # noqa: BLE001
                res = None
                outcome = "raise:" + type(e).__name__
    # only the calls made by the handler of this function itself (nested dispatches of NumPy's own
    # implementation re-enter other handlers): keep top-level calls = those recorded while exactly
    # the first handler entered... nested handlers are recognised by `entered`
    top = [c for c in analysed if c["depth"] == 1]
    rec_out = {
        "func": fid,
        "variant": t.variant,
        "outcome": outcome,
        "entered": list(rec.entered),
        "calls": [(c["via"], c["target"]) for c in top],
        "sig": ",".join(sorted(f"{k}:{'q' if has_quantity(v) else 'b'}" for k, v in caller_flat.items())),
    }
    post = "none"
    params = []
    rec_out["caller"] = [(k, "q" if has_quantity(v) else "b") for k, v in caller_flat.items()]
    rec_out["render"] = top[0].get("render") if top else None
    if top:
        # the handler's own kernel call is the first one recorded
        k0 = top[0]
        params = k0.get("verdicts") or []
        if outcome == "ok" and "result" in k0:
            if t.result == "string" or isinstance(res, str):
                post = "text"
            elif res is None and k0["result"] is None:
                post = "id"
            else:
                post = "id" if D.same(D.canon(_strip(res)), D.canon(_strip(k0["result"]))) else "changed"
    rec_out["params"] = params
    rec_out["post"] = post
    return rec_out


def _strip(x, depth=0):
    if _is_q(x):
        return np.asarray(x)
    if isinstance(x, (list, tuple)) and depth < 6:
        return tuple(_strip(y, depth + 1) for y in x)
    return x


# --------------------------------------------------------------------------------------
# ast pass over the handler sources


def handler_static(fn):
    """(params [(name, kind)], never_loaded [names], static_targets [np.<chain> ids whose
    `_implementation` is referenced, directly or through a helper that receives `np.<chain>`])"""
    import unyt._array_functions as AF

    sig = inspect.signature(fn)
    params = [(n, p.kind.name) for n, p in sig.parameters.items()]
    try:
        src = textwrap.dedent(inspect.getsource(fn))
        tree = ast.parse(src)
    except Exception:  # noqa: BLE001
        return params, [], [], False
    fdef = next((n for n in ast.walk(tree) if isinstance(n, (ast.FunctionDef,))), None)
    loaded = {n.id for n in ast.walk(fdef) if isinstance(n, ast.Name) and isinstance(n.ctx, ast.Load)}
    never = [n for n, _k in params if n not in loaded]
    raises_only = all(isinstance(st, (ast.Raise, ast.Expr)) for st in fdef.body) and any(isinstance(st, ast.Raise) for st in fdef.body)

    def chain(node):
        parts = []
        while isinstance(node, ast.Attribute):
            parts.append(node.attr)
            node = node.value
        if isinstance(node, ast.Name):
            parts.append(node.id)
            return list(reversed(parts))
        return None

    targets = []

    def scan(fnode, modsrc_fn, depth=0):
        for n in ast.walk(fnode):
            if isinstance(n, ast.Attribute) and n.attr == "_implementation":
                ch = chain(n.value)
                if ch and ch[0] == "np":
                    targets.append("numpy." + ".".join(ch[1:]))
                elif ch and len(ch) == 1 and ch[0] == "_trapezoid_func":
                    real = getattr(AF, "_trapezoid_func", None)
                    real = object.__getattribute__(real, "_real") if isinstance(real, FuncProxy) else real
                    targets.append(C.name_of(real) or "numpy.trapezoid")
            if isinstance(n, ast.Call) and isinstance(n.func, ast.Name) and depth < 2:
                helper = getattr(AF, n.func.id, None)
                if isinstance(helper, types.FunctionType) and helper.__module__ == AF.__name__ and helper is not modsrc_fn:
                    # np.<chain> handed to a helper that calls <param>._implementation
                    for a in list(n.args) + [k.value for k in n.keywords]:
                        ch = chain(a) if isinstance(a, ast.Attribute) else None
                        if ch and ch[0] == "np":
                            targets.append("numpy." + ".".join(ch[1:]))
                    try:
                        hs = ast.parse(textwrap.dedent(inspect.getsource(helper)))
                        hd = next((m for m in ast.walk(hs) if isinstance(m, ast.FunctionDef)), None)
                        if hd is not None:
                            scan(ast.Module(body=hd.body, type_ignores=[]), helper, depth + 1)
                    except Exception:  # noqa: BLE001
                        pass

    body_only = ast.Module(body=fdef.body, type_ignores=[])
    scan(body_only, fn)
    seen = []
    for x in targets:
        # resolve aliases to the canonical universe id
        o = C.resolve(x)
        cid = C.name_of(o) if o is not None else x
        cid = cid or x
        if cid not in seen:
            seen.append(cid)
    return params, never, seen, raises_only


def static_dropped(func, handler):
    """numpy parameters of `func` that `handler` accepts but can never forward: a named handler
    parameter that is never read, or a parameter only the handler's `*args/**kwargs` could carry
    while those are never read"""
    params, never, _targets, _ro = handler_static(handler)
    named = {p for p, k in params if k not in ("VAR_POSITIONAL", "VAR_KEYWORD")}
    star_dead = any(k in ("VAR_POSITIONAL", "VAR_KEYWORD") and p in never for p, k in params)
    has_star = any(k in ("VAR_POSITIONAL", "VAR_KEYWORD") for p, k in params)
    dropped = []
    try:
        nsig = inspect.signature(func)
    except Exception:  # noqa: BLE001
        return dropped
    for p, prm in nsig.parameters.items():
        if prm.kind in (prm.VAR_POSITIONAL, prm.VAR_KEYWORD):
            pn = ("*" if prm.kind is prm.VAR_POSITIONAL else "**") + p
            hk = "VAR_POSITIONAL" if prm.kind is prm.VAR_POSITIONAL else "VAR_KEYWORD"
            hp = [q for q, k in params if k == hk]
            if hp and hp[0] in never:
                dropped.append(pn)
            continue
        if p in named:
            if p in never:
                dropped.append(p)
        elif has_star and star_dead:
            dropped.append(p)
    return dropped
